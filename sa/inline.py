"""Inlining of helper functions that the rules do not know.

The rules are written against an inventory of functions (sa/known_functions.json). A function that is not in the inventory
was introduced later (typically by an 'extract helper' refactoring) and is made transparent: every call to it from inside the
package is replaced, in the AST that the rules analyse, by its body.  Shapes handled:

  * statement call            helper(a, b)                      -> body
  * value call                x = helper(a) / return helper(a)  -> body; x = <returned expr>      (returns are structured away)
  * call inside an expression f(helper(a)) / if helper(a): ...  -> pure single-expression helpers are substituted in place,
                                                                    others are hoisted into a temporary before the statement
  * generator helper          for v in helper(a): BODY           -> helper body with each `yield e` replaced by `v = e; BODY`
                              yield from helper(a)               -> helper body

Anything else (recursion, *args/**kwargs, returns inside loops, nested defs, decorators other than staticmethod/classmethod)
leaves the call untouched - the rules then see an unresolved call and fail closed where it matters.
"""
from __future__ import annotations

import ast
import json
import os
from typing import Optional

from .core import DefRef, Program, func_params, qualname_of

HERE = os.path.dirname(os.path.abspath(__file__))
MAX_BODY = 40
MAX_DEPTH = 3


def load_inventory() -> set:
    with open(os.path.join(HERE, "known_functions.json")) as f:
        return set(json.load(f)["names"])


def clone(node):
    """Deep copy of an AST subtree that shares (does not copy) the _module reference and drops _parent links."""
    if isinstance(node, list):
        return [clone(x) for x in node]
    if not isinstance(node, ast.AST):
        return node
    new = type(node)()
    for f in node._fields:
        if hasattr(node, f):
            setattr(new, f, clone(getattr(node, f)))
    for a in ("lineno", "col_offset", "end_lineno", "end_col_offset"):
        if hasattr(node, a):
            setattr(new, a, getattr(node, a))
    if hasattr(node, "_module"):
        new._module = node._module
    if getattr(node, "_inl", False):
        new._inl = True
    return new


class _Subst(ast.NodeTransformer):
    def __init__(self, mapping: dict):
        self.mapping = mapping

    def visit_Name(self, node):
        if node.id in self.mapping:
            rep = self.mapping[node.id]
            if isinstance(rep, str):
                n = ast.Name(id=rep, ctx=node.ctx)
                ast.copy_location(n, node)
                if hasattr(node, "_module"):
                    n._module = node._module
                return n
            if isinstance(node.ctx, ast.Load):
                return clone(rep)
        return node

    # do not descend into nested scopes that rebind the names
    def visit_Lambda(self, node):
        bound = {a.arg for a in node.args.args}
        inner = _Subst({k: v for k, v in self.mapping.items() if k not in bound})
        node.body = inner.visit(node.body)
        return node


def _stored_names(stmts) -> set:
    out = set()
    for st in stmts:
        for n in ast.walk(st):
            if isinstance(n, ast.Name) and isinstance(n.ctx, (ast.Store, ast.Del)):
                out.add(n.id)
            elif isinstance(n, ast.ExceptHandler) and n.name:
                out.add(n.name)
    return out


def _contains(stmts, kinds, stop_at_loops=False) -> bool:
    for st in stmts:
        for n in _walk_same_scope(st, stop_at_loops):
            if isinstance(n, kinds):
                return True
    return False


def _walk_same_scope(node, stop_at_loops=False):
    stack = [node]
    while stack:
        n = stack.pop()
        yield n
        for c in ast.iter_child_nodes(n):
            if isinstance(c, (ast.FunctionDef, ast.AsyncFunctionDef, ast.ClassDef, ast.Lambda)):
                continue
            stack.append(c)


def _returns_in_loops(stmts) -> bool:
    for st in stmts:
        for n in _walk_same_scope(st):
            if isinstance(n, (ast.For, ast.While, ast.AsyncFor)):
                for m in _walk_same_scope(n):
                    if isinstance(m, ast.Return):
                        return True
            if isinstance(n, (ast.Try,)) and n.finalbody:
                for m in _walk_same_scope(n):
                    if isinstance(m, ast.Return):
                        return True
    return False


def _always_returns(stmts) -> bool:
    if not stmts:
        return False
    last = stmts[-1]
    if isinstance(last, (ast.Return, ast.Raise)):
        return True
    if isinstance(last, ast.If) and last.orelse:
        return _always_returns(last.body) and _always_returns(last.orelse)
    return False


def structure_returns(stmts, result: Optional[str]):
    """Rewrite a statement list with (non-loop) returns into one without: `return e` -> `result = e` (or nothing), and code after
    an `if ...: return` moves into the else branch.  Precondition: no return inside loops / try-finally."""
    out = []
    for i, st in enumerate(stmts):
        rest = stmts[i + 1:]
        if isinstance(st, ast.Return):
            if result is not None:
                val = st.value if st.value is not None else ast.Constant(value=None)
                a = ast.Assign(targets=[ast.Name(id=result, ctx=ast.Store())], value=val)
                ast.copy_location(a, st)
                ast.fix_missing_locations(a)
                _set_module(a, getattr(st, "_module", None))
                out.append(a)
            elif st.value is not None and not isinstance(st.value, (ast.Constant, ast.Name)):
                e = ast.Expr(value=st.value)
                ast.copy_location(e, st)
                _set_module(e, getattr(st, "_module", None))
                out.append(e)
            return out
        if isinstance(st, ast.If) and (_contains(st.body, ast.Return) or _contains(st.orelse, ast.Return)):
            body_ret = _always_returns(st.body)
            else_ret = _always_returns(st.orelse) if st.orelse else False
            new = ast.If(test=st.test, body=[], orelse=[])
            ast.copy_location(new, st)
            _set_module(new, getattr(st, "_module", None))
            if body_ret and not else_ret:
                new.body = structure_returns(st.body, result) or [_pass(st)]
                new.orelse = structure_returns(list(st.orelse) + list(rest), result)
            elif else_ret and not body_ret:
                new.body = structure_returns(list(st.body) + list(rest), result) or [_pass(st)]
                new.orelse = structure_returns(st.orelse, result)
            elif body_ret and else_ret:
                new.body = structure_returns(st.body, result) or [_pass(st)]
                new.orelse = structure_returns(st.orelse, result)
                out.append(new)
                return out
            else:
                # a return somewhere deeper on only some paths: duplicate the rest into both continuations
                new.body = structure_returns(list(st.body) + clone(list(rest)), result) or [_pass(st)]
                new.orelse = structure_returns(list(st.orelse) + list(rest), result)
            out.append(new)
            return out
        if isinstance(st, ast.Try) and _contains([st], ast.Return):
            new = clone(st)
            new.body = structure_returns(st.body, result) or [_pass(st)]
            for h, h0 in zip(new.handlers, st.handlers):
                h.body = structure_returns(h0.body, result) or [_pass(st)]
            new.orelse = structure_returns(st.orelse, result)
            out.append(new)
            # conservative: code after a try containing returns stays (may run after a 'return' path) - only used when the try is last
            if rest:
                return None
            return out
        if isinstance(st, (ast.With,)) and _contains(st.body, ast.Return):
            new = clone(st)
            inner = structure_returns(list(st.body), result)
            if inner is None:
                return None
            new.body = inner or [_pass(st)]
            out.append(new)
            if rest and _always_returns(st.body):
                return out
            if rest:
                return None
            return out
        out.append(st)
    return out


def _const_test(e):
    """Truth value of a test made of constants only (after a constant argument was substituted for a parameter); else None."""
    if isinstance(e, ast.Constant):
        return bool(e.value)
    if isinstance(e, ast.UnaryOp) and isinstance(e.op, ast.Not):
        v = _const_test(e.operand)
        return None if v is None else not v
    if isinstance(e, ast.BoolOp):
        vals = [_const_test(v) for v in e.values]
        if isinstance(e.op, ast.And):
            if any(v is False for v in vals):
                return False
            return True if all(v is True for v in vals) else None
        if any(v is True for v in vals):
            return True
        return False if all(v is False for v in vals) else None
    if isinstance(e, ast.Compare) and len(e.ops) == 1 and isinstance(e.left, ast.Constant):
        r = e.comparators[0]
        op = e.ops[0]
        try:
            if isinstance(r, ast.Constant):
                a, b = e.left.value, r.value
                if isinstance(op, ast.Eq):
                    return a == b
                if isinstance(op, ast.NotEq):
                    return a != b
                if isinstance(op, ast.Is):
                    return a is b if (a is None or b is None or isinstance(a, bool) or isinstance(b, bool)) else None
                if isinstance(op, ast.IsNot):
                    return a is not b if (a is None or b is None or isinstance(a, bool) or isinstance(b, bool)) else None
                if isinstance(op, ast.In) and isinstance(b, (str, bytes)):
                    return a in b
                if isinstance(op, ast.NotIn) and isinstance(b, (str, bytes)):
                    return a not in b
            if isinstance(r, (ast.Tuple, ast.List, ast.Set)) and all(isinstance(x, ast.Constant) for x in r.elts):
                vals = [x.value for x in r.elts]
                if isinstance(op, ast.In):
                    return e.left.value in vals
                if isinstance(op, ast.NotIn):
                    return e.left.value not in vals
        except TypeError:
            return None
    return None


class _SimplifyBool(ast.NodeTransformer):
    """`True and x` -> x ; `False or x` -> x ; `not False and x` -> x  (constants left behind by parameter substitution)"""
    def visit_BoolOp(self, node):
        self.generic_visit(node)
        keep = []
        for v in node.values:
            c = _const_test(v)
            if isinstance(node.op, ast.And):
                if c is True:
                    continue
                if c is False:
                    return ast.copy_location(ast.Constant(value=False), node)
            else:
                if c is False:
                    continue
                if c is True and not keep:
                    return ast.copy_location(ast.Constant(value=True), node)
            keep.append(v)
        if not keep:
            return ast.copy_location(ast.Constant(value=isinstance(node.op, ast.And)), node)
        if len(keep) == 1:
            return keep[0]
        node.values = keep
        return node

    def visit_FunctionDef(self, node):
        return node

    visit_AsyncFunctionDef = visit_FunctionDef
    visit_ClassDef = visit_FunctionDef
    visit_Lambda = visit_FunctionDef


def _flag_tails(stmts, flag):
    """Terminal statement lists of `stmts` (descending through trailing if/else) that end with `flag = <constant>`; None if some
    path does not end that way (and does not leave by return/raise)."""
    if not stmts:
        return None
    last = stmts[-1]
    if isinstance(last, ast.Assign) and len(last.targets) == 1 and isinstance(last.targets[0], ast.Name) and last.targets[0].id == flag and isinstance(last.value, ast.Constant):
        return [(stmts, bool(last.value.value))]
    if isinstance(last, (ast.Return, ast.Raise)):
        return []
    if isinstance(last, ast.If) and last.orelse:
        a, b = _flag_tails(last.body, flag), _flag_tails(last.orelse, flag)
        if a is None or b is None:
            return None
        return a + b
    return None


def _thread_flags(stmts):
    """if C: A; f = False  else: B; f = True     followed by     if not f: X  [else: Y]
    is the same as          if C: A; X  else: B; Y       when f is used nowhere else: the flag only carried the branch taken."""
    changed = True
    while changed:
        changed = False
        for i in range(len(stmts) - 1):
            a, b = stmts[i], stmts[i + 1]
            if not (isinstance(a, ast.If) and a.orelse and isinstance(b, ast.If)):
                continue
            t = b.test
            neg = False
            if isinstance(t, ast.UnaryOp) and isinstance(t.op, ast.Not):
                t, neg = t.operand, True
            if not isinstance(t, ast.Name):
                continue
            flag = t.id
            tails = _flag_tails([a], flag)
            if not tails:
                continue
            uses = sum(1 for s0 in stmts for x in ast.walk(s0) if isinstance(x, ast.Name) and x.id == flag)
            if uses != len(tails) + 1:
                continue
            for lst, val in tails:
                taken = b.body if (val != neg) else b.orelse
                lst.pop()
                lst.extend(clone(taken))
                if not lst:
                    lst.append(_pass(a))
            del stmts[i + 1]
            changed = True
            break
    return stmts


def _prune_constant_branches(stmts):
    stmts = [_SimplifyBool().visit(st) for st in stmts]
    out = []
    for st in stmts:
        for attr in ("body", "orelse", "finalbody"):
            blk = getattr(st, attr, None)
            if isinstance(blk, list) and not isinstance(st, (ast.FunctionDef, ast.AsyncFunctionDef, ast.ClassDef)):
                setattr(st, attr, _prune_constant_branches(blk))
        if isinstance(st, ast.Try):
            for h in st.handlers:
                h.body = _prune_constant_branches(h.body)
        if isinstance(st, ast.If):
            v = _const_test(st.test)
            if v is True:
                out.extend(st.body)
                continue
            if v is False:
                out.extend(st.orelse)
                continue
        out.append(st)

    class E(ast.NodeTransformer):
        def visit_IfExp(self, node):
            self.generic_visit(node)
            v = _const_test(node.test)
            if v is True:
                return node.body
            if v is False:
                return node.orelse
            return node

        def visit_FunctionDef(self, node):
            return node

        visit_AsyncFunctionDef = visit_FunctionDef
        visit_ClassDef = visit_FunctionDef

    res = [E().visit(st) for st in out]
    # statements after an unconditional return/raise that pruning exposed are dead
    cut = []
    for st in res:
        cut.append(st)
        if isinstance(st, (ast.Return, ast.Raise)):
            break
    return cut


def _pass(like):
    p = ast.Pass()
    ast.copy_location(p, like)
    _set_module(p, getattr(like, "_module", None))
    return p


def _set_module(node, module):
    if module is None:
        return
    for n in ast.walk(node):
        if not hasattr(n, "_module"):
            n._module = module


class Inliner:
    def __init__(self, prog: Program, inventory: Optional[set] = None):
        self.prog = prog
        self.inventory = load_inventory() if inventory is None else inventory
        self.counter = 0
        self.inlined_calls: list[str] = []
        self.kept_calls: list[str] = []

    # ---------------------------------------------------------------- helper resolution
    def _unique_new_methods(self):
        if getattr(self, "_unm", None) is None:
            known_names = {q.rsplit(".", 1)[-1] for q in self.inventory}
            found = {}
            for m in self.prog.modules.values():
                for node in ast.walk(m.tree):
                    if isinstance(node, ast.FunctionDef) and isinstance(getattr(node, "_parent", None), ast.ClassDef) and qualname_of(node) not in self.inventory \
                            and node.name not in known_names and not (node.name.startswith("__") and node.name.endswith("__")) \
                            and not any(ast.unparse(d) in ("staticmethod", "classmethod", "property") for d in node.decorator_list):
                        found.setdefault(node.name, []).append(node)
            self._unm = {k: v[0] for k, v in found.items() if len(v) == 1}
        return self._unm

    def resolve_target(self, call: ast.Call, module, cls: Optional[ast.ClassDef]):
        """FunctionDef of the package that the call resolves to (any function, inlinable or not), else None."""
        f = call.func
        try:
            if isinstance(f, ast.Name):
                r = self.prog.resolve_global(module, f.id)
            elif isinstance(f, ast.Attribute) and isinstance(f.value, ast.Name) and f.value.id in ("self", "cls") and cls is not None:
                r = self.prog.class_attr(cls, f.attr)
            elif isinstance(f, ast.Attribute):
                r = self.prog.resolve_expr(module, f)
            else:
                return None
        except Exception:
            return None
        if isinstance(r, DefRef) and isinstance(r.node, ast.FunctionDef):
            return r.node
        return None

    def helper_for(self, call: ast.Call, module, cls: Optional[ast.ClassDef]):
        f = call.func
        target = None
        recv = None
        if isinstance(f, ast.Name):
            r = self.prog.resolve_global(module, f.id)
            if isinstance(r, DefRef) and isinstance(r.node, ast.FunctionDef):
                target = r
        elif isinstance(f, ast.Attribute) and isinstance(f.value, ast.Name) and f.value.id in ("self", "cls") and cls is not None:
            m = self.prog.class_attr(cls, f.attr)
            if isinstance(m, DefRef) and isinstance(m.node, ast.FunctionDef):
                target, recv = m, f.value
        elif isinstance(f, ast.Attribute) and isinstance(f.value, ast.Call) and isinstance(f.value.func, ast.Name) and f.value.func.id == "super" and not f.value.args \
                and cls is not None:
            # super()._helper(...): a method of a base class, run on this object. Only for names the class does not define itself
            # (then super() and self find the same function).
            m = None
            for c in self.prog.mro(cls):
                if isinstance(c, DefRef) and c.node is not cls and f.attr in self.prog.methods_of(c.node):
                    m = DefRef(f"{c.qualname}.{f.attr}", self.prog.methods_of(c.node)[f.attr])
                    break
            if m is not None:
                if isinstance(m, DefRef) and isinstance(m.node, ast.FunctionDef) and not any(isinstance(d, ast.Name) and d.id in ("staticmethod", "classmethod") for d in m.node.decorator_list):
                    owner = call
                    while owner is not None and not isinstance(owner, (ast.FunctionDef, ast.AsyncFunctionDef)):
                        owner = getattr(owner, "_parent", None)
                    me = (func_params(owner) or ["self"])[0] if owner is not None else "self"
                    target, recv = m, ast.copy_location(ast.Name(id=me, ctx=ast.Load()), f.value)
        elif isinstance(f, ast.Attribute):
            r = self.prog.resolve_expr(module, f)
            if isinstance(r, DefRef) and isinstance(r.node, ast.FunctionDef):
                target = r
                if isinstance(getattr(r.node, "_parent", None), ast.ClassDef):
                    recv = f.value
            elif isinstance(f.value, (ast.Name, ast.Attribute)):
                # `other._helper()`: a method name that no function the rules know has, defined exactly once among the new
                # functions of the package, called on some object - it can only be that helper
                cand = self._unique_new_methods().get(f.attr)
                if cand is not None:
                    target, recv = DefRef(qualname_of(cand), cand), f.value
        if target is None:
            return None
        fn = target.node
        q = qualname_of(fn)
        if q in self.inventory:
            return None
        if fn.name.startswith("__") and fn.name.endswith("__"):
            return None
        # a helper that calls itself (by any spelling of its own name) is never unfolded: there is no finite canonical form
        owner_cls = fn._parent.name if isinstance(getattr(fn, "_parent", None), ast.ClassDef) else None
        me0 = (func_params(fn) or [None])[0] if owner_cls else None

        def _own(recv):
            # self.f / cls.f / Owner.f - the function's own name reached through its own object or class (not `self.fp.f`)
            return isinstance(recv, ast.Name) and recv.id in {me0, owner_cls, "self", "cls"} - {None}

        if any(isinstance(x, ast.Call) and ((isinstance(x.func, ast.Name) and x.func.id == fn.name) or (isinstance(x.func, ast.Attribute) and x.func.attr == fn.name and _own(x.func.value)))
               for x in ast.walk(fn)) or any(isinstance(x, ast.Assign) and isinstance(x.value, ast.Attribute) and x.value.attr == fn.name and _own(x.value.value) for x in ast.walk(fn)):
            return None
        decos = set()
        for d in fn.decorator_list:
            decos.add(ast.unparse(d))
        if decos - {"staticmethod", "classmethod"}:
            return None
        a = fn.args
        if a.vararg or a.kwarg or a.posonlyargs and False:
            return None
        if any(isinstance(x, ast.Starred) for x in call.args) or any(k.arg is None for k in call.keywords):
            return None
        if len(fn.body) > MAX_BODY or isinstance(fn, ast.AsyncFunctionDef):
            return None
        if _contains(fn.body, (ast.Global, ast.Nonlocal)):
            return None
        if any(isinstance(n, (ast.FunctionDef, ast.AsyncFunctionDef, ast.ClassDef)) for st in fn.body for n in ast.walk(st)):
            return None
        return fn, recv, decos

    def bind(self, fn, recv, decos, call):
        """(mapping name->expr|newname, prologue statements) or None."""
        params = [x.arg for x in fn.args.posonlyargs + fn.args.args]
        kwonly = [x.arg for x in fn.args.kwonlyargs]
        defaults = dict(zip(params[len(params) - len(fn.args.defaults):], fn.args.defaults)) if fn.args.defaults else {}
        kwdefaults = {x.arg: d for x, d in zip(fn.args.kwonlyargs, fn.args.kw_defaults) if d is not None}
        is_method = isinstance(getattr(fn, "_parent", None), ast.ClassDef) and "staticmethod" not in decos
        values = {}
        pos = list(call.args)
        if is_method:
            if not params:
                return None
            if recv is not None:
                if "classmethod" in decos:
                    values[params[0]] = ast.Attribute(value=clone(recv), attr="__class__", ctx=ast.Load()) if not (isinstance(recv, ast.Name) and recv.id == "cls") else clone(recv)
                else:
                    values[params[0]] = recv
                params = params[1:]
            else:
                return None
        if len(pos) > len(params):
            return None
        for p, a in zip(params, pos):
            values[p] = a
        for k in call.keywords:
            if k.arg in values or k.arg not in params + kwonly:
                return None
            values[k.arg] = k.value
        for p in params + kwonly:
            if p not in values:
                d = defaults.get(p, kwdefaults.get(p))
                if d is None:
                    return None
                values[p] = d
        self.counter += 1
        suffix = f"__i{self.counter}"
        stored = _stored_names(fn.body)
        mapping = {}
        prologue = []
        uses = {}
        for st0 in fn.body:
            for x in ast.walk(st0):
                if isinstance(x, ast.Name) and isinstance(x.ctx, ast.Load):
                    uses[x.id] = uses.get(x.id, 0) + 1
        nodoc = [s0 for s0 in fn.body if not (isinstance(s0, ast.Expr) and isinstance(s0.value, ast.Constant))]
        single_expr = len(nodoc) == 1 or _as_expression(clone(nodoc)) is not None
        for p, a in values.items():
            simple = isinstance(a, (ast.Name, ast.Constant)) or (isinstance(a, ast.Attribute) and _is_chain(a))
            # an argument used at most once by a one-statement helper can take the parameter's place without being evaluated twice
            if not simple and single_expr and uses.get(p, 0) <= 1 and p not in stored:
                simple = True
            if simple and p not in stored:
                mapping[p] = a
            else:
                newname = p + suffix
                mapping[p] = newname
                asg = ast.Assign(targets=[ast.Name(id=newname, ctx=ast.Store())], value=clone(a))
                ast.copy_location(asg, call)
                ast.fix_missing_locations(asg)
                _set_module(asg, getattr(call, "_module", None))
                prologue.append(asg)
        for name in stored:
            if name not in mapping:
                mapping[name] = name + suffix
        return mapping, prologue, suffix

    def instantiate(self, fn, mapping):
        body = clone(fn.body)
        # drop the docstring
        if body and isinstance(body[0], ast.Expr) and isinstance(body[0].value, ast.Constant) and isinstance(body[0].value.value, str):
            body = body[1:]
        sub = _Subst(mapping)
        body = _prune_constant_branches([sub.visit(st) for st in body])
        for st in body:
            for n in ast.walk(st):
                if isinstance(n, ast.stmt):
                    n._inl = True  # written by a helper, not by the function it now sits in
        return body

    # ---------------------------------------------------------------- statement level
    def expand_block(self, stmts, module, cls, depth, stack):
        out = []
        for st in stmts:
            out.extend(self.expand_stmt(st, module, cls, depth, stack))
        if any(isinstance(x, ast.Name) and ("__i" in x.id) for st in out for x in ast.walk(st)):
            # only code that contains inlined material is reshaped
            out = _thread_flags(out)
        return out

    def expand_stmt(self, st, module, cls, depth, stack):
        # recurse into compound statements first
        for attr in ("body", "orelse", "finalbody"):
            if hasattr(st, attr) and isinstance(getattr(st, attr), list) and not isinstance(st, (ast.FunctionDef, ast.AsyncFunctionDef, ast.ClassDef)):
                setattr(st, attr, self.expand_block(getattr(st, attr), module, cls, depth, stack))
        if isinstance(st, ast.Try):
            for h in st.handlers:
                h.body = self.expand_block(h.body, module, cls, depth, stack)
        if isinstance(st, (ast.FunctionDef, ast.AsyncFunctionDef, ast.ClassDef)):
            return [st]
        if depth >= MAX_DEPTH:
            return [st]
        # generator helper in a for loop
        if isinstance(st, ast.For) and isinstance(st.iter, ast.Call):
            h = self.helper_for(st.iter, module, cls)
            if h is not None and _contains(h[0].body, (ast.Yield, ast.YieldFrom)) and qualname_of(h[0]) not in stack:
                res = self.inline_generator_loop(st, h, module, cls, depth, stack)
                if res is not None:
                    return res
        # a loop over the rows a table-returning helper builds: `for a, b in _rows():` with `def _rows(): return ((..), (..))`
        if isinstance(st, ast.For) and isinstance(st.iter, ast.Call) and not st.iter.args and not st.iter.keywords:
            h = self.helper_for(st.iter, module, cls)
            if h is not None and qualname_of(h[0]) not in stack:
                hb = [x for x in h[0].body if not (isinstance(x, ast.Expr) and isinstance(x.value, ast.Constant))]
                if len(hb) == 1 and isinstance(hb[0], ast.Return) and isinstance(hb[0].value, (ast.Tuple, ast.List)) and hb[0].value.elts \
                        and all(isinstance(r, (ast.Tuple, ast.List)) for r in hb[0].value.elts):
                    lit = clone(hb[0].value)
                    lit._from_helper = True
                    saved = st.iter
                    st.iter = lit
                    res = self.unroll_table_loop(st, module, cls)
                    if res is not None:
                        self.inlined_calls.append(f"{qualname_of(h[0])} <- table {ast.unparse(saved)[:50]}")
                        return self.expand_block(res, module, cls, depth, stack)
                    st.iter = saved
        # a loop over a constant table of rows (dispatch table): one copy of the body per row
        if isinstance(st, ast.For):
            res = self.unroll_table_loop(st, module, cls)
            if res is not None:
                return self.expand_block(res, module, cls, depth, stack)
        # list comprehension whose element needs a statement-bodied helper: write it as the loop it abbreviates
        if isinstance(st, ast.Assign) and len(st.targets) == 1 and isinstance(st.targets[0], ast.Name) and isinstance(st.value, ast.ListComp):
            res = self.desugar_listcomp(st, module, cls, stack)
            if res is not None:
                return self.expand_block(res, module, cls, depth, stack)
        # direct shapes
        call, shape = None, None
        if isinstance(st, ast.Expr) and isinstance(st.value, ast.Call):
            call, shape = st.value, "stmt"
        elif isinstance(st, ast.Expr) and isinstance(st.value, ast.YieldFrom) and isinstance(st.value.value, ast.Call):
            call, shape = st.value.value, "yieldfrom"
        elif isinstance(st, ast.Assign) and isinstance(st.value, ast.Call) and len(st.targets) == 1:
            call, shape = st.value, "assign"
        elif isinstance(st, ast.Return) and isinstance(st.value, ast.Call):
            call, shape = st.value, "return"
        if call is not None:
            h = self.helper_for(call, module, cls)
            if h is not None and qualname_of(h[0]) not in stack:
                res = self.inline_call(st, call, shape, h, module, cls, depth, stack)
                if res is not None:
                    return res
        # helper calls nested in the statement's own expressions (not in nested blocks)
        return self.expand_nested_calls(st, module, cls, depth, stack)

    def _constant_table(self, expr, module, cls):
        """Rows of a class-level / module-level `NAME = ((a, b), (c, d), ...)` that is assigned exactly once; else None."""
        name, scope = None, None
        if isinstance(expr, (ast.Tuple, ast.List)) and getattr(expr, "_from_helper", False):
            # the literal table a table-returning helper was inlined to
            rows = expr.elts
            if rows and len(rows) <= 32 and all(isinstance(r, (ast.Tuple, ast.List)) for r in rows):
                return rows, module.tree
            return None
        if isinstance(expr, ast.Attribute) and isinstance(expr.value, ast.Name) and expr.value.id in ("self", "cls") and cls is not None:
            name, scope = expr.attr, cls
        elif isinstance(expr, ast.Attribute) and isinstance(expr.value, ast.Name) and cls is not None and expr.value.id == cls.name:
            name, scope = expr.attr, cls
        elif isinstance(expr, ast.Name):
            name, scope = expr.id, module.tree
        if name is None:
            return None
        defs = [st for st in scope.body if isinstance(st, ast.Assign) and any(isinstance(t, ast.Name) and t.id == name for t in st.targets)]
        if len(defs) != 1 or not isinstance(defs[0].value, (ast.Tuple, ast.List)):
            return None
        # never re-bound or mutated elsewhere in the module
        for n in ast.walk(module.tree):
            if isinstance(n, ast.Attribute) and n.attr == name and isinstance(n.ctx, (ast.Store, ast.Del)):
                return None
            if isinstance(n, ast.Name) and n.id == name and isinstance(n.ctx, (ast.Store, ast.Del)) and getattr(n, "_parent", None) is not defs[0]:
                return None
        rows = defs[0].value.elts
        if not rows or len(rows) > 32 or not all(isinstance(r, (ast.Tuple, ast.List)) for r in rows):
            return None
        return rows, scope

    def unroll_table_loop(self, loop, module, cls):
        if not isinstance(loop.target, (ast.Tuple, ast.List)) or not all(isinstance(t, ast.Name) for t in loop.target.elts):
            return None
        tab = self._constant_table(loop.iter, module, cls)
        if tab is None:
            return None
        rows, scope = tab
        k = len(loop.target.elts)
        if not all(len(r.elts) == k for r in rows):
            return None
        names = [t.id for t in loop.target.elts]
        # search form:  for row in TABLE: if COND: STMTS; break   [else: ELSE]   ->   if C1: S1 elif C2: S2 ... else: ELSE
        search = (len(loop.body) == 1 and isinstance(loop.body[0], ast.If) and not loop.body[0].orelse and loop.body[0].body and isinstance(loop.body[0].body[-1], ast.Break)
                  and not any(isinstance(n, (ast.Break, ast.Continue)) for s0 in loop.body[0].body[:-1] for n in ast.walk(s0)))
        if loop.orelse and not search:
            return None
        for n in ast.walk(ast.Module(body=loop.body, type_ignores=[])):
            if isinstance(n, (ast.Break, ast.Continue)) and not search:
                return None
            if isinstance(n, ast.Name) and n.id in names and isinstance(n.ctx, (ast.Store, ast.Del)):
                return None
        class_funcs = {f.name for f in scope.body if isinstance(f, ast.FunctionDef)} if isinstance(scope, ast.ClassDef) else set()
        out = []
        for r in rows:
            mapping = dict(zip(names, r.elts))

            class T(ast.NodeTransformer):
                def visit_Call(self, node):
                    # handler(self, args)  with handler a function of the class body  ->  self.handler(args)
                    if isinstance(node.func, ast.Name) and node.func.id in mapping and isinstance(mapping[node.func.id], ast.Name) \
                            and mapping[node.func.id].id in class_funcs and node.args and isinstance(node.args[0], ast.Name) and node.args[0].id in ("self", "cls"):
                        new = ast.Call(func=ast.Attribute(value=node.args[0], attr=mapping[node.func.id].id, ctx=ast.Load()),
                                       args=[self.visit(a) for a in node.args[1:]], keywords=[self.visit(kw) for kw in node.keywords])
                        return ast.copy_location(new, node)
                    return self.generic_visit(node)

                def visit_Name(self, node):
                    if node.id in mapping and isinstance(node.ctx, ast.Load):
                        return ast.copy_location(clone(mapping[node.id]), node)
                    return node

            for b in loop.body:
                nb = T().visit(clone(b))
                ast.fix_missing_locations(nb)
                _set_module(nb, getattr(loop, "_module", None))
                out.append(nb)
        if search:
            # chain the per-row ifs; the trailing `break` of each body is dropped; the for-else becomes the final else
            chain_else = [clone(x) for x in loop.orelse]
            for nb in reversed(out):
                nb.body = nb.body[:-1] or [_pass(nb)]
                nb.orelse = chain_else
                chain_else = [nb]
            out = chain_else
        self.inlined_calls.append(f"<table-loop> for {ast.unparse(loop.target)} in {ast.unparse(loop.iter)[:60]} unrolled over {len(rows)} rows")
        return _prune_constant_branches(out)

    def desugar_listcomp(self, st, module, cls, stack):
        comp = st.value
        if len(comp.generators) != 1 or comp.generators[0].is_async:
            return None
        gen = comp.generators[0]
        tname = st.targets[0].id
        if any(isinstance(n, ast.Name) and n.id == tname for n in ast.walk(comp)):
            return None
        needs = False
        for n in [x for part in [comp.elt] + list(gen.ifs) for x in ast.walk(part)]:
            if isinstance(n, ast.Call):
                h = self.helper_for(n, module, cls)
                if h is not None and qualname_of(h[0]) not in stack and not _contains(h[0].body, (ast.Yield, ast.YieldFrom)):
                    b = self.bind(h[0], h[1], h[2], n)
                    if b is not None and (_as_expression(self.instantiate(h[0], b[0])) is None or b[1]):
                        needs = True
        # ... or the comprehension runs over a generator helper (then the loop form lets the helper's body be spliced in)
        if isinstance(gen.iter, ast.Call):
            gh = self.helper_for(gen.iter, module, cls)
            if gh is not None and qualname_of(gh[0]) not in stack and _contains(gh[0].body, (ast.Yield, ast.YieldFrom)):
                needs = True
        if not needs:
            return None
        mod = getattr(st, "_module", None)

        def mk(node):
            ast.copy_location(node, st)
            ast.fix_missing_locations(node)
            _set_module(node, mod)
            return node

        init = mk(ast.Assign(targets=[ast.Name(id=tname, ctx=ast.Store())], value=ast.List(elts=[], ctx=ast.Load())))
        app = mk(ast.Expr(value=ast.Call(func=ast.Attribute(value=ast.Name(id=tname, ctx=ast.Load()), attr="append", ctx=ast.Load()), args=[comp.elt], keywords=[])))
        body = [app]
        for c in reversed(gen.ifs):
            body = [mk(ast.If(test=c, body=body, orelse=[]))]
        loop = mk(ast.For(target=gen.target, iter=gen.iter, body=body, orelse=[]))
        self.inlined_calls.append(f"<listcomp> {tname} = [...] written as a loop")
        return [init, loop]

    def inline_call(self, st, call, shape, h, module, cls, depth, stack):
        fn, recv, decos = h
        is_gen = _contains(fn.body, (ast.Yield, ast.YieldFrom))
        if is_gen and shape != "yieldfrom":
            return None
        if shape == "yieldfrom" and not is_gen:
            return None
        tail_return = shape == "return" and not is_gen and _returns_in_loops(fn.body) and not (
            _contains(fn.body, (ast.Try,)) and any(isinstance(n, ast.Try) and n.finalbody for s0 in fn.body for n in _walk_same_scope(s0)))
        if not is_gen and _returns_in_loops(fn.body) and not tail_return:
            return None
        b = self.bind(fn, recv, decos, call)
        if b is None:
            return None
        mapping, prologue, suffix = b
        body = self.instantiate(fn, mapping)
        if tail_return:
            # `return helper(...)`: the helper's own returns (also those inside its loops) are the caller's returns
            if not _always_returns(body):
                fin0 = ast.Return(value=ast.Constant(value=None))
                ast.copy_location(fin0, st)
                ast.fix_missing_locations(fin0)
                _set_module(fin0, getattr(st, "_module", None))
                body = body + [fin0]
            hcls = getattr(fn, "_parent", None) if isinstance(getattr(fn, "_parent", None), ast.ClassDef) else None
            body = self.expand_block(body, fn._module, hcls or cls, depth + 1, stack | {qualname_of(fn)})
            self.inlined_calls.append(f"{qualname_of(fn)} <- return {ast.unparse(call)[:60]}")
            return list(prologue) + body
        result = None
        if shape in ("assign", "return"):
            result = "result" + suffix
        if not is_gen:
            body = structure_returns(body, result)
            if body is None:
                return None
        hcls = getattr(fn, "_parent", None) if isinstance(getattr(fn, "_parent", None), ast.ClassDef) else None
        body = self.expand_block(body, fn._module, hcls or cls, depth + 1, stack | {qualname_of(fn)})
        self.inlined_calls.append(f"{qualname_of(fn)} <- {ast.unparse(call)[:60]}")
        out = list(prologue) + body
        if shape == "assign":
            # replace the temporary by the real target when the body ends with a single assignment to it
            fin = ast.Assign(targets=st.targets, value=ast.Name(id=result, ctx=ast.Load()))
            ast.copy_location(fin, st)
            ast.fix_missing_locations(fin)
            _set_module(fin, getattr(st, "_module", None))
            out = _forward_result(out, result, st.targets[0]) or (out + [fin])
        elif shape == "return":
            fin = ast.Return(value=ast.Name(id=result, ctx=ast.Load()))
            ast.copy_location(fin, st)
            ast.fix_missing_locations(fin)
            _set_module(fin, getattr(st, "_module", None))
            out = _forward_return(out, result, st) or (out + [fin])
        if not out:
            out = [_pass(st)]
        return out

    def inline_generator_loop(self, loop: ast.For, h, module, cls, depth, stack):
        fn, recv, decos = h
        if loop.orelse:
            return None
        b = self.bind(fn, recv, decos, loop.iter)
        if b is None:
            return None
        mapping, prologue, suffix = b
        body = self.instantiate(fn, mapping)
        # only statement-level `yield e`
        ok = True
        for st in body:
            for n in _walk_same_scope(st):
                if isinstance(n, (ast.Yield, ast.YieldFrom)):
                    par_ok = False
                    for s2 in _walk_same_scope(st):
                        if isinstance(s2, ast.Expr) and s2.value is n and isinstance(n, ast.Yield):
                            par_ok = True
                    ok &= par_ok
                if isinstance(n, ast.Return) and n.value is not None:
                    ok = False
        if not ok:
            return None
        caller_body = loop.body
        # `yield CONST, GLOBAL, function`: the loop variables are names for these atoms - substituted into the copy of the body
        # (no assignment is left behind), provided the body does not rebind them and nothing after the loop reads them
        tnames = [t.id for t in loop.target.elts] if isinstance(loop.target, (ast.Tuple, ast.List)) and all(isinstance(t, ast.Name) for t in loop.target.elts) \
            else ([loop.target.id] if isinstance(loop.target, ast.Name) else None)
        # names the (instantiated) helper body or the caller's loop body rebinds cannot stand for a fixed value
        # (the helper's own locals cannot change while the caller's body runs at the yield point; only what that body itself rebinds can)
        helper_locals = {n.id for b0 in loop.body for n in ast.walk(b0) if isinstance(n, ast.Name) and isinstance(n.ctx, (ast.Store, ast.Del))}
        body_locals = {n.id for b0 in body for n in ast.walk(b0) if isinstance(n, ast.Name) and isinstance(n.ctx, (ast.Store, ast.Del))} | {"self", "cls"} \
            | {n.id for n in ast.walk(loop.iter) if isinstance(n, ast.Name)}
        direct = False
        if tnames:
            owner = loop
            while owner is not None and not isinstance(owner, (ast.FunctionDef, ast.AsyncFunctionDef)):
                owner = getattr(owner, "_parent", None)
            inside = {id(n) for n in ast.walk(loop)}
            stored_in_body = any(isinstance(n, ast.Name) and n.id in tnames and isinstance(n.ctx, (ast.Store, ast.Del)) for b0 in caller_body for n in ast.walk(b0))
            used_outside = owner is None or any(isinstance(n, ast.Name) and n.id in tnames and id(n) not in inside for n in ast.walk(owner))
            nested_scope = any(isinstance(n, (ast.FunctionDef, ast.Lambda, ast.AsyncFunctionDef, ast.ClassDef)) for b0 in caller_body for n in ast.walk(b0))
            direct = not stored_in_body and not used_outside and not nested_scope

        def atoms_of(v):
            vals = v.elts if isinstance(v, (ast.Tuple, ast.List)) and isinstance(loop.target, (ast.Tuple, ast.List)) else [v]
            if len(vals) != len(tnames) or any(isinstance(x, ast.Starred) for x in vals):
                return None
            for x in vals:
                y = x
                while isinstance(y, ast.Attribute):
                    y = y.value
                if isinstance(y, ast.Constant) and y is x:
                    continue
                if isinstance(y, ast.Name) and y.id not in helper_locals and (y is x or y.id not in body_locals):
                    # a plain name, or an attribute of something global (module.function)
                    continue
                return None
            return vals

        def replace(stmts, in_loop):
            out = []
            for s in stmts:
                if direct and isinstance(s, ast.Expr) and isinstance(s.value, ast.Yield) and s.value.value is not None and atoms_of(s.value.value) is not None:
                    sub = _Subst(dict(zip(tnames, atoms_of(s.value.value))))
                    for b0 in caller_body:
                        nb = sub.visit(clone(b0))
                        ast.fix_missing_locations(nb)
                        out.append(nb)
                    continue
                if isinstance(s, ast.Expr) and isinstance(s.value, ast.Yield):
                    asg = ast.Assign(targets=[clone(loop.target)], value=s.value.value if s.value.value is not None else ast.Constant(value=None))
                    ast.copy_location(asg, s)
                    ast.fix_missing_locations(asg)
                    _set_module(asg, getattr(s, "_module", None))
                    out.append(asg)
                    out.extend(clone(caller_body))
                    continue
                if isinstance(s, ast.Return):
                    # generator `return`: stop producing values
                    if in_loop:
                        br = ast.Break()
                        ast.copy_location(br, s)
                        _set_module(br, getattr(s, "_module", None))
                        out.append(br)
                    return out, True
                for attr in ("body", "orelse", "finalbody"):
                    if hasattr(s, attr) and isinstance(getattr(s, attr), list):
                        new, _ = replace(getattr(s, attr), in_loop or isinstance(s, (ast.For, ast.While)))
                        setattr(s, attr, new or ([_pass(s)] if attr == "body" else []))
                if isinstance(s, ast.Try):
                    for hd in s.handlers:
                        hd.body, _ = replace(hd.body, in_loop)
                out.append(s)
            return out, False

        new_body, _ = replace(body, False)
        hcls = getattr(fn, "_parent", None) if isinstance(getattr(fn, "_parent", None), ast.ClassDef) else None
        new_body = self.expand_block(new_body, fn._module, hcls or cls, depth + 1, stack | {qualname_of(fn)})
        self.inlined_calls.append(f"{qualname_of(fn)} <- for {ast.unparse(loop.target)} in {ast.unparse(loop.iter)[:50]}")
        return list(prologue) + new_body

    def expand_nested_calls(self, st, module, cls, depth, stack):
        """Helper calls inside the expressions of a simple statement / the header of a compound one."""
        headers = []
        if isinstance(st, (ast.If, ast.While)):
            headers = [("test", st.test)]
        elif isinstance(st, ast.For):
            headers = [("iter", st.iter)]
        elif isinstance(st, (ast.With,)):
            headers = [(None, it.context_expr) for it in st.items]
        elif isinstance(st, (ast.Assign, ast.AugAssign, ast.AnnAssign, ast.Return, ast.Expr, ast.Raise, ast.Assert, ast.Delete)):
            headers = [(None, st)]
        else:
            return [st]
        pre = []
        changed = True
        guard = 0
        while changed and guard < 8:
            changed = False
            guard += 1
            for _, root in headers:
                for n in _walk_same_scope(root):
                    if not isinstance(n, ast.Call) or n is getattr(st, "value", None) and isinstance(st, (ast.Expr,)):
                        continue
                    # list(gen_helper(...)) / tuple(gen_helper(...)): collect the generator's values with an explicit loop first
                    if isinstance(n.func, ast.Name) and n.func.id in ("list", "tuple", "dict", "set", "frozenset", "sorted") and len(n.args) == 1 and not n.keywords and isinstance(n.args[0], ast.Call) \
                            and not isinstance(st, ast.While):
                        gh = self.helper_for(n.args[0], module, cls)
                        if gh is not None and qualname_of(gh[0]) not in stack and _contains(gh[0].body, (ast.Yield, ast.YieldFrom)):
                            self.counter += 1
                            tmpn = f"collected__g{self.counter}"
                            itemn = f"item__g{self.counter}"

                            def mk(node, like=n):
                                ast.copy_location(node, like)
                                ast.fix_missing_locations(node)
                                _set_module(node, getattr(st, "_module", None))
                                return node

                            init = mk(ast.Assign(targets=[ast.Name(id=tmpn, ctx=ast.Store())], value=ast.List(elts=[], ctx=ast.Load())))
                            app = mk(ast.Expr(value=ast.Call(func=ast.Attribute(value=ast.Name(id=tmpn, ctx=ast.Load()), attr="append", ctx=ast.Load()),
                                                             args=[ast.Name(id=itemn, ctx=ast.Load())], keywords=[])))
                            loop = mk(ast.For(target=ast.Name(id=itemn, ctx=ast.Store()), iter=n.args[0], body=[app], orelse=[]))
                            rep = mk(ast.Name(id=tmpn, ctx=ast.Load())) if n.func.id == "list" else mk(ast.Call(func=ast.Name(id=n.func.id, ctx=ast.Load()), args=[ast.Name(id=tmpn, ctx=ast.Load())], keywords=[]))
                            if _replace_node(st, n, rep):
                                pre.extend([init] + self.expand_block([loop], module, cls, depth, stack))
                                self.inlined_calls.append(f"<collect> {n.func.id}({ast.unparse(n.args[0])[:40]}) written as a loop")
                                changed = True
                                break
                    h = self.helper_for(n, module, cls)
                    if h is None or qualname_of(h[0]) in stack:
                        continue
                    fn, recv, decos = h
                    if _contains(fn.body, (ast.Yield, ast.YieldFrom)):
                        continue
                    b = self.bind(fn, recv, decos, n)
                    if b is None:
                        continue
                    mapping, prologue, suffix = b
                    body = self.instantiate(fn, mapping)
                    expr_form = _as_expression(body) if not prologue else None
                    if expr_form is None and _returns_in_loops(fn.body):
                        continue
                    if expr_form is not None:
                        rep = expr_form
                        if _replace_node(st, n, rep):
                            self.inlined_calls.append(f"{qualname_of(fn)} <- expr {ast.unparse(n)[:50]}")
                            changed = True
                            break
                        continue
                    # hoist into a temporary (only for simple statements and if/while tests evaluated once: If)
                    if isinstance(st, ast.While):
                        continue
                    result = "result" + suffix
                    sbody = structure_returns(body, result)
                    if sbody is None:
                        continue
                    hcls = getattr(fn, "_parent", None) if isinstance(getattr(fn, "_parent", None), ast.ClassDef) else None
                    sbody = self.expand_block(sbody, fn._module, hcls or cls, depth + 1, stack | {qualname_of(fn)})
                    tmp = ast.Name(id=result, ctx=ast.Load())
                    ast.copy_location(tmp, n)
                    _set_module(tmp, getattr(n, "_module", None))
                    if _replace_node(st, n, tmp):
                        pre.extend(list(prologue) + sbody)
                        self.inlined_calls.append(f"{qualname_of(fn)} <- hoisted {ast.unparse(n)[:50]}")
                        changed = True
                        break
                if changed:
                    break
        return pre + [st]

    # ---------------------------------------------------------------- driver
    def _unroll_tables_in(self, stmts, module, cls):
        out = []
        for st in stmts:
            for attr in ("body", "orelse", "finalbody"):
                blk = getattr(st, attr, None)
                if isinstance(blk, list) and not isinstance(st, (ast.FunctionDef, ast.AsyncFunctionDef, ast.ClassDef)):
                    setattr(st, attr, self._unroll_tables_in(blk, module, cls))
            if isinstance(st, ast.Try):
                for h in st.handlers:
                    h.body = self._unroll_tables_in(h.body, module, cls)
            if isinstance(st, ast.For):
                res = self.unroll_table_loop(st, module, cls)
                if res is not None:
                    out.extend(self._unroll_tables_in(res, module, cls))
                    continue
            out.append(st)
        return out

    def restore_moved_across_modules(self):
        """`from .utils import make_hashable as _hashable` / `from ._magic import GZIP_MAGIC` in module M, where the inventories know M._hashable as a
        function (known_functions) or M.GZIP_MAGIC as a data name (known_globals) of M itself, and the definition now lives in a module that the
        inventories do not credit with it: the definition was moved and imported back. The analysed tree of M gets a copy of the defining
        statement (for a name bound inside a module-level try/except - optional-dependency probing - the whole statement), together with the
        private module-level names it needs from its new home; the import stays, so other spellings keep resolving."""
        import json as _json

        with open(os.path.join(HERE, "known_globals.json")) as f:
            kg = _json.load(f)["names"]
        for m in self.prog.modules.values():
            known_data = set(kg.get(m.modname, []))
            inserts = []  # (index in m.tree.body, statements)
            have = {t.id for st in m.tree.body if isinstance(st, ast.Assign) for t in st.targets if isinstance(t, ast.Name)} | \
                {st.name for st in m.tree.body if isinstance(st, (ast.FunctionDef, ast.ClassDef))}
            for idx, st in enumerate(list(m.tree.body)):
                if not isinstance(st, ast.ImportFrom):
                    continue
                # resolve the source module
                base = m.modname.split(".")
                if not m.is_package:
                    base = base[:-1]
                if st.level:
                    base = base[:len(base) - (st.level - 1)]
                    srcname = ".".join(base + ([st.module] if st.module else []))
                else:
                    srcname = st.module or ""
                x = self.prog.modules.get(srcname)
                if x is None or x is m:
                    continue
                x_known_data = set(kg.get(x.modname, []))
                new_stmts = []
                for al in st.names:
                    local = al.asname or al.name
                    if local in have:
                        continue
                    is_func = f"{m.modname}.{local}" in self.inventory
                    is_data = local in known_data
                    if not (is_func or is_data):
                        continue
                    # the defining top-level statement in x
                    src_st = None
                    for s2 in x.tree.body:
                        if isinstance(s2, (ast.FunctionDef, ast.ClassDef)) and s2.name == al.name:
                            src_st = s2
                        elif isinstance(s2, (ast.Assign, ast.AnnAssign)) and any(isinstance(t, ast.Name) and t.id == al.name for t in (s2.targets if isinstance(s2, ast.Assign) else [s2.target])):
                            src_st = s2
                        elif isinstance(s2, (ast.Try, ast.If)) and any(isinstance(n, ast.Name) and n.id == al.name and isinstance(n.ctx, ast.Store) for n in ast.walk(s2)):
                            src_st = s2
                        elif isinstance(s2, (ast.Try, ast.If)) and any(isinstance(n, ast.alias) and (n.asname or n.name).split(".")[0] == al.name for n in ast.walk(s2)):
                            src_st = s2
                    if src_st is None:
                        continue
                    if isinstance(src_st, (ast.FunctionDef, ast.ClassDef)) and f"{x.modname}.{al.name}" in self.inventory:
                        continue  # it has always lived there
                    if not isinstance(src_st, (ast.FunctionDef, ast.ClassDef)) and al.name in x_known_data:
                        continue
                    if any(src_st is q for q, _ in new_stmts):
                        continue
                    new_stmts.append((src_st, (al.name, local)))
                if not new_stmts:
                    continue
                # dependencies: private top-level names of x that the copied statements read and m does not have
                copied = []
                todo = [q for q, _ in new_stmts]
                seen_ids = set()
                x_top = {}
                for s2 in x.tree.body:
                    if isinstance(s2, (ast.FunctionDef, ast.ClassDef)):
                        x_top[s2.name] = s2
                    elif isinstance(s2, (ast.Assign, ast.AnnAssign)):
                        for t in (s2.targets if isinstance(s2, ast.Assign) else [s2.target]):
                            if isinstance(t, ast.Name):
                                x_top[t.id] = s2
                    elif isinstance(s2, (ast.Import, ast.ImportFrom)):
                        for a2 in s2.names:
                            x_top.setdefault((a2.asname or a2.name).split(".")[0], s2)
                m_names = have | {(a2.asname or a2.name).split(".")[0] for s2 in m.tree.body if isinstance(s2, (ast.Import, ast.ImportFrom)) for a2 in s2.names}
                m_created = {t.id for s2 in m.tree.body if isinstance(s2, ast.Assign) and isinstance(s2.value, (ast.Call, ast.Dict, ast.List, ast.Set))
                             for t in s2.targets if isinstance(t, ast.Name)}
                duplicated_state = False
                while todo:
                    q = todo.pop()
                    if id(q) in seen_ids:
                        continue
                    seen_ids.add(id(q))
                    copied.append(q)
                    for n in ast.walk(q):
                        # an object the moved code uses that BOTH modules create for themselves (`NONE_OBJECT = NoneObject()` here and there): the move
                        # duplicated state - putting the code back would silently re-unite it, so this import is left as it is (the rules then fail closed)
                        if isinstance(n, ast.Name) and isinstance(n.ctx, ast.Load) and n.id in x_top and n.id in m_created and isinstance(x_top[n.id], ast.Assign) \
                                and isinstance(x_top[n.id].value, (ast.Call, ast.Dict, ast.List, ast.Set)):
                            duplicated_state = True
                        if isinstance(n, ast.Name) and isinstance(n.ctx, ast.Load) and n.id in x_top and n.id not in m_names:
                            dep = x_top[n.id]
                            if id(dep) not in seen_ids and not isinstance(dep, (ast.FunctionDef, ast.ClassDef)):
                                todo.append(dep)
                if duplicated_state:
                    continue
                order = {id(s2): k for k, s2 in enumerate(x.tree.body)}
                copied.sort(key=lambda q: order.get(id(q), 0))
                rename = {a: b for _, (a, b) in new_stmts if a != b}
                out = []
                for q in copied:
                    c = clone(q)
                    if isinstance(c, (ast.FunctionDef, ast.ClassDef)) and c.name in rename:
                        c.name = rename[c.name]
                    elif rename:
                        for n in ast.walk(c):
                            if isinstance(n, ast.Name) and isinstance(n.ctx, ast.Store) and n.id in rename:
                                n.id = rename[n.id]
                    _set_module(c, m)
                    for n in ast.walk(c):
                        n._module = m
                    out.append(c)
                    have |= {n.id for n in ast.walk(c) if isinstance(n, ast.Name) and isinstance(n.ctx, ast.Store)} | ({c.name} if isinstance(c, (ast.FunctionDef, ast.ClassDef)) else set())
                    self.inlined_calls.append(f"<moved across modules> {m.modname}.{getattr(c, 'name', '') or ast.unparse(c)[:30]} <- {x.modname}")
                inserts.append((st, out))
            if inserts:
                for st, out in inserts:
                    k = next(k for k, b in enumerate(m.tree.body) if b is st)
                    m.tree.body[k + 1:k + 1] = out
                    # the restored names are bound by their definitions now; a renaming import (`x as y`) stays for the body's own use of x
                    bound = {n.id for c in out for n in ast.walk(c) if isinstance(n, ast.Name) and isinstance(n.ctx, ast.Store)} | \
                        {c.name for c in out if isinstance(c, (ast.FunctionDef, ast.ClassDef))}
                    st.names = [a for a in st.names if not ((a.asname or a.name) in bound and a.asname in (None, a.name))] or st.names[:0]
                    if not st.names:
                        m.tree.body.remove(st)
                relink(m)
                m._symbols = None
                self.prog._class_index = None

    def restore_moved_definitions(self):
        self.restore_moved_across_modules()
        """`NAME = _Holder.func` (module level) or `name = staticmethod(_helper)` / `name = _helper` (class body) where the inventory
        knows NAME as a function/method of exactly this place and the right-hand side resolves to a function the inventory does
        NOT know: the definition was moved and the old name kept as an alias. The analysed tree gets the definition back under
        its old name (a copy; the moved original stays where it is)."""
        for m in self.prog.modules.values():
            changed = False
            holders = [(m.modname, m.tree)] + [(f"{m.modname}.{c.name}", c) for c in m.tree.body if isinstance(c, ast.ClassDef)]
            for prefix, holder in holders:
                for k, st in enumerate(list(holder.body)):
                    if not (isinstance(st, ast.Assign) and len(st.targets) == 1 and isinstance(st.targets[0], ast.Name)):
                        continue
                    name = st.targets[0].id
                    if f"{prefix}.{name}" not in self.inventory:
                        continue
                    v = st.value
                    wrapper = None
                    if isinstance(v, ast.Call) and isinstance(v.func, ast.Name) and v.func.id in ("staticmethod", "classmethod") and len(v.args) == 1 and not v.keywords:
                        wrapper, v = v.func.id, v.args[0]
                    if not isinstance(v, (ast.Name, ast.Attribute)):
                        continue
                    r = None
                    if isinstance(v, ast.Name) and holder is not m.tree:
                        r = next((f for f in holder.body if isinstance(f, ast.FunctionDef) and f.name == v.id), None)
                    if r is None:
                        rr = self.prog.resolve_expr(m, v)
                        r = rr.node if isinstance(rr, DefRef) and isinstance(rr.node, ast.FunctionDef) else None
                    if r is None or qualname_of(r) in self.inventory:
                        continue
                    new = clone(r)
                    new.name = name
                    decos = [d for d in new.decorator_list if not (isinstance(d, ast.Name) and d.id in ("staticmethod", "classmethod"))]
                    was_static = any(isinstance(d, ast.Name) and d.id == "staticmethod" for d in new.decorator_list)
                    was_class = any(isinstance(d, ast.Name) and d.id == "classmethod" for d in new.decorator_list)
                    if was_class or wrapper == "classmethod":
                        continue  # the class a classmethod receives differs between the two places
                    new.decorator_list = decos
                    if holder is not m.tree and (wrapper == "staticmethod" or was_static):
                        new.decorator_list = [ast.Name(id="staticmethod", ctx=ast.Load())] + decos
                    ast.copy_location(new, st)
                    ast.fix_missing_locations(new)
                    _set_module(new, m)
                    holder.body[holder.body.index(st)] = new
                    self.inlined_calls.append(f"<moved> {prefix}.{name} <- {qualname_of(r)}")
                    changed = True
            if changed:
                relink(m)
                m._symbols = None
        # methods moved into a base class / mixin the inventory does not know: the known class gets them back
        for m in self.prog.modules.values():
            changed = False
            for c in [n for n in ast.walk(m.tree) if isinstance(n, ast.ClassDef)]:
                cq = qualname_of(c)
                if cq not in self.inventory:
                    continue
                own = {f.name for f in c.body if isinstance(f, (ast.FunctionDef, ast.AsyncFunctionDef))} | \
                    {t.id for a in c.body if isinstance(a, ast.Assign) for t in a.targets if isinstance(t, ast.Name)}
                for b in c.bases:
                    rb = self.prog.resolve_expr(m, b) if isinstance(b, (ast.Name, ast.Attribute)) else None
                    if not (isinstance(rb, DefRef) and isinstance(rb.node, ast.ClassDef)) or qualname_of(rb.node) in self.inventory:
                        continue
                    for f in rb.node.body:
                        if isinstance(f, ast.FunctionDef) and f.name not in own and f"{cq}.{f.name}" in self.inventory \
                                and not any(isinstance(x, ast.Name) and x.id == "super" for x in ast.walk(f)):
                            new = clone(f)
                            _set_module(new, m)
                            c.body.append(new)
                            own.add(f.name)
                            self.inlined_calls.append(f"<moved> {cq}.{f.name} <- {qualname_of(f)}")
                            changed = True
                    # class-level aliases of those functions (`__add__ = __radd__ = _absorb`) move with them
                    for a in rb.node.body:
                        if isinstance(a, ast.Assign) and isinstance(a.value, ast.Name) and a.value.id in own and all(isinstance(t, ast.Name) and t.id not in own for t in a.targets) \
                                and any(isinstance(x, ast.FunctionDef) and x.name == a.value.id for x in c.body):
                            new = clone(a)
                            _set_module(new, m)
                            c.body.append(new)
                            own |= {t.id for t in a.targets}
                            changed = True
            if changed:
                relink(m)
                m._symbols = None
                self.prog._class_index = None
        # a method of an unknown base class that every class deriving from it now defines itself is dead code in the analysed tree:
        # it is removed so that whole-module inventories do not see the same code twice
        all_classes = [(m, c) for m in self.prog.modules.values() for c in ast.walk(m.tree) if isinstance(c, ast.ClassDef)]
        for m, b in all_classes:
            if qualname_of(b) in self.inventory:
                continue
            derived = []
            for m2, c in all_classes:
                for base in c.bases:
                    rb = self.prog.resolve_expr(m2, base) if isinstance(base, (ast.Name, ast.Attribute)) else None
                    if isinstance(rb, DefRef) and rb.node is b:
                        derived.append(c)
            if not derived:
                continue
            removed = False
            for f in list(b.body):
                if isinstance(f, ast.FunctionDef) and all(any(isinstance(x, ast.FunctionDef) and x.name == f.name for x in c.body) for c in derived) \
                        and not any(isinstance(x, ast.Name) and x.id == "super" for c in derived for g in c.body if isinstance(g, ast.FunctionDef) and g.name == f.name for x in ast.walk(g)):
                    b.body.remove(f)
                    removed = True
            if removed:
                if not b.body:
                    b.body.append(ast.Pass())
                relink(m)
                m._symbols = None
                self.prog._class_index = None

    def run(self):
        self.restore_moved_definitions()
        # phase 0: loops over constant tables become straight-line code everywhere (also inside helpers, so that a helper whose only
        # loop was a dispatch table has no `return` inside a loop any more and can be inlined)
        for m in self.prog.modules.values():
            before = len(self.inlined_calls)
            for node in ast.walk(m.tree):
                if isinstance(node, (ast.FunctionDef, ast.AsyncFunctionDef)):
                    cls0 = node._parent if isinstance(getattr(node, "_parent", None), ast.ClassDef) else _enclosing_class(node)
                    node.body = self._unroll_tables_in(node.body, m, cls0) or [_pass(node)]
            if len(self.inlined_calls) != before:
                relink(m)
        for m in self.prog.modules.values():
            before = len(self.inlined_calls)
            for node in ast.walk(m.tree):
                if isinstance(node, (ast.FunctionDef, ast.AsyncFunctionDef)):
                    cls = node._parent if isinstance(getattr(node, "_parent", None), ast.ClassDef) else _enclosing_class(node)
                    node.body = self.expand_block(node.body, m, cls, 0, frozenset({qualname_of(node)})) or [_pass(node)]
            if len(self.inlined_calls) != before:
                relink(m)
        # expression helpers called from lambda bodies and module-level expressions (operator tables)
        for m in self.prog.modules.values():
            before_l = len(self.inlined_calls)
            holders = [n for n in ast.walk(m.tree) if isinstance(n, ast.Lambda)]
            for lam in holders:
                for _ in range(6):
                    done = True
                    for n in list(ast.walk(lam.body)):
                        if not isinstance(n, ast.Call):
                            continue
                        h = self.helper_for(n, m, _enclosing_class(lam))
                        if h is None or _contains(h[0].body, (ast.Yield, ast.YieldFrom)):
                            continue
                        b = self.bind(h[0], h[1], h[2], n)
                        if b is None or b[1]:
                            continue
                        ef = _as_expression(self.instantiate(h[0], b[0]))
                        if ef is None:
                            continue
                        if n is lam.body:
                            lam.body = ef
                        elif not _replace_node(lam.body, n, ef):
                            continue
                        self.inlined_calls.append(f"{qualname_of(h[0])} <- lambda {ast.unparse(n)[:50]}")
                        done = False
                        break
                    if done:
                        break
            if len(self.inlined_calls) != before_l:
                relink(m)
        # helpers that became fully transparent: inlined at least once and no call to them is left anywhere in the package
        inlined = {x.split(" <- ")[0] for x in self.inlined_calls}
        remaining = set()
        for m in self.prog.modules.values():
            for node in ast.walk(m.tree):
                if isinstance(node, ast.Call):
                    t = self.resolve_target(node, m, _enclosing_class(node))
                    if t is not None and qualname_of(t) not in self.inventory:
                        owner = node
                        while owner is not None and not isinstance(owner, (ast.FunctionDef, ast.AsyncFunctionDef)):
                            owner = getattr(owner, "_parent", None)
                        if owner is not t:
                            remaining.add(qualname_of(t))
        self.transparent = inlined - remaining
        # a fully inlined helper that nothing else refers to is removed from the analysed tree: its code now lives in its callers,
        # and whole-module scans (call-site inventories, "who writes X" rules) must not see it twice
        removed = set()
        for m in self.prog.modules.values():
            for node in list(ast.walk(m.tree)):
                body = getattr(node, "body", None)
                if not isinstance(body, list):
                    continue
                for st in list(body):
                    if isinstance(st, ast.FunctionDef) and qualname_of(st) in self.transparent:
                        refs = [n for n in ast.walk(m.tree) if (isinstance(n, ast.Name) and n.id == st.name and isinstance(n.ctx, ast.Load))
                                or (isinstance(n, ast.Attribute) and n.attr == st.name and isinstance(n.ctx, ast.Load))]
                        inside = {id(x) for x in ast.walk(st)}
                        if all(id(r) in inside for r in refs) and len(body) > 1:
                            body.remove(st)
                            removed.add(qualname_of(st))
                            m._dirty = True
            if getattr(m, "_dirty", False):
                m._dirty = False
                relink(m)
        self.removed = removed
        return self


def _enclosing_class(node):
    n = getattr(node, "_parent", None)
    while n is not None:
        if isinstance(n, ast.ClassDef):
            return n
        n = getattr(n, "_parent", None)
    return None


def relink(module):
    for node in ast.walk(module.tree):
        for child in ast.iter_child_nodes(node):
            child._parent = node
        if not hasattr(node, "_module"):
            node._module = module
    module.tree._parent = None
    ast.fix_missing_locations(module.tree)


def _is_chain(a) -> bool:
    while isinstance(a, ast.Attribute):
        a = a.value
    return isinstance(a, ast.Name)


def _replace_node(root, old, new) -> bool:
    for parent in ast.walk(root):
        for f in parent._fields:
            v = getattr(parent, f, None)
            if v is old:
                setattr(parent, f, new)
                return True
            if isinstance(v, list):
                for i, x in enumerate(v):
                    if x is old:
                        v[i] = new
                        return True
    return False


def _forward_result(stmts, result, target):
    """If the inlined body assigns the temporary exactly in tail positions, assign the real target there instead."""
    count = sum(1 for s in stmts for n in ast.walk(s) if isinstance(n, ast.Name) and n.id == result)
    if count == 0:
        return None

    class R(ast.NodeTransformer):
        def visit_Assign(self, node):
            if len(node.targets) == 1 and isinstance(node.targets[0], ast.Name) and node.targets[0].id == result:
                node.targets = [clone(target)]
            return node

    uses = [n for s in stmts for n in ast.walk(s) if isinstance(n, ast.Name) and n.id == result and isinstance(n.ctx, ast.Load)]
    if uses:
        return None
    return [R().visit(s) for s in stmts]


def _forward_return(stmts, result, ret_stmt):
    uses = [n for s in stmts for n in ast.walk(s) if isinstance(n, ast.Name) and n.id == result and isinstance(n.ctx, ast.Load)]
    if uses:
        return None

    class R(ast.NodeTransformer):
        def visit_Assign(self, node):
            if len(node.targets) == 1 and isinstance(node.targets[0], ast.Name) and node.targets[0].id == result:
                r = ast.Return(value=node.value)
                ast.copy_location(r, node)
                if hasattr(node, "_module"):
                    r._module = node._module
                return r
            return node

    out = [R().visit(s) for s in stmts]
    return out


def _as_expression(body):
    """A helper body made only of `if c: return a` ... `return b` is the conditional expression a if c else (...) else b.
    A search loop `for v in X: if C: return True` / `return False` is any(C for v in X) (and the dual is all(...))."""
    if not body:
        return None
    st = body[0]
    if len(body) == 2 and isinstance(st, ast.For) and not st.orelse and len(st.body) == 1 and isinstance(st.body[0], ast.If) and not st.body[0].orelse \
            and len(st.body[0].body) == 1 and isinstance(st.body[0].body[0], ast.Return) and isinstance(st.body[0].body[0].value, ast.Constant) \
            and isinstance(body[1], ast.Return) and isinstance(body[1].value, ast.Constant) \
            and isinstance(st.body[0].body[0].value.value, bool) and isinstance(body[1].value.value, bool) and st.body[0].body[0].value.value != body[1].value.value:
        found = st.body[0].body[0].value.value
        test = st.body[0].test if found else ast.UnaryOp(op=ast.Not(), operand=st.body[0].test)
        gen = ast.GeneratorExp(elt=test, generators=[ast.comprehension(target=st.target, iter=st.iter, ifs=[], is_async=0)])
        e = ast.Call(func=ast.Name(id="any" if found else "all", ctx=ast.Load()), args=[gen], keywords=[])
        ast.copy_location(e, st)
        ast.fix_missing_locations(e)
        _set_module(e, getattr(st, "_module", None))
        return e
    if isinstance(st, ast.Return):
        return st.value if st.value is not None and len(body) == 1 else None
    if isinstance(st, ast.If) and len(st.body) == 1 and isinstance(st.body[0], ast.Return) and st.body[0].value is not None:
        if st.orelse:
            rest = _as_expression(list(st.orelse)) if len(body) == 1 else None
        else:
            rest = _as_expression(body[1:])
        if rest is None:
            return None
        e = ast.IfExp(test=st.test, body=st.body[0].value, orelse=rest)
        ast.copy_location(e, st)
        _set_module(e, getattr(st, "_module", None))
        return e
    return None
