"""Provenance (label) evaluation of string-building code.

Abstract values:
  S(labels)            scalar/string built from sources carrying these labels ("const" for literals)
  Tup([av,...])        tuple with per-position values
  Seq(av)              homogeneous iterable
  Map(k, v)            mapping
  Obj(cls, attrs)      instance of a package class with abstractly evaluated attributes

`Interp(prog, fn, env)` executes the statements of one function in order (loop bodies and augmented assignments are
joined, the whole body is run to a fixed point) and records the value of every expression it is asked about.
It is deliberately conservative: an operation it does not know yields S(union of all operand labels + "xform:<op>").
"""
from __future__ import annotations

import ast
import string
from typing import Any, Optional

from .core import AnalysisError, DefRef, ModRef, NotConst, Program, Ref, dotted, func_params, norm


class AV:
    def labels(self) -> frozenset:
        raise NotImplementedError


class S(AV):
    def __init__(self, labels=()):
        self._l = frozenset(labels)

    def labels(self):
        return self._l

    def __repr__(self):
        return f"S{sorted(self._l)}"


class Tup(AV):
    def __init__(self, elts):
        self.elts = list(elts)

    def labels(self):
        out = frozenset()
        for e in self.elts:
            out |= e.labels()
        return out

    def __repr__(self):
        return f"Tup{self.elts}"


class Seq(AV):
    def __init__(self, elem: AV):
        self.elem = elem

    def labels(self):
        return self.elem.labels()

    def __repr__(self):
        return f"Seq({self.elem})"


class Map(AV):
    def __init__(self, k: AV, v: AV):
        self.k, self.v = k, v

    def labels(self):
        return self.k.labels() | self.v.labels()

    def __repr__(self):
        return f"Map({self.k}->{self.v})"


class Obj(AV):
    def __init__(self, cls: str, attrs: dict):
        self.cls, self.attrs = cls, attrs

    def labels(self):
        out = frozenset()
        for v in self.attrs.values():
            out |= v.labels()
        return out

    def __repr__(self):
        return f"Obj<{self.cls}>{self.attrs}"


CONST = S({"const"})
EMPTY = S(())


def join(a: Optional[AV], b: Optional[AV]) -> AV:
    if a is b:
        return a
    if a is None:
        return b
    if b is None:
        return a
    if isinstance(a, S) and not a.labels():
        return b
    if isinstance(b, S) and not b.labels():
        return a
    if isinstance(a, Tup) and isinstance(b, Tup) and len(a.elts) == len(b.elts):
        return Tup([join(x, y) for x, y in zip(a.elts, b.elts)])
    if isinstance(a, Seq) and isinstance(b, Seq):
        return Seq(join(a.elem, b.elem))
    if isinstance(a, Map) and isinstance(b, Map):
        return Map(join(a.k, b.k), join(a.v, b.v))
    if isinstance(a, Obj) and isinstance(b, Obj) and a.cls == b.cls:
        keys = set(a.attrs) | set(b.attrs)
        return Obj(a.cls, {k: join(a.attrs.get(k), b.attrs.get(k)) for k in keys})
    return S(a.labels() | b.labels())


def elem_of(av: AV) -> AV:
    """Value obtained by iterating av."""
    if isinstance(av, Seq):
        return av.elem
    if isinstance(av, Tup):
        out = None
        for e in av.elts:
            out = join(out, e)
        return out or EMPTY
    if isinstance(av, Map):
        return av.k
    return S(av.labels())


def av_eq(a, b) -> bool:
    return repr(a) == repr(b)


PASS_THROUGH_FUNCS = {
    "builtins.str", "builtins.repr", "builtins.tuple", "builtins.list", "builtins.sorted", "builtins.reversed",
    "builtins.set", "builtins.frozenset", "builtins.bytes", "builtins.int",
}
# string methods that neither add nor rearrange characters from outside the operands
COMPOSE_METHODS = {"join", "format", "format_map", "__add__", "__mod__"}


class Interp:
    def __init__(self, prog: Program, fn: ast.FunctionDef, env: dict[str, AV], depth: int = 0, on_xform=None):
        self.prog = prog
        self.fn = fn
        self.module = fn._module
        self.env: dict[str, AV] = dict(env)
        self.depth = depth
        self.returns: Optional[AV] = None
        self.xforms: list[tuple[str, Any]] = [] if on_xform is None else on_xform
        self.sinks: dict[int, list[AV]] = {}  # id(call node) -> argument values, for calls the client asked to watch
        self.watch: set[str] = set()

    # ---------------------------------------------------------------- statements
    def run(self, max_iter=6):
        self.block(self.fn.body)
        return self

    def block(self, stmts):
        for st in stmts:
            self.stmt(st)

    def _join_env(self, a: dict, b: dict) -> dict:
        out = {}
        for k in set(a) | set(b):
            out[k] = join(a.get(k), b.get(k))
        return out

    def bind(self, target, val: AV, weak=False):
        if isinstance(target, ast.Name):
            self.env[target.id] = join(self.env.get(target.id), val) if weak else val
        elif isinstance(target, (ast.Tuple, ast.List)):
            if isinstance(val, Tup) and len(val.elts) == len(target.elts):
                for t, v in zip(target.elts, val.elts):
                    self.bind(t, v, weak)
            else:
                for t in target.elts:
                    self.bind(t.value if isinstance(t, ast.Starred) else t, elem_of(val), weak)
        elif isinstance(target, ast.Subscript):
            d = dotted(target.value)
            if d and d in self.env:
                cur = self.env[d]
                k = self.expr(target.slice)
                if isinstance(cur, Map):
                    self.env[d] = Map(join(cur.k, k), join(cur.v, val))
                elif isinstance(cur, Seq):
                    self.env[d] = Seq(join(cur.elem, val))
                else:
                    self.env[d] = S(cur.labels() | k.labels() | val.labels())
        elif isinstance(target, ast.Attribute):
            d = dotted(target.value)
            if d and d in self.env and isinstance(self.env[d], Obj):
                o = self.env[d]
                # objects are shared by reference between branch states, so attribute stores are always joined
                o.attrs[target.attr] = join(o.attrs.get(target.attr), val)

    def _loop(self, body_fn):
        """Run a loop body to a fixed point; the result is joined with the state before the loop (zero iterations)."""
        for _ in range(8):
            before = dict(self.env)
            snap = {k: repr(v) for k, v in before.items()}
            body_fn()
            self.env = self._join_env(before, self.env)
            if {k: repr(v) for k, v in self.env.items()} == snap:
                return
        raise AnalysisError(f"provenance evaluation of a loop in {self.fn.name} did not reach a fixed point")

    def stmt(self, st):
        if isinstance(st, ast.Assign):
            v = self.expr(st.value)
            for t in st.targets:
                self.bind(t, v)
        elif isinstance(st, ast.AnnAssign):
            if st.value is not None:
                self.bind(st.target, self.expr(st.value))
        elif isinstance(st, ast.AugAssign):
            cur = self.expr(st.target) if isinstance(st.target, (ast.Name, ast.Attribute)) else EMPTY
            v = self.expr(st.value)
            self.bind(st.target, S(cur.labels() | v.labels()) if not isinstance(cur, (Seq, Map)) else join(cur, v))
        elif isinstance(st, ast.Expr):
            self.expr(st.value)
        elif isinstance(st, ast.Return):
            if st.value is not None:
                self.returns = join(self.returns, self.expr(st.value))
        elif isinstance(st, ast.If):
            self.expr(st.test)
            env0 = dict(self.env)
            self.block(st.body)
            env1 = self.env
            self.env = dict(env0)
            self.block(st.orelse)
            self.env = self._join_env(env1, self.env)
        elif isinstance(st, (ast.For, ast.AsyncFor)):
            def body():
                it = self.expr(st.iter)
                self.bind(st.target, elem_of(it))
                self.block(st.body)
            self._loop(body)
            self.block(st.orelse)
        elif isinstance(st, ast.While):
            def body():
                self.expr(st.test)
                self.block(st.body)
            self._loop(body)
            self.block(st.orelse)
        elif isinstance(st, ast.Try):
            env0 = dict(self.env)
            self.block(st.body)
            acc = self._join_env(env0, self.env)
            for h in st.handlers:
                self.env = dict(acc)
                if h.name:
                    self.env[h.name] = CONST
                self.block(h.body)
                acc = self._join_env(acc, self.env)
            self.env = acc
            self.block(st.orelse)
            self.block(st.finalbody)
        elif isinstance(st, (ast.With, ast.AsyncWith)):
            for it in st.items:
                v = self.expr(it.context_expr)
                if it.optional_vars is not None:
                    self.bind(it.optional_vars, v)
            self.block(st.body)
        elif isinstance(st, (ast.Raise, ast.Assert)):
            pass
        elif isinstance(st, (ast.Pass, ast.Break, ast.Continue, ast.Global, ast.Nonlocal, ast.Import, ast.ImportFrom,
                             ast.Delete)):
            pass
        elif isinstance(st, (ast.FunctionDef, ast.AsyncFunctionDef, ast.ClassDef)):
            pass
        else:
            raise AnalysisError(f"provenance: statement {type(st).__name__} at line {st.lineno} not modelled")

    # ---------------------------------------------------------------- expressions
    def expr(self, e) -> AV:
        if e is None:
            return EMPTY
        m = getattr(self, "e_" + type(e).__name__, None)
        if m is None:
            labels = frozenset()
            for ch in ast.iter_child_nodes(e):
                if isinstance(ch, ast.expr):
                    labels |= self.expr(ch).labels()
            return S(labels | {f"xform:{type(e).__name__}"})
        return m(e)

    def e_Constant(self, e):
        return CONST if isinstance(e.value, (str, bytes)) and e.value else (CONST if e.value is not None else CONST)

    def e_Name(self, e):
        if e.id in self.env:
            return self.env[e.id]
        try:
            v = self.prog.fold(self.module, e)
        except NotConst:
            return S({f"global:{e.id}"})
        return const_to_av(v)

    def e_Attribute(self, e):
        base = self.expr(e.value)
        if isinstance(base, Obj):
            if e.attr in base.attrs:
                return base.attrs[e.attr]
            return S(base.labels() | {f"attr:{e.attr}"})
        d = dotted(e)
        if d and not (isinstance(e.value, ast.Name) and e.value.id in self.env):
            try:
                return const_to_av(self.prog.fold(self.module, e))
            except NotConst:
                pass
        if isinstance(base, S) and not base.labels():
            return EMPTY
        return S(base.labels() | {f"attr:{e.attr}"})

    def e_Tuple(self, e):
        if any(isinstance(x, ast.Starred) for x in e.elts):
            out = None
            for x in e.elts:
                out = join(out, elem_of(self.expr(x.value)) if isinstance(x, ast.Starred) else self.expr(x))
            return Seq(out or EMPTY)
        return Tup([self.expr(x) for x in e.elts])

    def e_List(self, e):
        out = None
        for x in e.elts:
            out = join(out, elem_of(self.expr(x.value)) if isinstance(x, ast.Starred) else self.expr(x))
        return Seq(out or EMPTY)

    e_Set = e_List

    def e_Dict(self, e):
        k = v = None
        for kk, vv in zip(e.keys, e.values):
            if kk is None:
                sub = self.expr(vv)
                if isinstance(sub, Map):
                    k, v = join(k, sub.k), join(v, sub.v)
                else:
                    k, v = join(k, S(sub.labels())), join(v, S(sub.labels()))
            else:
                k, v = join(k, self.expr(kk)), join(v, self.expr(vv))
        return Map(k or EMPTY, v or EMPTY)

    def e_JoinedStr(self, e):
        labels = frozenset({"const"})
        for v in e.values:
            labels |= self.expr(v).labels()
        return S(labels)

    def e_FormattedValue(self, e):
        return S(self.expr(e.value).labels() | (self.expr(e.format_spec).labels() if e.format_spec else frozenset()))

    def e_BinOp(self, e):
        a, b = self.expr(e.left), self.expr(e.right)
        if isinstance(e.op, (ast.Add, ast.Mod, ast.Mult)):
            if isinstance(a, Seq) and isinstance(b, Seq):
                return join(a, b)
            return S(a.labels() | b.labels())
        return S(a.labels() | b.labels() | {f"xform:{type(e.op).__name__}"})

    def e_BoolOp(self, e):
        out = None
        for v in e.values:
            out = join(out, self.expr(v))
        return out

    def e_UnaryOp(self, e):
        v = self.expr(e.operand)
        return CONST if isinstance(e.op, ast.Not) else v

    def e_Compare(self, e):
        self.expr(e.left)
        for c in e.comparators:
            self.expr(c)
        return CONST  # a bool

    def e_IfExp(self, e):
        self.expr(e.test)
        return join(self.expr(e.body), self.expr(e.orelse))

    def e_NamedExpr(self, e):
        v = self.expr(e.value)
        self.bind(e.target, v, weak=True)
        return v

    def e_Subscript(self, e):
        base = self.expr(e.value)
        if isinstance(e.slice, ast.Slice):
            return base
        idx = None
        try:
            idx = self.prog.fold(self.module, e.slice)
        except NotConst:
            self.expr(e.slice)
        if isinstance(base, Tup) and isinstance(idx, int) and -len(base.elts) <= idx < len(base.elts):
            return base.elts[idx]
        if isinstance(base, Map):
            return base.v
        return elem_of(base)

    def e_Starred(self, e):
        return self.expr(e.value)

    def e_Lambda(self, e):
        return CONST

    def _comp(self, e, elt_fn):
        saved = dict(self.env)
        for g in e.generators:
            it = self.expr(g.iter)
            self.bind(g.target, elem_of(it))
            for c in g.ifs:
                self.expr(c)
        out = elt_fn()
        # comprehension variables do not leak
        for k in list(self.env):
            if k not in saved:
                del self.env[k]
        for k, v in saved.items():
            self.env[k] = v
        return out

    def e_ListComp(self, e):
        return self._comp(e, lambda: Seq(self.expr(e.elt)))

    e_SetComp = e_ListComp
    e_GeneratorExp = e_ListComp

    def e_DictComp(self, e):
        return self._comp(e, lambda: Map(self.expr(e.key), self.expr(e.value)))

    # ---------------------------------------------------------------- calls
    def e_Call(self, e: ast.Call):
        args = [self.expr(a) for a in e.args]
        kwargs = {k.arg: self.expr(k.value) for k in e.keywords if k.arg}
        star_kw = [self.expr(k.value) for k in e.keywords if k.arg is None]
        name = dotted(e.func)
        if name in self.watch or (name and name.split(".")[-1] in self.watch):
            self.sinks.setdefault(id(e), [e, args, kwargs])
        all_labels = frozenset()
        for a in args + list(kwargs.values()) + star_kw:
            all_labels |= a.labels()

        # method calls --------------------------------------------------------
        if isinstance(e.func, ast.Attribute):
            meth = e.func.attr
            recv_node = e.func.value
            resolved = self.prog.resolve_expr(self.module, e.func) if dotted(e.func) and not (
                isinstance(recv_node, ast.Name) and recv_node.id in self.env) else None
            if resolved is None:
                recv = self.expr(recv_node)
                if meth in ("format", "format_map"):
                    return self._format(recv_node, recv, args, kwargs, star_kw)
                if meth == "join":
                    return S(recv.labels() | all_labels)
                if meth == "replace":
                    self.xforms.append(("replace", e, recv, args))
                    return S(recv.labels() | (args[1].labels() if len(args) > 1 else frozenset()))
                if isinstance(recv, Map):
                    if meth == "keys":
                        return Seq(recv.k)
                    if meth == "values":
                        return Seq(recv.v)
                    if meth == "items":
                        return Seq(Tup([recv.k, recv.v]))
                    if meth in ("get", "pop", "setdefault"):
                        return join(recv.v, args[1]) if len(args) > 1 else recv.v
                    if meth == "update":
                        d = dotted(recv_node)
                        for a in args:
                            if isinstance(a, Map):
                                new = Map(join(recv.k, a.k), join(recv.v, a.v))
                            else:
                                el = elem_of(a)
                                new = Map(join(recv.k, el.elts[0]), join(recv.v, el.elts[1])) if isinstance(el, Tup) and len(el.elts) == 2 else S(recv.labels() | a.labels())
                            if d:
                                self.env[d] = new
                            recv = new if isinstance(new, Map) else recv
                        for k, v in kwargs.items():
                            if d and isinstance(self.env.get(d), Map):
                                mm = self.env[d]
                                self.env[d] = Map(join(mm.k, CONST), join(mm.v, v))
                        return CONST
                    if meth == "copy":
                        return recv
                if isinstance(recv, Seq):
                    d = dotted(recv_node)
                    if meth in ("append", "add"):
                        if d:
                            self.env[d] = Seq(join(recv.elem, args[0]))
                        return CONST
                    if meth == "extend":
                        if d:
                            self.env[d] = Seq(join(recv.elem, elem_of(args[0])))
                        return CONST
                    if meth in ("copy",):
                        return recv
                if isinstance(recv, S) and not recv.labels() and meth in ("append", "add"):
                    d = dotted(recv_node)
                    if d:
                        self.env[d] = Seq(args[0])
                    return CONST
                if meth in ("strip", "lstrip", "rstrip", "lower", "upper", "title", "encode", "decode", "split",
                            "rsplit", "partition", "rpartition", "splitlines", "startswith", "endswith", "ljust",
                            "rjust", "zfill", "casefold", "capitalize", "expandtabs"):
                    self.xforms.append((meth, e, recv, args))
                    out = S(recv.labels() | all_labels | ({f"xform:{meth}"} if meth not in ("startswith", "endswith") else set()))
                    return CONST if meth in ("startswith", "endswith") else out
                if isinstance(recv, Obj):
                    r = self._call_method(recv, meth, args, kwargs)
                    if r is not None:
                        return r
                return S(recv.labels() | all_labels | {f"call:{meth}"})
            target = resolved
        else:
            target = self.prog.resolve_expr(self.module, e.func) if isinstance(e.func, ast.Name) and e.func.id not in self.env else None
            if target is None and isinstance(e.func, ast.Name) and e.func.id in self.env:
                return S(self.env[e.func.id].labels() | all_labels | {"call:local"})

        # resolved targets ----------------------------------------------------
        if isinstance(target, Ref):
            n = target.name
            if n in PASS_THROUGH_FUNCS:
                if n in ("builtins.tuple", "builtins.list", "builtins.sorted", "builtins.reversed", "builtins.set",
                         "builtins.frozenset") and args:
                    a = args[0]
                    return a if isinstance(a, (Seq, Tup)) else Seq(elem_of(a))
                return S(all_labels) if args else CONST
            if n in ("collections.OrderedDict", "builtins.dict"):
                out = Map(EMPTY, EMPTY)
                for a in args:
                    if isinstance(a, Map):
                        out = Map(join(out.k, a.k), join(out.v, a.v))
                    else:
                        el = elem_of(a)
                        if isinstance(el, Tup) and len(el.elts) == 2:
                            out = Map(join(out.k, el.elts[0]), join(out.v, el.elts[1]))
                        else:
                            out = Map(join(out.k, S(el.labels())), join(out.v, S(el.labels())))
                for k, v in kwargs.items():
                    out = Map(join(out.k, CONST), join(out.v, v))
                return out
            if n in ("builtins.len", "builtins.isinstance", "builtins.bool", "builtins.callable", "builtins.hasattr",
                     "builtins.any", "builtins.all", "builtins.id", "builtins.issubclass"):
                return CONST
            if n in ("builtins.zip",):
                return Seq(Tup([elem_of(a) for a in args]))
            if n in ("builtins.enumerate",):
                return Seq(Tup([CONST, elem_of(args[0])]))
            if n in ("builtins.map",) and len(args) >= 2:
                return Seq(S(elem_of(args[1]).labels() | args[0].labels() | {"call:map"}))
            if n == "builtins.getattr" and len(args) >= 2:
                return S(all_labels | {"call:getattr"})
            if n.startswith("keyword.") or n.startswith("warnings.") or n.startswith("logging."):
                return CONST
            return S(all_labels | {f"call:{n}"})
        if isinstance(target, DefRef):
            node = target.node
            if isinstance(node, ast.ClassDef):
                return self._construct(target, args, kwargs)
            if isinstance(node, (ast.FunctionDef, ast.AsyncFunctionDef)):
                r = self._call_function(node, args, kwargs, bound=None)
                if r is not None:
                    return r
                return S(all_labels | {f"call:{target.qualname}"})
        return S(all_labels | {f"call:{name or norm(e.func)}"})

    def _format(self, recv_node, recv: AV, args, kwargs, star_kw):
        labels = frozenset(recv.labels())
        text = None
        try:
            text = self.prog.fold(self.module, recv_node, None)
        except NotConst:
            if isinstance(recv_node, ast.Name) and recv_node.id in self.env:
                text = None
        used_all = text is None or not isinstance(text, str)
        if not used_all:
            try:
                parsed = list(string.Formatter().parse(text))
            except ValueError as ex:
                raise AnalysisError(f"format string not parseable: {ex}")
            auto = 0
            for _lit, fname, spec, conv in parsed:
                if fname is None:
                    continue
                first, rest = _split_field(fname)
                if first == "":
                    val = args[auto] if auto < len(args) else None
                    auto += 1
                elif first.isdigit():
                    val = args[int(first)] if int(first) < len(args) else None
                else:
                    val = kwargs.get(first)
                    if val is None and star_kw:
                        val = S(frozenset().union(*[s.labels() for s in star_kw]))
                if val is None:
                    labels |= {f"format:missing:{first}"}
                    continue
                for kind, nm in rest:
                    if kind == "attr" and isinstance(val, Obj) and nm in val.attrs:
                        val = val.attrs[nm]
                    elif kind == "attr":
                        val = S(val.labels() | {f"attr:{nm}"})
                    else:
                        val = elem_of(val)
                labels |= val.labels()
                if spec and "{" in spec:
                    labels |= {"format:nested-spec"}
            return S(labels | {"const"})
        for a in list(args) + list(kwargs.values()) + star_kw:
            labels |= a.labels()
        return S(labels)

    def _construct(self, cls: DefRef, args, kwargs) -> AV:
        if self.depth > 4:
            lab = frozenset()
            for a in list(args) + list(kwargs.values()):
                lab |= a.labels()
            return S(lab | {f"call:{cls.qualname}"})
        init = self.prog.class_attr(cls, "__init__")
        obj = Obj(cls.qualname, {})
        if isinstance(init, DefRef) and isinstance(init.node, ast.FunctionDef):
            self._call_function(init.node, args, kwargs, bound=obj)
        return obj

    def _call_method(self, recv: Obj, meth: str, args, kwargs):
        cls = self.prog.all_classes().get(recv.cls)
        if cls is None:
            return None
        m = self.prog.class_attr(cls, meth)
        if isinstance(m, DefRef) and isinstance(m.node, ast.FunctionDef):
            return self._call_function(m.node, args, kwargs, bound=recv)
        return None

    def _call_function(self, fn: ast.FunctionDef, args, kwargs, bound: Optional[Obj]):
        if self.depth > 4:
            return None
        decos = {dotted(d.func) if isinstance(d, ast.Call) else dotted(d) for d in fn.decorator_list}
        params = [a.arg for a in fn.args.posonlyargs + fn.args.args]
        env: dict[str, AV] = {}
        is_static = "staticmethod" in decos
        is_cls = "classmethod" in decos
        pos = list(args)
        if bound is not None and not is_static and params:
            env[params[0]] = bound
            params = params[1:]
        elif (is_cls or (not is_static and _is_method(fn))) and params:
            env[params[0]] = CONST
            params = params[1:]
        defaults = fn.args.defaults
        for i, p in enumerate(params):
            if i < len(pos):
                env[p] = pos[i]
            elif p in kwargs:
                env[p] = kwargs[p]
            else:
                env[p] = CONST
        for a in fn.args.kwonlyargs:
            env[a.arg] = kwargs.get(a.arg, CONST)
        if fn.args.vararg:
            env[fn.args.vararg.arg] = Seq(join_all(pos[len(params):]))
        if fn.args.kwarg:
            env[fn.args.kwarg.arg] = Map(CONST, join_all(list(kwargs.values())))
        sub = Interp(self.prog, fn, env, self.depth + 1, on_xform=self.xforms)
        sub.watch = self.watch
        sub.run()
        self.sinks.update(sub.sinks)
        return sub.returns if sub.returns is not None else CONST


def join_all(avs) -> AV:
    out = None
    for a in avs:
        out = join(out, a)
    return out or EMPTY


def _is_method(fn) -> bool:
    return isinstance(getattr(fn, "_parent", None), ast.ClassDef)


def _split_field(fname: str):
    """'field.name[0]' -> ('field', [('attr','name'), ('item','0')])"""
    import _string

    first, rest = _string.formatter_field_name_split(fname)
    return str(first), [("attr" if is_attr else "item", str(nm)) for is_attr, nm in rest]


def const_to_av(v) -> AV:
    if isinstance(v, dict):
        return Map(join_all([const_to_av(k) for k in v.keys()]) if v else EMPTY,
                   join_all([const_to_av(x) for x in v.values()]) if v else EMPTY)
    if isinstance(v, (list, frozenset, set)):
        return Seq(join_all([const_to_av(x) for x in v]) if v else EMPTY)
    if isinstance(v, tuple):
        return Tup([const_to_av(x) for x in v])
    if isinstance(v, (Ref, DefRef, ModRef)):
        return S({"const"})
    return CONST
