"""Tiny propositional layer over Python conditions: conditions are compared as boolean functions of their atomic
sub-expressions (truth table, <= 12 atoms), so De Morgan rewrites, swapped operands of and/or, negated comparison
operators and `a not in b` / `not a in b` spellings are all the same condition."""
from __future__ import annotations

import ast
import itertools
from typing import Iterable, Optional

from .core import AnalysisError, norm

_COMPLEMENT = {ast.NotIn: ast.In, ast.IsNot: ast.Is, ast.NotEq: ast.Eq}


class _NoWalrus(ast.NodeTransformer):
    """(x := e) has the value of x afterwards: for comparing conditions it is x."""
    def visit_NamedExpr(self, node):
        return node.target


def formula(e):
    """-> ('atom', text) | ('not', f) | ('and', [f...]) | ('or', [f...]) | ('const', bool)"""
    if isinstance(e, ast.AST) and any(isinstance(n, ast.NamedExpr) for n in ast.walk(e)):
        from .core import copy_ast

        e = _NoWalrus().visit(copy_ast(e))
    if isinstance(e, ast.Constant) and isinstance(e.value, bool):
        return ("const", e.value)
    if isinstance(e, ast.UnaryOp) and isinstance(e.op, ast.Not):
        return ("not", formula(e.operand))
    if isinstance(e, ast.BoolOp):
        return ("and" if isinstance(e.op, ast.And) else "or", [formula(v) for v in e.values])
    if isinstance(e, ast.Compare):
        if len(e.ops) > 1:
            # a < b < c  ->  a < b and b < c
            parts = []
            left = e.left
            for op, right in zip(e.ops, e.comparators):
                parts.append(formula(ast.Compare(left=left, ops=[op], comparators=[right])))
                left = right
            return ("and", parts)
        op, l, r = e.ops[0], e.left, e.comparators[0]
        t = type(op)
        if t in _COMPLEMENT:
            return ("not", ("atom", norm(ast.Compare(left=l, ops=[_COMPLEMENT[t]()], comparators=[r]))))
        if t is ast.Gt:
            return ("atom", norm(ast.Compare(left=r, ops=[ast.Lt()], comparators=[l])))
        if t is ast.GtE:
            return ("not", ("atom", norm(ast.Compare(left=l, ops=[ast.Lt()], comparators=[r]))))
        if t is ast.LtE:
            return ("not", ("atom", norm(ast.Compare(left=r, ops=[ast.Lt()], comparators=[l]))))
        if t is ast.Eq:
            a, b = sorted([norm(l), norm(r)])
            return ("atom", f"{a} == {b}")
        return ("atom", norm(e))
    if isinstance(e, ast.Call) and isinstance(e.func, ast.Name) and e.func.id == "bool" and len(e.args) == 1:
        return formula(e.args[0])
    if isinstance(e, ast.Call) and isinstance(e.func, ast.Name) and e.func.id in ("isinstance", "issubclass") and len(e.args) == 2 and isinstance(e.args[1], ast.Tuple) and e.args[1].elts:
        # isinstance(x, (A, B)) is isinstance(x, A) or isinstance(x, B)
        return ("or", [("atom", norm(ast.Call(func=e.func, args=[e.args[0], c], keywords=[]))) for c in e.args[1].elts])
    if isinstance(e, ast.IfExp):
        c, a, b = formula(e.test), formula(e.body), formula(e.orelse)
        return ("or", [("and", [c, a]), ("and", [("not", c), b])])
    return ("atom", norm(e))


def atoms(f) -> set:
    k = f[0]
    if k == "atom":
        return {f[1]}
    if k == "const":
        return set()
    if k == "not":
        return atoms(f[1])
    out = set()
    for s in f[1]:
        out |= atoms(s)
    return out


def evaluate(f, env: dict) -> bool:
    k = f[0]
    if k == "atom":
        return env[f[1]]
    if k == "const":
        return f[1]
    if k == "not":
        return not evaluate(f[1], env)
    if k == "and":
        return all(evaluate(s, env) for s in f[1])
    return any(evaluate(s, env) for s in f[1])


def _assignments(names: list):
    if len(names) > 12:
        raise AnalysisError(f"condition with {len(names)} atoms is too large for the truth-table comparison")
    for vals in itertools.product((False, True), repeat=len(names)):
        yield dict(zip(names, vals))


def equivalent(a, b) -> bool:
    fa, fb = (formula(a) if isinstance(a, ast.AST) else a), (formula(b) if isinstance(b, ast.AST) else b)
    names = sorted(atoms(fa) | atoms(fb))
    return all(evaluate(fa, env) == evaluate(fb, env) for env in _assignments(names))


def implies(premises: Iterable, goal) -> bool:
    """premises: iterable of (expr-or-formula, polarity); goal: expr or formula."""
    fs = [((formula(p) if isinstance(p, ast.AST) else p), pol) for p, pol in premises]
    fg = formula(goal) if isinstance(goal, ast.AST) else goal
    names = sorted(set().union(*[atoms(f) for f, _ in fs], atoms(fg))) if fs else sorted(atoms(fg))
    relevant = atoms(fg)
    # keep only premises that talk about atoms connected to the goal (keeps the table small)
    keep = [(f, pol) for f, pol in fs if atoms(f) & relevant] or fs
    names = sorted(set().union(*[atoms(f) for f, _ in keep], relevant)) if keep else sorted(relevant)
    for env in _assignments(names):
        if all(evaluate(f, env) == pol for f, pol in keep):
            if not evaluate(fg, env):
                return False
    return True


def parse(text: str):
    return ast.parse(text, mode="eval").body


def facts_as_premises(facts):
    """CFG.facts_at() triples (text, polarity, paths) -> premises; unparsable texts are skipped."""
    out = []
    for t, pol, _ in facts:
        try:
            out.append((parse(t), pol))
        except SyntaxError:
            continue
    return out


def evaluate3(f, env: dict) -> Optional[bool]:
    """Three-valued evaluation: atoms missing from env are unknown (None)."""
    k = f[0]
    if k == "atom":
        return env.get(f[1])
    if k == "const":
        return f[1]
    if k == "not":
        v = evaluate3(f[1], env)
        return None if v is None else (not v)
    vals = [evaluate3(s, env) for s in f[1]]
    if k == "and":
        if any(v is False for v in vals):
            return False
        return True if all(v is True for v in vals) else None
    if any(v is True for v in vals):
        return True
    return False if all(v is False for v in vals) else None


def with_flags(fn, valuation):
    """Extend a valuation over atoms to boolean FLAG locals: a name assigned exactly once in `fn` from a condition
    (`is_list = t == "bytes[]"`) has the truth value of that condition."""
    from .core import single_assign_aliases

    flags = {k: v for k, v in single_assign_aliases(fn).items() if isinstance(v, (ast.Compare, ast.BoolOp, ast.UnaryOp, ast.Call))}
    busy = set()

    def val(atom):
        r = valuation(atom)
        if r is not None:
            return r
        if atom in flags and atom not in busy:
            busy.add(atom)
            try:
                f = formula(flags[atom])
                return evaluate3(f, {a: v for a, v in ((a, val(a)) for a in atoms(f)) if v is not None})
            finally:
                busy.discard(atom)
        return None

    return val


def reachable_assuming(cfg, start: int, valuation, avoid=None) -> set:
    """CFG nodes reachable from start when every test whose truth value is determined by `valuation(atom_text) -> bool|None`
    takes only the matching edge (and no path passes through a node for which `avoid(node)` holds)."""
    seen = {start}
    work = [start]
    while work:
        u = work.pop()
        node = cfg.nodes[u]
        verdict = None
        if node.kind == "test" and node.ast is not None:
            f = formula(node.ast.test)
            env = {a: valuation(a) for a in atoms(f)}
            verdict = evaluate3(f, {k: v for k, v in env.items() if v is not None})
        for v, cond in cfg.succ[u]:
            if verdict in (True, False) and cond is not None and not isinstance(cond[0], str) and cond[1] != verdict:
                continue
            if v not in seen and not (avoid is not None and avoid(cfg.nodes[v])):
                seen.add(v)
                work.append(v)
    return seen
