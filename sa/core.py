"""Loader, symbol resolver and constant folder for the flow.record static checks.

Nothing in here imports or executes flow.record: every fact is derived from the
`ast` of the files under <root>/flow/record.
"""
from __future__ import annotations

import ast
import hashlib
import os
from dataclasses import dataclass, field
from typing import Any, Iterable, Iterator, Optional

PKG = "flow.record"


class AnalysisError(Exception):
    """The analysis itself cannot be carried out (vanished anchor, unmodelled idiom, floor not reached)."""


class NotConst(Exception):
    pass


# --------------------------------------------------------------------------- values produced by folding


@dataclass(frozen=True)
class Ref:
    """Reference to something outside the package (stdlib / third party), by dotted name."""

    name: str

    def __repr__(self):
        return f"<{self.name}>"


@dataclass(frozen=True)
class DefRef:
    """Reference to a function or class defined in the package."""

    qualname: str
    node: Any = field(compare=False, hash=False, repr=False)

    def __repr__(self):
        return f"<def {self.qualname}>"


@dataclass(frozen=True)
class LambdaRef:
    node: Any = field(compare=False, hash=False)
    module: Any = field(compare=False, hash=False, repr=False)

    def __repr__(self):
        return f"<lambda@{getattr(self.node, 'lineno', '?')}>"


@dataclass(frozen=True)
class PartialRef:
    func: Any
    args: tuple
    kwargs: tuple  # tuple of (name, value)

    def kw(self):
        return dict(self.kwargs)


@dataclass(frozen=True)
class ModRef:
    modname: str


# --------------------------------------------------------------------------- modules


class Module:
    def __init__(self, prog: "Program", modname: str, path: str, relpath: str, src: str):
        self.prog = prog
        self.modname = modname
        self.path = path
        self.relpath = relpath
        self.src = src
        self.sha256 = hashlib.sha256(src.encode("utf-8", "surrogateescape")).hexdigest()
        try:
            self.tree = ast.parse(src, filename=relpath)
        except SyntaxError as e:  # fail closed
            raise AnalysisError(f"cannot parse {relpath}: {e}") from e
        self.is_package = os.path.basename(path) == "__init__.py"
        for node in ast.walk(self.tree):
            for child in ast.iter_child_nodes(node):
                child._parent = node
            node._module = self
        self.tree._parent = None
        self._symbols: Optional[dict] = None

    # -- module level symbol table -------------------------------------------------
    @property
    def symbols(self) -> dict:
        """name -> list of binding records (in source order). Each record is a tuple:
        ('import', modname) | ('from', modname, attr) | ('def', node) | ('class', node) | ('assign', value_node, stmt)
        Bindings inside module-level if/try/for/with blocks are included (the repository uses try/except ImportError
        and if/else at module level)."""
        if self._symbols is None:
            syms: dict[str, list] = {}

            def add(name, rec):
                syms.setdefault(name, []).append(rec)

            def visit(stmts):
                for st in stmts:
                    if isinstance(st, ast.Import):
                        for a in st.names:
                            if a.asname:
                                add(a.asname, ("import", a.name))
                            else:
                                add(a.name.split(".")[0], ("import", a.name.split(".")[0]))
                    elif isinstance(st, ast.ImportFrom):
                        base = self.resolve_relative(st.module, st.level)
                        for a in st.names:
                            add(a.asname or a.name, ("from", base, a.name))
                    elif isinstance(st, (ast.FunctionDef, ast.AsyncFunctionDef)):
                        add(st.name, ("def", st))
                    elif isinstance(st, ast.ClassDef):
                        add(st.name, ("class", st))
                    elif isinstance(st, ast.Assign):
                        for tgt in st.targets:
                            for name, val in _assign_pairs(tgt, st.value):
                                add(name, ("assign", val, st))
                    elif isinstance(st, ast.AnnAssign) and isinstance(st.target, ast.Name) and st.value is not None:
                        add(st.target.id, ("assign", st.value, st))
                    elif isinstance(st, ast.AugAssign) and isinstance(st.target, ast.Name):
                        add(st.target.id, ("augassign", st, st))
                    elif isinstance(st, ast.If):
                        # walrus in the test binds at module level too
                        for n in ast.walk(st.test):
                            if isinstance(n, ast.NamedExpr) and isinstance(n.target, ast.Name):
                                add(n.target.id, ("assign", n.value, st))
                        visit(st.body)
                        visit(st.orelse)
                    elif isinstance(st, ast.Try):
                        visit(st.body)
                        for h in st.handlers:
                            visit(h.body)
                        visit(st.orelse)
                        visit(st.finalbody)
                    elif isinstance(st, (ast.For, ast.While)):
                        if isinstance(st, ast.For):
                            for n in ast.walk(st.target):
                                if isinstance(n, ast.Name):
                                    add(n.id, ("loopvar", st, st))
                        visit(st.body)
                        visit(st.orelse)
                    elif isinstance(st, ast.With):
                        visit(st.body)

            visit(self.tree.body)
            self._symbols = syms
        return self._symbols

    def resolve_relative(self, module: Optional[str], level: int) -> str:
        if level == 0:
            return module or ""
        parts = self.modname.split(".")
        if not self.is_package:
            parts = parts[:-1]
        if level > 1:
            parts = parts[: len(parts) - (level - 1)]
        base = ".".join(parts)
        return f"{base}.{module}" if module else base

    def loc(self, node) -> str:
        return f"{self.relpath}:{getattr(node, 'lineno', 0)}"


def _assign_pairs(target, value) -> Iterator[tuple[str, Any]]:
    """Yield (name, value-node-or-None) for a (possibly tuple) assignment target."""
    if isinstance(target, ast.Name):
        yield target.id, value
    elif isinstance(target, (ast.Tuple, ast.List)):
        if isinstance(value, (ast.Tuple, ast.List)) and len(value.elts) == len(target.elts):
            for t, v in zip(target.elts, value.elts):
                yield from _assign_pairs(t, v)
        else:
            for t in target.elts:
                for name, _ in _assign_pairs(t, None):
                    yield name, None


# --------------------------------------------------------------------------- program


class Program:
    """All modules of flow.record under <root>, with an optional in-memory overlay {relpath: source}."""

    def __init__(self, root: str, overlay: Optional[dict[str, str]] = None, inline: bool = True):
        self.root = os.path.abspath(root)
        self.inlined_calls: list[str] = []
        self.transparent_helpers: set[str] = set()
        self.modules: dict[str, Module] = {}
        self.by_relpath: dict[str, Module] = {}
        overlay = overlay or {}
        pkgdir = os.path.join(self.root, "flow", "record")
        if not os.path.isdir(pkgdir):
            raise AnalysisError(f"{pkgdir} does not exist")
        for dirpath, dirnames, filenames in os.walk(pkgdir):
            dirnames.sort()
            dirnames[:] = [d for d in dirnames if d != "__pycache__"]
            for fn in sorted(filenames):
                if not fn.endswith(".py"):
                    continue
                path = os.path.join(dirpath, fn)
                rel = os.path.relpath(path, self.root)
                if rel in overlay:
                    src = overlay[rel]
                else:
                    with open(path, "r", encoding="utf-8", errors="surrogateescape") as f:
                        src = f.read()
                modname = rel[:-3].replace(os.sep, ".")
                if modname.endswith(".__init__"):
                    modname = modname[: -len(".__init__")]
                m = Module(self, modname, path, rel, src)
                self.modules[modname] = m
                self.by_relpath[rel] = m
        self._class_index: Optional[dict] = None
        self._subclasses: Optional[dict] = None
        if inline:
            from .inline import Inliner

            inl = Inliner(self).run()
            self.inlined_calls = inl.inlined_calls
            self.transparent_helpers = set(inl.transparent)
            if os.environ.get("SA_NO_NORMALIZE") != "1":
                from . import normalize

                self.substituted_aliases = normalize.run(self)
                # normalisation can uncover further helper calls (a helper handed around as a value, now in call position)
                for rnd in (1, 2):
                    for m in self.modules.values():
                        m._symbols = None
                    self._class_index = None
                    self._subclasses = None
                    again = Inliner(self)
                    again.counter = 1000 * rnd
                    again.run()
                    if not again.inlined_calls:
                        break
                    self.inlined_calls = self.inlined_calls + again.inlined_calls
                    self.transparent_helpers |= set(again.transparent)
                    self.substituted_aliases += normalize.run(self)
        # document order of the ANALYSED tree (inlined code keeps the line numbers of where it came from, so line numbers do not order it)
        for m in self.modules.values():
            k = 0
            stack = [m.tree]
            while stack:
                n = stack.pop()
                n._ord = k
                k += 1
                stack.extend(reversed(list(ast.iter_child_nodes(n))))
            for m in self.modules.values():
                m._symbols = None
            self._class_index = None
            self._subclasses = None

    def in_transparent_helper(self, node) -> bool:
        """Is `node` inside the body of a helper whose every call has been inlined (its code is analysed in the callers)?"""
        n = node
        while n is not None:
            if isinstance(n, (ast.FunctionDef, ast.AsyncFunctionDef)) and qualname_of(n) in self.transparent_helpers:
                return True
            n = getattr(n, "_parent", None)
        return False

    # -- lookup by qualified name -------------------------------------------------
    def module(self, modname: str) -> Module:
        m = self.modules.get(modname)
        if m is None:
            raise AnalysisError(f"anchor module {modname} not found")
        return m

    def find(self, qualname: str, kinds=(ast.FunctionDef, ast.ClassDef, ast.AsyncFunctionDef), required=True):
        """Find a def by dotted name, e.g. flow.record.selector.NoneObject.__eq__ . Nested defs allowed."""
        parts = qualname.split(".")
        for i in range(len(parts), 0, -1):
            modname = ".".join(parts[:i])
            if modname in self.modules:
                node: Any = self.modules[modname].tree
                ok = True
                for p in parts[i:]:
                    nxt = None
                    for st in _body_defs(node):
                        if st.name == p:
                            nxt = st  # last definition wins, as at run time
                    if nxt is None:
                        ok = False
                        break
                    node = nxt
                if ok and node is not self.modules[modname].tree and isinstance(node, kinds):
                    return node
        # the name may have been kept as an alias of a definition that moved:  `is_valid = _Validator.is_valid` at module level,
        # or  `method = staticmethod(_helper)` / `method = _helper` in a class body
        for i in range(len(parts) - 1, 0, -1):
            modname = ".".join(parts[:i])
            if modname not in self.modules:
                continue
            m = self.modules[modname]
            holder: Any = m.tree
            ok = True
            for p in parts[i:-1]:
                nxt = next((st for st in _body_defs(holder) if st.name == p), None)
                if nxt is None:
                    ok = False
                    break
                holder = nxt
            if not ok:
                continue
            for st in getattr(holder, "body", []):
                if isinstance(st, ast.Assign) and any(isinstance(t, ast.Name) and t.id == parts[-1] for t in st.targets):
                    v = st.value
                    if isinstance(v, ast.Call) and isinstance(v.func, ast.Name) and v.func.id in ("staticmethod", "classmethod") and len(v.args) == 1:
                        v = v.args[0]
                    r = self.resolve_expr(m, v) if isinstance(v, (ast.Name, ast.Attribute)) else None
                    if isinstance(r, DefRef) and isinstance(r.node, kinds):
                        return r.node
        if required:
            raise AnalysisError(f"anchor {qualname} not found")
        return None

    def func(self, qualname: str) -> ast.FunctionDef:
        return self.find(qualname, kinds=(ast.FunctionDef, ast.AsyncFunctionDef))

    def cls(self, qualname: str) -> ast.ClassDef:
        return self.find(qualname, kinds=(ast.ClassDef,))

    # -- symbol resolution -------------------------------------------------------
    def resolve_global(self, module: Module, name: str, _depth=0):
        """Resolve a module-level name to DefRef / ModRef / Ref / ('value', node, module) / None."""
        if _depth > 12:
            return None
        recs = module.symbols.get(name)
        if not recs:
            return None
        # prefer the *last* non-except binding; for try/except ImportError fallbacks the first import is what matters.
        # Strategy: take the first 'from'/'import'/def/class binding if any, else the last assign.
        rec = None
        for r in recs:
            if r[0] in ("from", "import", "def", "class"):
                rec = r
                break
        if rec is None:
            rec = recs[-1]
        kind = rec[0]
        if kind == "import":
            if rec[1] in self.modules:
                return ModRef(rec[1])
            return Ref(rec[1])
        if kind == "from":
            base, attr = rec[1], rec[2]
            full = f"{base}.{attr}" if base else attr
            if full in self.modules:
                return ModRef(full)
            if base in self.modules:
                r = self.resolve_global(self.modules[base], attr, _depth + 1)
                if r is not None:
                    return r
                return None
            return Ref(full)
        if kind in ("def", "class"):
            return DefRef(f"{module.modname}.{name}", rec[1])
        if kind == "assign":
            val = rec[1]
            if val is None:
                return None
            # alias of another global?  (IPAddress = ipaddress)
            if isinstance(val, ast.Name):
                r = self.resolve_global(module, val.id, _depth + 1)
                if (isinstance(r, DefRef) and r.node._module is module and r.node.lineno > rec[2].lineno
                        and val.id in BUILTIN_NAMES):
                    # `bytes_type = bytes` executed before `class bytes(...)` is defined: the builtin is meant
                    return Ref(f"builtins.{val.id}")
                if r is not None and not (isinstance(r, tuple)):
                    return r
            if isinstance(val, ast.Attribute):
                r = self.resolve_expr(module, val)
                if isinstance(r, (DefRef, ModRef, Ref)):
                    return r
            return ("value", val, module)
        return None

    def resolve_expr(self, module: Module, expr, local: Optional[dict] = None):
        """Resolve Name / dotted Attribute to DefRef/ModRef/Ref/('value',..)/None. `local` maps names to results."""
        if isinstance(expr, ast.Name):
            if local and expr.id in local:
                return local[expr.id]
            r = self.resolve_global(module, expr.id)
            if r is None and expr.id in BUILTIN_NAMES:
                return Ref(f"builtins.{expr.id}")
            return r
        if isinstance(expr, ast.Attribute):
            base = self.resolve_expr(module, expr.value, local)
            if isinstance(base, ModRef):
                full = f"{base.modname}.{expr.attr}"
                if full in self.modules:
                    return ModRef(full)
                return self.resolve_global(self.modules[base.modname], expr.attr)
            if isinstance(base, Ref):
                return Ref(f"{base.name}.{expr.attr}")
            if isinstance(base, DefRef) and isinstance(base.node, ast.ClassDef):
                m = self.class_attr(base, expr.attr)
                if m is not None:
                    return m
            return None
        return None

    # -- classes --------------------------------------------------------------------
    def all_classes(self) -> dict[str, ast.ClassDef]:
        if self._class_index is None:
            idx = {}
            for m in self.modules.values():
                for node in ast.walk(m.tree):
                    if isinstance(node, ast.ClassDef):
                        idx[qualname_of(node)] = node
            self._class_index = idx
        return self._class_index

    def bases(self, cls: ast.ClassDef) -> list:
        """Resolved bases: DefRef for package classes, Ref for others."""
        out = []
        m = cls._module
        for b in cls.bases:
            if isinstance(b, ast.Call) and isinstance(b.func, ast.Name) and b.func.id == "with_metaclass":
                # with_metaclass(Meta, *bases)
                for bb in b.args[1:]:
                    r = self.resolve_expr(m, bb)
                    out.append(r if r is not None else Ref(ast.unparse(bb)))
                continue
            r = self.resolve_expr(m, b)
            if isinstance(r, DefRef) and r.node is cls:
                # `class float(float, FieldType)`: at class-creation time the name still means the builtin
                r = Ref(f"builtins.{ast.unparse(b)}")
            if isinstance(r, tuple) and r[0] == "value":
                # alias like string_type = str
                rr = self.resolve_expr(r[2], r[1])
                r = rr if rr is not None else Ref(ast.unparse(r[1]))
            out.append(r if r is not None else Ref(ast.unparse(b)))
        return out

    def mro(self, cls: ast.ClassDef) -> list:
        """Linearisation (C3 where possible; falls back to depth-first left-to-right, duplicates removed keeping the last)."""
        seqs = []
        bases = self.bases(cls)
        for b in bases:
            if isinstance(b, DefRef) and isinstance(b.node, ast.ClassDef):
                seqs.append(self.mro(b.node))
            else:
                seqs.append([b])
        seqs.append([(DefRef(qualname_of(x.node), x.node) if isinstance(x, DefRef) else x) for x in bases])
        result = [DefRef(qualname_of(cls), cls)]
        seqs = [list(s) for s in seqs if s]
        while seqs:
            cand = None
            for s in seqs:
                c = s[0]
                if not any(c in t[1:] for t in seqs):
                    cand = c
                    break
            if cand is None:
                # inconsistent: fall back
                for s in seqs:
                    for c in s:
                        if c not in result:
                            result.append(c)
                break
            result.append(cand)
            seqs = [[x for x in s if x != cand] for s in seqs]
            seqs = [s for s in seqs if s]
        return result

    def class_attr(self, cls: DefRef | ast.ClassDef, name: str):
        """Look `name` up along the MRO of a package class: DefRef of the method, ('value', node, module) for
        class-level assignments, Ref('<base>.<name>') when it can only come from a non-package base."""
        node = cls.node if isinstance(cls, DefRef) else cls
        for c in self.mro(node):
            if isinstance(c, DefRef):
                for st in c.node.body:
                    if isinstance(st, (ast.FunctionDef, ast.AsyncFunctionDef)) and st.name == name:
                        pass
                found = None
                for st in c.node.body:
                    if isinstance(st, (ast.FunctionDef, ast.AsyncFunctionDef, ast.ClassDef)) and st.name == name:
                        found = DefRef(f"{c.qualname}.{name}", st)
                    elif isinstance(st, ast.Assign):
                        for t in st.targets:
                            for n, v in _assign_pairs(t, st.value):
                                if n == name:
                                    found = ("value", v if v is not None else st.value, c.node._module)
                            # chained: a = b = None
                    elif isinstance(st, ast.AnnAssign) and isinstance(st.target, ast.Name) and st.target.id == name:
                        if st.value is not None:
                            found = ("value", st.value, c.node._module)
                if found is not None:
                    return found
            else:
                if has_external_attr(c, name):
                    return Ref(f"{c.name}.{name}")
        return None

    def methods_of(self, cls: ast.ClassDef) -> dict[str, ast.FunctionDef]:
        out = {}
        for st in cls.body:
            if isinstance(st, (ast.FunctionDef, ast.AsyncFunctionDef)):
                out[st.name] = st
        return out

    def subclasses(self, cls: ast.ClassDef, strict=True) -> list[ast.ClassDef]:
        if self._subclasses is None:
            sub: dict[str, list] = {}
            for qn, c in self.all_classes().items():
                for b in self.bases(c):
                    if isinstance(b, DefRef):
                        sub.setdefault(b.qualname, []).append(c)
            self._subclasses = sub
        out = []
        seen = set()
        stack = [cls]
        while stack:
            c = stack.pop()
            for s in self._subclasses.get(qualname_of(c), []):
                if id(s) not in seen:
                    seen.add(id(s))
                    out.append(s)
                    stack.append(s)
        if not strict:
            out.insert(0, cls)
        return out

    def is_subclass(self, cls: ast.ClassDef, base_qualname_or_ext: str) -> bool:
        for c in self.mro(cls):
            if isinstance(c, DefRef) and c.qualname == base_qualname_or_ext:
                return True
            if isinstance(c, Ref) and c.name in (base_qualname_or_ext, f"builtins.{base_qualname_or_ext}"):
                return True
        return False

    # -- constant folding -------------------------------------------------------------
    def fold(self, module: Module, expr, env: Optional[dict] = None, _depth=0):
        """Evaluate a constant expression. Raises NotConst when it is not one. `env` gives values for local names."""
        if _depth > 40:
            raise NotConst("depth")
        f = lambda e: self.fold(module, e, env, _depth + 1)  # noqa: E731
        if isinstance(expr, ast.Constant):
            return expr.value
        if isinstance(expr, ast.Name):
            if env is not None and expr.id in env:
                return env[expr.id]
            r = self.resolve_global(module, expr.id)
            if r is None:
                if expr.id in BUILTIN_NAMES:
                    return Ref(f"builtins.{expr.id}")
                raise NotConst(expr.id)
            return self._fold_resolved(r, _depth)
        if isinstance(expr, ast.Attribute):
            r = self.resolve_expr(module, expr)
            if r is not None:
                return self._fold_resolved(r, _depth)
            if expr.attr == "size":
                try:
                    base = f(expr.value)
                except NotConst:
                    base = None
                if isinstance(base, StructConst):
                    return base.size
            raise NotConst(ast.unparse(expr))
        if isinstance(expr, ast.Tuple):
            return tuple(self._fold_elts(module, expr.elts, env, _depth))
        if isinstance(expr, ast.List):
            return list(self._fold_elts(module, expr.elts, env, _depth))
        if isinstance(expr, ast.Set):
            return frozenset(self._fold_elts(module, expr.elts, env, _depth))
        if isinstance(expr, ast.Dict):
            d = {}
            for k, v in zip(expr.keys, expr.values):
                if k is None:
                    sub = f(v)
                    if not isinstance(sub, dict):
                        raise NotConst("**")
                    d.update(sub)
                else:
                    d[f(k)] = f(v)
            return d
        if isinstance(expr, ast.Lambda):
            return LambdaRef(expr, module)
        if isinstance(expr, ast.JoinedStr):
            out = []
            for v in expr.values:
                if isinstance(v, ast.Constant):
                    out.append(str(v.value))
                elif isinstance(v, ast.FormattedValue) and v.format_spec is None and v.conversion == -1:
                    out.append(str(f(v.value)))
                else:
                    raise NotConst("fstring")
            return "".join(out)
        if isinstance(expr, ast.UnaryOp):
            v = f(expr.operand)
            try:
                if isinstance(expr.op, ast.USub):
                    return -v
                if isinstance(expr.op, ast.UAdd):
                    return +v
                if isinstance(expr.op, ast.Not):
                    return not v
                if isinstance(expr.op, ast.Invert):
                    return ~v
            except Exception as e:
                raise NotConst(str(e))
        if isinstance(expr, ast.BinOp):
            a, b = f(expr.left), f(expr.right)
            if isinstance(a, (Ref, DefRef, LambdaRef)) or isinstance(b, (Ref, DefRef, LambdaRef)):
                raise NotConst("ref arithmetic")
            import operator as op

            table = {
                ast.Add: op.add, ast.Sub: op.sub, ast.Mult: op.mul, ast.FloorDiv: op.floordiv, ast.Mod: op.mod,
                ast.Pow: op.pow, ast.LShift: op.lshift, ast.RShift: op.rshift, ast.BitOr: op.or_, ast.BitAnd: op.and_,
                ast.BitXor: op.xor, ast.Div: op.truediv,
            }
            fn = table.get(type(expr.op))
            if fn is None:
                raise NotConst("op")
            try:
                if isinstance(expr.op, ast.Pow) and isinstance(b, int) and abs(b) > 4096:
                    raise NotConst("pow")
                return fn(a, b)
            except NotConst:
                raise
            except Exception as e:
                raise NotConst(str(e))
        if isinstance(expr, ast.BoolOp):
            vals = [f(v) for v in expr.values]
            r = vals[0]
            for v in vals[1:]:
                r = (r and v) if isinstance(expr.op, ast.And) else (r or v)
            return r
        if isinstance(expr, ast.Compare) and len(expr.ops) == 1:
            a, b = f(expr.left), f(expr.comparators[0])
            import operator as op

            table = {ast.Eq: op.eq, ast.NotEq: op.ne, ast.Lt: op.lt, ast.LtE: op.le, ast.Gt: op.gt, ast.GtE: op.ge}
            fn = table.get(type(expr.ops[0]))
            if fn is None:
                raise NotConst("cmp")
            try:
                return fn(a, b)
            except Exception as e:
                raise NotConst(str(e))
        if isinstance(expr, ast.Subscript):
            v = f(expr.value)
            if isinstance(v, (Ref, DefRef)):
                raise NotConst("subscript of ref")
            try:
                if isinstance(expr.slice, ast.Slice):
                    lo = f(expr.slice.lower) if expr.slice.lower else None
                    hi = f(expr.slice.upper) if expr.slice.upper else None
                    st = f(expr.slice.step) if expr.slice.step else None
                    return v[lo:hi:st]
                return v[f(expr.slice)]
            except NotConst:
                raise
            except Exception as e:
                raise NotConst(str(e))
        if isinstance(expr, ast.IfExp):
            return f(expr.body) if f(expr.test) else f(expr.orelse)
        if isinstance(expr, ast.Starred):
            raise NotConst("starred")
        if isinstance(expr, ast.Call):
            return self._fold_call(module, expr, env, _depth)
        raise NotConst(type(expr).__name__)

    def _fold_elts(self, module, elts, env, _depth):
        out = []
        for e in elts:
            if isinstance(e, ast.Starred):
                v = self.fold(module, e.value, env, _depth + 1)
                out.extend(list(v))
            else:
                out.append(self.fold(module, e, env, _depth + 1))
        return out

    def _fold_resolved(self, r, _depth):
        if isinstance(r, (Ref, DefRef, ModRef)):
            return r
        if isinstance(r, tuple) and r[0] == "value":
            return self.fold(r[2], r[1], None, _depth + 1)
        raise NotConst("unresolved")

    def _fold_call(self, module, expr: ast.Call, env, _depth):
        f = lambda e: self.fold(module, e, env, _depth + 1)  # noqa: E731
        fn = None
        try:
            fn = f(expr.func)
        except NotConst:
            # method call on a constant: "a".join(...), b.encode() ...
            if isinstance(expr.func, ast.Attribute):
                recv = f(expr.func.value)
                if isinstance(recv, (str, bytes, tuple, list, dict, frozenset, int)) and not expr.keywords:
                    meth = expr.func.attr
                    if meth in SAFE_METHODS:
                        args = [f(a) for a in expr.args]
                        try:
                            return getattr(recv, meth)(*args)
                        except Exception as e:
                            raise NotConst(str(e))
            raise
        if isinstance(fn, Ref):
            name = fn.name
            args = lambda: [f(a) for a in expr.args]  # noqa: E731
            kwargs = lambda: {k.arg: f(k.value) for k in expr.keywords if k.arg}  # noqa: E731
            if name in ("builtins.len",):
                return len(args()[0])
            if name in ("builtins.tuple", "builtins.list", "builtins.set", "builtins.frozenset", "builtins.dict",
                        "builtins.str", "builtins.int", "builtins.bytes", "builtins.bool", "builtins.sorted",
                        "builtins.min", "builtins.max", "builtins.sum", "builtins.abs"):
                a = args()
                if any(isinstance(x, (Ref, DefRef)) for x in a):
                    raise NotConst("ref arg")
                import builtins

                fnobj = getattr(builtins, name.split(".")[1])
                if fnobj is set:
                    fnobj = frozenset
                try:
                    return fnobj(*a, **kwargs())
                except Exception as e:
                    raise NotConst(str(e))
            if name in ("collections.OrderedDict", "OrderedDict"):
                a = args()
                try:
                    return dict(*a, **kwargs())  # dicts keep insertion order
                except Exception as e:
                    raise NotConst(str(e))
            if name in ("functools.partial", "partial"):
                a = args()
                return PartialRef(a[0], tuple(a[1:]), tuple(sorted(kwargs().items())))
            if name == "re.compile":
                a = args()
                return RegexConst(a[0], a[1] if len(a) > 1 else kwargs().get("flags", 0))
            if name == "struct.calcsize":
                import struct

                return struct.calcsize(args()[0])
            if name == "struct.Struct":
                return StructConst(args()[0])
            raise NotConst(f"call {name}")
        raise NotConst("call")


@dataclass(frozen=True)
class RegexConst:
    pattern: Any
    flags: Any = 0


@dataclass(frozen=True)
class StructConst:
    """struct.Struct(fmt) object bound to a constant name."""

    fmt: Any

    @property
    def size(self):
        import struct

        return struct.calcsize(self.fmt)


SAFE_METHODS = {
    "join", "split", "rsplit", "encode", "decode", "lower", "upper", "strip", "lstrip", "rstrip", "replace", "format",
    "startswith", "endswith", "keys", "values", "items", "get", "copy", "count", "index", "title", "partition",
    "rpartition", "bit_length",
}

import builtins as _b  # noqa: E402

BUILTIN_NAMES = set(dir(_b))


def has_external_attr(ref: Ref, name: str) -> bool:
    """Best effort: does the stdlib class named by `ref` define `name`? Uses the *running* interpreter's stdlib class
    (never flow.record). Unknown classes -> False."""
    obj = external_object(ref)
    if obj is None:
        return False
    return hasattr(obj, name)


def external_object(ref: Ref):
    name = ref.name
    parts = name.split(".")
    if parts[0] == "builtins":
        return getattr(_b, parts[1], None) if len(parts) == 2 else None
    allowed_roots = {"datetime", "pathlib", "abc", "collections", "ipaddress", "operator", "io"}
    if parts[0] not in allowed_roots:
        return None
    import importlib

    try:
        obj = importlib.import_module(parts[0])
        for p in parts[1:]:
            obj = getattr(obj, p)
        return obj
    except Exception:
        return None


# --------------------------------------------------------------------------- small AST helpers


def _body_defs(node):
    body = getattr(node, "body", [])
    for st in body:
        if isinstance(st, (ast.FunctionDef, ast.AsyncFunctionDef, ast.ClassDef)):
            yield st
        elif isinstance(st, (ast.If, ast.Try, ast.With, ast.For, ast.While)):
            # defs nested in module-level control flow
            for sub in ast.iter_child_nodes(st):
                if isinstance(sub, (ast.FunctionDef, ast.AsyncFunctionDef, ast.ClassDef)):
                    yield sub
            for attr in ("body", "orelse", "finalbody"):
                for s2 in getattr(st, attr, []) or []:
                    if isinstance(s2, (ast.FunctionDef, ast.AsyncFunctionDef, ast.ClassDef)):
                        yield s2
            for h in getattr(st, "handlers", []) or []:
                for s2 in h.body:
                    if isinstance(s2, (ast.FunctionDef, ast.AsyncFunctionDef, ast.ClassDef)):
                        yield s2


def qualname_of(node) -> str:
    parts = []
    n = node
    while n is not None:
        if isinstance(n, (ast.FunctionDef, ast.AsyncFunctionDef, ast.ClassDef)):
            parts.append(n.name)
        n = getattr(n, "_parent", None)
    return f"{node._module.modname}." + ".".join(reversed(parts))


def enclosing(node, kinds):
    n = getattr(node, "_parent", None)
    while n is not None and not isinstance(n, kinds):
        n = getattr(n, "_parent", None)
    return n


def enclosing_function(node):
    return enclosing(node, (ast.FunctionDef, ast.AsyncFunctionDef, ast.Lambda))


def enclosing_class(node):
    n = getattr(node, "_parent", None)
    while n is not None:
        if isinstance(n, ast.ClassDef):
            return n
        if isinstance(n, (ast.FunctionDef, ast.AsyncFunctionDef)):
            # method -> its class, nested function -> keep climbing
            pass
        n = getattr(n, "_parent", None)
    return None


def enclosing_stmt(node):
    n = node
    while n is not None and not isinstance(n, ast.stmt):
        n = getattr(n, "_parent", None)
    return n


def walk_no_nested(node, include_lambdas=True) -> Iterator[Any]:
    """ast.walk that does not descend into nested function/class definitions (lambdas optional)."""
    stack = [node]
    first = True
    while stack:
        n = stack.pop()
        if not first and isinstance(n, (ast.FunctionDef, ast.AsyncFunctionDef, ast.ClassDef)):
            continue
        if not first and not include_lambdas and isinstance(n, ast.Lambda):
            continue
        first = False
        yield n
        stack.extend(reversed(list(ast.iter_child_nodes(n))))


def dotted(expr) -> Optional[str]:
    """'a.b.c' for Name/Attribute chains, else None."""
    parts = []
    while isinstance(expr, ast.Attribute):
        parts.append(expr.attr)
        expr = expr.value
    if isinstance(expr, ast.Name):
        parts.append(expr.id)
        return ".".join(reversed(parts))
    return None


def is_self_attr(expr, attr: Optional[str] = None, selfname="self") -> bool:
    return (
        isinstance(expr, ast.Attribute)
        and isinstance(expr.value, ast.Name)
        and expr.value.id == selfname
        and (attr is None or expr.attr == attr)
    )


def norm(node) -> str:
    """Normalised source text of a node (used for keys, never for decisions about behaviour)."""
    try:
        return ast.unparse(node)
    except Exception:
        return type(node).__name__


def names_in(node) -> set[str]:
    return {n.id for n in ast.walk(node) if isinstance(n, ast.Name)}


def calls_in(node, nested=False) -> list[ast.Call]:
    it = ast.walk(node) if nested else walk_no_nested(node)
    return [n for n in it if isinstance(n, ast.Call)]


def call_name(call: ast.Call) -> Optional[str]:
    return dotted(call.func)


def get_kw(call: ast.Call, name: str):
    for k in call.keywords:
        if k.arg == name:
            return k.value
    return None


def func_params(fn) -> list[str]:
    a = fn.args
    out = [x.arg for x in a.posonlyargs + a.args]
    if a.vararg:
        out.append(a.vararg.arg)
    out += [x.arg for x in a.kwonlyargs]
    if a.kwarg:
        out.append(a.kwarg.arg)
    return out


def enclosing_conditions(node, stop=None):
    """[(normalised test, polarity)] of the If/While statements syntactically enclosing `node` (outermost first), up to `stop`."""
    out = []
    child = node
    n = getattr(node, "_parent", None)
    while n is not None and n is not stop:
        if isinstance(n, (ast.If, ast.While)):
            if any(child is x for x in n.body):
                out.append((norm(n.test), True))
            elif any(child is x for x in n.orelse):
                out.append((norm(n.test), False))
        child = n
        n = getattr(n, "_parent", None)
    return list(reversed(out))


def single_assign_aliases(fn) -> dict:
    """Locals of `fn` assigned exactly once (plain `name = <expr>`, not in a loop target / augmented) -> value node."""
    counts: dict = {}
    vals: dict = {}
    for st in walk_no_nested(fn):
        if isinstance(st, ast.Assign):
            for t in st.targets:
                for n in ast.walk(t):
                    if isinstance(n, ast.Name) and isinstance(n.ctx, ast.Store):
                        counts[n.id] = counts.get(n.id, 0) + 1
                        if isinstance(t, ast.Name) and len(st.targets) == 1:
                            vals[n.id] = st.value
        elif isinstance(st, (ast.AugAssign, ast.AnnAssign)):
            for n in ast.walk(st.target):
                if isinstance(n, ast.Name) and isinstance(n.ctx, ast.Store):
                    counts[n.id] = counts.get(n.id, 0) + 2
        elif isinstance(st, (ast.For, ast.comprehension)):
            for n in ast.walk(st.target):
                if isinstance(n, ast.Name) and isinstance(n.ctx, ast.Store):
                    counts[n.id] = counts.get(n.id, 0) + 2
        elif isinstance(st, (ast.With,)):
            for it in st.items:
                if it.optional_vars is not None:
                    for n in ast.walk(it.optional_vars):
                        if isinstance(n, ast.Name):
                            counts[n.id] = counts.get(n.id, 0) + 2
    params = set(func_params(fn)) if isinstance(fn, (ast.FunctionDef, ast.AsyncFunctionDef)) else set()
    # a local that is filled in place (x[k] = v, x.attr = v) names an object under construction, not an expression
    mutated = set()
    for st in walk_no_nested(fn):
        tg = st.targets if isinstance(st, ast.Assign) else ([st.target] if isinstance(st, (ast.AugAssign, ast.AnnAssign)) else [])
        for t in tg:
            for sub in ast.walk(t):
                if isinstance(sub, (ast.Subscript, ast.Attribute)) and isinstance(sub.ctx, ast.Store):
                    root = sub
                    while isinstance(root, (ast.Subscript, ast.Attribute)):
                        root = root.value
                    if isinstance(root, ast.Name):
                        mutated.add(root.id)
    return {k: v for k, v in vals.items() if counts.get(k) == 1 and k not in params and k not in mutated}


def copy_ast(node):
    """Structural copy of an AST (fields and positions only; analysis back-links such as _parent are not followed)."""
    if isinstance(node, list):
        return [copy_ast(x) for x in node]
    if not isinstance(node, ast.AST):
        return node
    new = node.__class__()
    for f in node._fields:
        if hasattr(node, f):
            setattr(new, f, copy_ast(getattr(node, f)))
    for a in ("lineno", "col_offset", "end_lineno", "end_col_offset"):
        if hasattr(node, a):
            setattr(new, a, getattr(node, a))
    return new


def expand_aliases(expr, aliases: dict, depth: int = 0):
    """Copy of `expr` with single-assignment local names replaced by their defining expressions (transitively)."""
    import copy

    class T(ast.NodeTransformer):
        def visit_Name(self, node):
            if isinstance(node.ctx, ast.Load) and node.id in aliases and depth < 6:
                return expand_aliases(aliases[node.id], aliases, depth + 1)
            return node

    return T().visit(copy_ast(expr))


def enclosing_conditions_expanded(node, fn):
    """enclosing_conditions with tests rewritten through single-assignment local aliases."""
    aliases = single_assign_aliases(fn)
    out = []
    child = node
    n = getattr(node, "_parent", None)
    while n is not None and n is not fn:
        if isinstance(n, (ast.If, ast.While)):
            t = norm(expand_aliases(n.test, aliases))
            if any(child is x for x in n.body):
                out.append((t, True))
            elif any(child is x for x in n.orelse):
                out.append((t, False))
        child = n
        n = getattr(n, "_parent", None)
    return list(reversed(out))


def dict_bindings(fn, expr, _depth=0):
    """Abstractly evaluate how a dict value is built inside `fn`: returns (bases, bindings, copied) where bases are the
    expressions whose items are copied in, bindings maps constant string keys to value expressions, and `copied` tells
    whether the dict is a fresh object (copy / dict(...) / display) rather than an alias of a base.
    Understands  X.copy(), dict(X), dict(X, k=v), {**X, 'k': v}, {...}, d.update({...}), d.update(k=v), d['k'] = v."""
    bases, bindings = [], {}
    copied = False
    name = None

    def absorb(e):
        nonlocal copied
        if isinstance(e, ast.Dict):
            copied = True
            for k, v in zip(e.keys, e.values):
                if k is None:
                    bases.append(v)
                elif isinstance(k, ast.Constant):
                    bindings[k.value] = v
            return True
        if isinstance(e, ast.Call):
            cn = call_name(e)
            if cn == "dict":
                copied = True
                for a in e.args:
                    if isinstance(a, ast.Dict):
                        absorb(a)
                    else:
                        bases.append(a)
                for k in e.keywords:
                    if k.arg is None:
                        bases.append(k.value)
                    else:
                        bindings[k.arg] = k.value
                return True
            if isinstance(e.func, ast.Attribute) and e.func.attr == "copy" and not e.args:
                copied = True
                bases.append(e.func.value)
                return True
            if cn in ("copy.copy", "copy.deepcopy") and e.args:
                copied = True
                bases.append(e.args[0])
                return True
        return False

    if isinstance(expr, ast.Name):
        name = expr.id
        defs = [st for st in walk_no_nested(fn) if isinstance(st, ast.Assign) and any(isinstance(t, ast.Name) and t.id == name for t in st.targets)]
        for d in defs:
            if isinstance(d.value, ast.Name) and d.value.id != name and _depth < 4 and any(
                    isinstance(st, ast.Assign) and any(isinstance(t, ast.Name) and t.id == d.value.id for t in st.targets) for st in walk_no_nested(fn)):
                # a plain copy of another local that is itself built up as a dict: same object
                b2, bi2, c2 = dict_bindings(fn, d.value, _depth + 1)
                bases.extend(b2)
                bindings.update(bi2)
                copied = copied or c2
                continue
            if not absorb(d.value):
                bases.append(d.value)
        for n in walk_no_nested(fn):
            if isinstance(n, ast.Call) and isinstance(n.func, ast.Attribute) and n.func.attr == "update" and isinstance(n.func.value, ast.Name) and n.func.value.id == name:
                for a in n.args:
                    if isinstance(a, ast.Dict):
                        for k, v in zip(a.keys, a.values):
                            if k is None:
                                bases.append(v)
                            elif isinstance(k, ast.Constant):
                                bindings[k.value] = v
                    else:
                        bases.append(a)
                for k in n.keywords:
                    if k.arg is not None:
                        bindings[k.arg] = k.value
            if isinstance(n, ast.Subscript) and isinstance(n.ctx, ast.Store) and isinstance(n.value, ast.Name) and n.value.id == name and isinstance(n.slice, ast.Constant):
                par = getattr(n, "_parent", None)
                if isinstance(par, ast.Assign):
                    bindings[n.slice.value] = par.value
    else:
        if not absorb(expr):
            bases.append(expr)
    return bases, bindings, copied


def expr_conditions(node):
    """Conditions guarding the evaluation of an expression inside its statement: [(test expr, polarity)] from enclosing
    conditional expressions (a if T else b), short-circuit operators (x and <node>, x or <node>) and comprehension ifs."""
    out = []
    child = node
    n = getattr(node, "_parent", None)
    while n is not None and not isinstance(n, ast.stmt):
        if isinstance(n, ast.IfExp):
            if child is n.body:
                out.append((n.test, True))
            elif child is n.orelse:
                out.append((n.test, False))
        elif isinstance(n, ast.BoolOp):
            idx = next((i for i, v in enumerate(n.values) if v is child), None)
            if idx:
                for prev in n.values[:idx]:
                    out.append((prev, isinstance(n.op, ast.And)))
        elif isinstance(n, (ast.ListComp, ast.GeneratorExp, ast.SetComp, ast.DictComp)):
            if child is getattr(n, "elt", None) or child is getattr(n, "key", None) or child is getattr(n, "value", None):
                for g in n.generators:
                    for c in g.ifs:
                        out.append((c, True))
        child = n
        n = getattr(n, "_parent", None)
    return out


def element_positions(loop) -> dict:
    """For a loop (ast.For / ast.comprehension) over tuples: local name -> tuple position it holds.  Understands a tuple target,
    `a, b = item`, `a = item[0]` and `a, b = item[0], item[1]` for a single-name target."""
    pos = {}
    tgt = loop.target
    if isinstance(tgt, (ast.Tuple, ast.List)):
        for k, t in enumerate(tgt.elts):
            if isinstance(t, ast.Name):
                pos[t.id] = k
        return pos
    if not isinstance(tgt, ast.Name):
        return pos
    item = tgt.id
    body = loop.body if isinstance(loop, ast.For) else []

    def idx(e):
        if isinstance(e, ast.Subscript) and isinstance(e.value, ast.Name) and e.value.id == item and isinstance(e.slice, ast.Constant) and isinstance(e.slice.value, int):
            return e.slice.value
        return None

    for st in body:
        for a in ast.walk(st):
            if not isinstance(a, ast.Assign) or len(a.targets) != 1:
                continue
            t, v = a.targets[0], a.value
            if isinstance(t, (ast.Tuple, ast.List)) and isinstance(v, ast.Name) and v.id == item:
                for k, x in enumerate(t.elts):
                    if isinstance(x, ast.Name):
                        pos[x.id] = k
            elif isinstance(t, (ast.Tuple, ast.List)) and isinstance(v, (ast.Tuple, ast.List)) and len(t.elts) == len(v.elts):
                for x, y in zip(t.elts, v.elts):
                    if isinstance(x, ast.Name) and idx(y) is not None:
                        pos[x.id] = idx(y)
            elif isinstance(t, ast.Name) and idx(v) is not None:
                pos[t.id] = idx(v)
    return pos


def isinstance_alternatives(test, var: str):
    """Class expressions C1..Cn when `test` is isinstance(var, C), isinstance(var, (C1, .., Cn)) or an `or` of such tests; else None."""
    if isinstance(test, ast.Call) and call_name(test) == "isinstance" and len(test.args) == 2 and norm(test.args[0]) == var:
        t = test.args[1]
        return list(t.elts) if isinstance(t, ast.Tuple) else [t]
    if isinstance(test, ast.BoolOp) and isinstance(test.op, ast.Or):
        out = []
        for v in test.values:
            a = isinstance_alternatives(v, var)
            if a is None:
                return None
            out += a
        return out
    return None


def ordkey(node):
    """Position of a node in the analysed (inlined, normalised) tree; use this, not lineno, to ask what comes first."""
    o = getattr(node, "_ord", None)
    return (0, o, 0) if o is not None else (1, getattr(node, "lineno", 0), getattr(node, "col_offset", 0))
