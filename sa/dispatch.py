"""Static model of Python's comparison / membership dispatch, evaluated over the *source* of the classes involved.

Outcomes: "False", "True", "NotImplemented", ("Raise", exc), "Value" (a definite, non-NotImplemented value of unknown
truth), "Unknown".  The operand that is not `self` is always a FOREIGN object: an instance of the sentinel class,
unrelated to every other class.
"""
from __future__ import annotations

import ast
from typing import Optional

from .core import (AnalysisError, DefRef, ModRef, NotConst, Program, Ref, call_name, dotted, external_object, func_params, norm,
                   qualname_of)

FALSE, TRUE, NOTIMPL, VALUE, UNKNOWN = "False", "True", "NotImplemented", "Value", "Unknown"


def Raise(exc):
    return ("Raise", exc)


def is_raise(o):
    return isinstance(o, tuple) and o[0] == "Raise"


REFLECT = {"__eq__": "__eq__", "__ne__": "__ne__", "__lt__": "__gt__", "__gt__": "__lt__", "__le__": "__ge__", "__ge__": "__le__"}
OPS = {"==": "__eq__", "!=": "__ne__", "<": "__lt__", "<=": "__le__", ">": "__gt__", ">=": "__ge__"}

# ---- trusted data-model table: builtin classes applied to a FOREIGN operand ------------------------------------
# rich comparisons of every builtin below return NotImplemented for an operand of an unrelated class
BUILTIN_CMP_NOTIMPL = {
    "builtins.int", "builtins.float", "builtins.bool", "builtins.str", "builtins.bytes", "builtins.NoneType",
    "builtins.list", "builtins.tuple", "builtins.object", "datetime.datetime", "pathlib.PurePath",
    "pathlib.PurePosixPath", "pathlib.PureWindowsPath", "builtins.dict", "builtins.set", "builtins.frozenset",
}
# x in <container>: what the container does with a foreign x
BUILTIN_CONTAINS = {
    "builtins.str": Raise("TypeError"),  # 'in <string>' requires string as left operand
    "builtins.bytes": Raise("TypeError"),  # a bytes-like object is required
    "builtins.list": "ELEMENTWISE",  # any(e is x or e == x)
    "builtins.tuple": "ELEMENTWISE",
    "builtins.int": Raise("TypeError"),  # argument of type 'int' is not iterable
    "builtins.float": Raise("TypeError"),
    "builtins.bool": Raise("TypeError"),
    "builtins.NoneType": Raise("TypeError"),
    "builtins.object": Raise("TypeError"),
    "datetime.datetime": Raise("TypeError"),
    "pathlib.PurePath": Raise("TypeError"),
    "pathlib.PurePosixPath": Raise("TypeError"),
    "pathlib.PureWindowsPath": Raise("TypeError"),
}
# external callables applied to a FOREIGN argument
EXTERNAL_CALL_ON_FOREIGN = {
    "ipaddress.ip_address": Raise("ValueError"),
    "ipaddress.ip_network": Raise("ValueError"),
    "socket.inet_aton": Raise("TypeError"),
    "socket.inet_ntoa": Raise("TypeError"),
    "builtins.int": Raise("TypeError"),
    "builtins.float": Raise("TypeError"),
    "builtins.len": Raise("TypeError"),  # unless the foreign class defines __len__ (handled by caller)
    "builtins.str": VALUE,
    "builtins.repr": VALUE,
    "builtins.bool": VALUE,
    "builtins.list": Raise("TypeError"),
    "builtins.tuple": Raise("TypeError"),
    "builtins.hash": Raise("TypeError"),
}
EXC_PARENTS = {
    "ValueError": "Exception", "TypeError": "Exception", "AttributeError": "Exception", "KeyError": "LookupError",
    "IndexError": "LookupError", "LookupError": "Exception", "Exception": "BaseException", "binascii.Error": "ValueError",
    "OSError": "Exception", "UnicodeDecodeError": "ValueError", "struct.error": "Exception", "NotImplementedError": "RuntimeError",
    "RuntimeError": "Exception",
}


def exc_matches(raised: str, handler_names: list[Optional[str]]) -> bool:
    for h in handler_names:
        if h is None:
            return True
        e = raised
        while e is not None:
            if e == h or e.split(".")[-1] == h.split(".")[-1]:
                return True
            e = EXC_PARENTS.get(e)
    return False


class ForeignEval:
    """Evaluate method `fn(self, other)` where `other` (and any value derived from it by plain binding) is FOREIGN."""

    def __init__(self, prog: Program, sentinel_cls: ast.ClassDef):
        self.prog = prog
        self.sentinel = sentinel_cls
        self.sentinel_q = qualname_of(sentinel_cls)
        self.trace: list[str] = []

    # -- class-level lookup ---------------------------------------------------------------
    def lookup(self, cls_ref, name):
        """Find `name` along the MRO of a package class. Returns ('src', FunctionDef, owner) or ('builtin', refname) or None."""
        if isinstance(cls_ref, DefRef):
            for c in self.prog.mro(cls_ref.node):
                if isinstance(c, DefRef):
                    m = self.prog.methods_of(c.node).get(name)
                    if m is not None:
                        return ("src", m, c)
                    # class-level alias  __ne__ = something
                    for st in c.node.body:
                        if isinstance(st, ast.Assign) and any(isinstance(t, ast.Name) and t.id == name for t in st.targets):
                            if isinstance(st.value, ast.Constant) and st.value.value is None:
                                return ("none", None, c)
                            if isinstance(st.value, ast.Name):
                                local = self.prog.methods_of(c.node).get(st.value.id)  # function defined in the class body
                                if local is not None:
                                    return ("src", local, c)
                            r = self.prog.resolve_expr(c.node._module, st.value)
                            if isinstance(r, DefRef) and isinstance(r.node, ast.FunctionDef):
                                return ("src", r.node, c)
                            raise AnalysisError(f"dispatch: class-level binding {c.qualname}.{name} = {norm(st.value)} not modelled")
                else:
                    if c.name == "builtins.object":
                        continue
                    obj = external_object(c)
                    if obj is None:
                        raise AnalysisError(f"dispatch: base class {c.name} is outside the data-model table")
                    if name in vars(obj):
                        return ("builtin", c.name)
            return ("builtin", "builtins.object")
        return ("builtin", cls_ref.name)

    def call_method(self, cls_ref, name, depth=0):
        """Outcome of type(x).name(x, FOREIGN) for x an instance of cls_ref."""
        found = self.lookup(cls_ref, name)
        if found[0] == "none":
            return Raise("TypeError")
        if found[0] == "src":
            return self.eval_function(found[1], cls_ref, foreign_params=None, depth=depth)
        bname = found[1]
        if name in REFLECT:
            if name == "__ne__" and isinstance(cls_ref, DefRef):
                # inherited object.__ne__: inverts __eq__ unless it is NotImplemented
                eq = self.lookup(cls_ref, "__eq__")
                if eq[0] == "src":
                    r = self.eval_function(eq[1], cls_ref, None, depth)
                    return {FALSE: TRUE, TRUE: FALSE, VALUE: VALUE}.get(r, r) if not is_raise(r) else r
            if bname in BUILTIN_CMP_NOTIMPL:
                return NOTIMPL
            raise AnalysisError(f"dispatch: builtin base {bname} is not in the data-model table")
        if name == "__contains__":
            if bname in BUILTIN_CONTAINS:
                return BUILTIN_CONTAINS[bname]
            raise AnalysisError(f"dispatch: builtin base {bname} has no __contains__ entry in the data-model table")
        raise AnalysisError(f"dispatch: method {name} not modelled")

    def has_method(self, cls_ref, name) -> bool:
        if isinstance(cls_ref, DefRef):
            for c in self.prog.mro(cls_ref.node):
                if isinstance(c, DefRef):
                    if name in self.prog.methods_of(c.node):
                        return True
                    for st in c.node.body:
                        if isinstance(st, ast.Assign) and any(isinstance(t, ast.Name) and t.id == name for t in st.targets):
                            return not (isinstance(st.value, ast.Constant) and st.value.value is None)
            return False
        return False

    # -- function bodies ------------------------------------------------------------------
    def eval_function(self, fn: ast.FunctionDef, cls_ref, foreign_params, depth=0):
        if depth > 6:
            return UNKNOWN
        params = func_params(fn)
        decos = {dotted(d) for d in fn.decorator_list}
        if foreign_params is None:
            # method: self + other
            foreign = set(params[1:2]) if "staticmethod" not in decos else set(params[1:2])
        else:
            foreign = set(foreign_params)
        env = {p: "FOREIGN" for p in foreign}
        r = self.block(fn.body, env, fn, cls_ref, depth)
        if r is None:
            return VALUE  # falls off the end: returns None (a definite, falsy value) -> treat as FALSE-ish
        return r

    def block(self, stmts, env, fn, cls_ref, depth):
        """Returns an outcome if the block certainly terminates the function, None if it falls through,
        or ('Maybe', [outcomes]) folded into UNKNOWN."""
        for st in stmts:
            r = self.stmt(st, env, fn, cls_ref, depth)
            if r is not None:
                return r
        return None

    def stmt(self, st, env, fn, cls_ref, depth):
        if isinstance(st, ast.Return):
            if st.value is None:
                return VALUE
            return self.expr_outcome(st.value, env, fn, cls_ref, depth)
        if isinstance(st, ast.Raise):
            name = None
            if st.exc is not None:
                name = dotted(st.exc.func) if isinstance(st.exc, ast.Call) else dotted(st.exc)
            return Raise(name or "Exception")
        if isinstance(st, ast.If):
            t = self.truth(st.test, env, fn, cls_ref, depth)
            if is_raise(t):
                return t
            if t is True:
                return self.block(st.body, env, fn, cls_ref, depth)
            if t is False:
                return self.block(st.orelse, env, fn, cls_ref, depth)
            a = self.block(st.body, dict(env), fn, cls_ref, depth)
            b = self.block(st.orelse, dict(env), fn, cls_ref, depth)
            if a is None and b is None:
                return None
            if a == b:
                return a
            return UNKNOWN
        if isinstance(st, ast.Try):
            r = self.block(st.body, env, fn, cls_ref, depth)
            if is_raise(r):
                for h in st.handlers:
                    names = [None] if h.type is None else (
                        [dotted(e) for e in h.type.elts] if isinstance(h.type, ast.Tuple) else [dotted(h.type)])
                    # resolve aliases such as binascii.Error
                    if exc_matches(r[1], names):
                        hr = self.block(h.body, env, fn, cls_ref, depth)
                        return hr
                return r
            return r
        if isinstance(st, ast.Assign):
            o = self.expr_outcome(st.value, env, fn, cls_ref, depth)
            if is_raise(o):
                return o
            for t in st.targets:
                if isinstance(t, ast.Name):
                    env[t.id] = "FOREIGN" if self.is_foreign(st.value, env) else "VAL"
            return None
        if isinstance(st, ast.Expr):
            o = self.expr_outcome(st.value, env, fn, cls_ref, depth)
            return o if is_raise(o) else None
        if isinstance(st, (ast.For, ast.While)):
            # loops over self's own data: the body may run zero times
            r = self.block(st.body, dict(env), fn, cls_ref, depth)
            if r is None:
                return None
            return UNKNOWN
        if isinstance(st, (ast.Pass,)):
            return None
        return UNKNOWN

    def is_foreign(self, e, env) -> bool:
        return isinstance(e, ast.Name) and env.get(e.id) == "FOREIGN"

    def truth(self, e, env, fn, cls_ref, depth):
        """True / False / None(unknown) / Raise."""
        if isinstance(e, ast.UnaryOp) and isinstance(e.op, ast.Not):
            t = self.truth(e.operand, env, fn, cls_ref, depth)
            return t if is_raise(t) or t is None else (not t)
        if isinstance(e, ast.BoolOp):
            vals = []
            for v in e.values:
                t = self.truth(v, env, fn, cls_ref, depth)
                if is_raise(t):
                    # short circuit may avoid it
                    if isinstance(e.op, ast.And) and any(x is False for x in vals):
                        return False
                    if isinstance(e.op, ast.Or) and any(x is True for x in vals):
                        return True
                    return t
                vals.append(t)
                if isinstance(e.op, ast.And) and t is False:
                    return False
                if isinstance(e.op, ast.Or) and t is True:
                    return True
            if all(v is True for v in vals):
                return True if isinstance(e.op, ast.And) else True
            if all(v is False for v in vals):
                return False
            return None
        if isinstance(e, ast.Call) and call_name(e) == "isinstance" and len(e.args) == 2:
            if self.is_foreign(e.args[0], env):
                return self.foreign_isinstance(e.args[1], fn)
            return None
        if isinstance(e, ast.Call) and call_name(e) in ("any", "all") and len(e.args) == 1 and isinstance(e.args[0], (ast.GeneratorExp, ast.ListComp)) \
                and len(e.args[0].generators) == 1 and isinstance(e.args[0].generators[0].iter, (ast.Tuple, ast.List)) \
                and isinstance(e.args[0].generators[0].target, ast.Name) and not e.args[0].generators[0].ifs:
            g = e.args[0].generators[0]
            vals = []
            for elt in g.iter.elts:
                env2 = dict(env)
                env2[g.target.id] = "FOREIGN" if self.is_foreign(elt, env) else "VAL"
                vals.append(self.truth(e.args[0].elt, env2, fn, cls_ref, depth))
            for v in vals:
                if is_raise(v):
                    return v
            if call_name(e) == "any":
                return True if any(v is True for v in vals) else (False if all(v is False for v in vals) else None)
            return False if any(v is False for v in vals) else (True if all(v is True for v in vals) else None)
        if isinstance(e, ast.Compare) and len(e.ops) == 1:
            l, r = e.left, e.comparators[0]
            if isinstance(e.ops[0], (ast.Is, ast.IsNot)):
                for a, b in ((l, r), (r, l)):
                    if self.is_foreign(a, env):
                        if isinstance(b, ast.Constant) and b.value is None:
                            return isinstance(e.ops[0], ast.IsNot)
                        rb = self.prog.resolve_expr(fn._module, b) if isinstance(b, (ast.Name, ast.Attribute)) else None
                        if isinstance(rb, tuple) and rb[0] == "value" and isinstance(rb[1], ast.Call):
                            rc = self.prog.resolve_expr(rb[2], rb[1].func)
                            if isinstance(rc, DefRef) and rc.node is self.sentinel:
                                return isinstance(e.ops[0], ast.Is)  # the singleton sentinel itself
                        return None
                return None
            if isinstance(e.ops[0], (ast.Eq, ast.NotEq)) and (self.is_foreign(l, env) or self.is_foreign(r, env)):
                # FOREIGN == x  -> sentinel __eq__ : handled by caller-level dispatch; here conservative
                o = self.expr_outcome(e, env, fn, cls_ref, depth)
                if is_raise(o):
                    return o
                return {TRUE: True, FALSE: False}.get(o)
        if isinstance(e, ast.Call) and call_name(e) in ("type",) and e.args and self.is_foreign(e.args[0], env):
            return None
        o = self.expr_outcome(e, env, fn, cls_ref, depth)
        if is_raise(o):
            return o
        if o == TRUE:
            return True
        if o == FALSE:
            return False
        return None

    def foreign_isinstance(self, tnode, fn):
        """isinstance(FOREIGN, T): True only if T is the sentinel class / object."""
        elts = tnode.elts if isinstance(tnode, ast.Tuple) else [tnode]
        unknown = False
        for t in elts:
            r = self.prog.resolve_expr(fn._module, t) if isinstance(t, (ast.Name, ast.Attribute)) else None
            if isinstance(r, tuple) and r[0] == "value":
                # alias constant (string_types = (str, type("")))
                try:
                    v = self.prog.fold(r[2], r[1])
                    items = v if isinstance(v, (tuple, list)) else [v]
                    if all(isinstance(i, Ref) for i in items):
                        if any(i.name == "builtins.object" for i in items):
                            return True
                        continue
                except NotConst:
                    pass
                # tuple containing calls such as type("")
                if isinstance(r[1], ast.Tuple):
                    continue
                unknown = True
                continue
            if isinstance(r, DefRef):
                if r.node is self.sentinel or r.node in [c.node for c in self.prog.mro(self.sentinel) if isinstance(c, DefRef)]:
                    return True
                continue
            if isinstance(r, Ref):
                if r.name == "builtins.object":
                    return True
                continue
            if isinstance(t, ast.Attribute) and dotted(t) in ("self.__class__",):
                continue
            unknown = True
        return None if unknown else False

    def expr_outcome(self, e, env, fn, cls_ref, depth):
        """Outcome of evaluating expression e as a *result* (for returns) - also used to detect raises."""
        if isinstance(e, ast.Constant):
            if e.value is True:
                return TRUE
            if e.value is False:
                return FALSE
            return VALUE
        if isinstance(e, ast.Name):
            if e.id == "NotImplemented":
                return NOTIMPL
            return VALUE
        if isinstance(e, ast.IfExp):
            t = self.truth(e.test, env, fn, cls_ref, depth)
            if is_raise(t):
                return t
            if t is True:
                return self.expr_outcome(e.body, env, fn, cls_ref, depth)
            if t is False:
                return self.expr_outcome(e.orelse, env, fn, cls_ref, depth)
            a = self.expr_outcome(e.body, env, fn, cls_ref, depth)
            b = self.expr_outcome(e.orelse, env, fn, cls_ref, depth)
            return a if a == b else UNKNOWN
        if isinstance(e, ast.BoolOp):
            outs = []
            for v in e.values:
                t = self.truth(v, env, fn, cls_ref, depth)
                if is_raise(t):
                    return t
                outs.append(t)
                if isinstance(e.op, ast.And) and t is False:
                    return FALSE if self.expr_outcome(v, env, fn, cls_ref, depth) == FALSE else VALUE
                if isinstance(e.op, ast.Or) and t is True:
                    return TRUE if self.expr_outcome(v, env, fn, cls_ref, depth) == TRUE else VALUE
            return VALUE if None in outs else self.expr_outcome(e.values[-1], env, fn, cls_ref, depth)
        if isinstance(e, ast.Call):
            return self.call_outcome(e, env, fn, cls_ref, depth)
        if isinstance(e, ast.Compare):
            # operands first (they may raise)
            for sub in [e.left] + list(e.comparators):
                o = self.expr_outcome(sub, env, fn, cls_ref, depth)
                if is_raise(o):
                    return o
            involved = [self.is_foreign(x, env) for x in [e.left] + list(e.comparators)]
            if any(involved) and len(e.ops) == 1 and isinstance(e.ops[0], tuple(CMP_AST)):
                # comparing some value with the FOREIGN sentinel: the sentinel answers False (checked separately in R8.2)
                return "SENTINEL-CMP"
            if any(involved) and len(e.ops) == 1 and isinstance(e.ops[0], (ast.In, ast.NotIn)):
                return UNKNOWN
            return VALUE
        if isinstance(e, ast.Attribute):
            if self.is_foreign(e.value, env):
                if self.prog.methods_of(self.sentinel).get("__getattr__"):
                    return VALUE
                return Raise("AttributeError")
            o = self.expr_outcome(e.value, env, fn, cls_ref, depth)
            return o if is_raise(o) else VALUE
        if isinstance(e, ast.Subscript):
            if self.is_foreign(e.value, env):
                return Raise("TypeError")
            for sub in (e.value, e.slice):
                o = self.expr_outcome(sub, env, fn, cls_ref, depth)
                if is_raise(o):
                    return o
            return VALUE
        if isinstance(e, ast.BinOp):
            for sub in (e.left, e.right):
                o = self.expr_outcome(sub, env, fn, cls_ref, depth)
                if is_raise(o):
                    return o
                if self.is_foreign(sub, env):
                    return Raise("TypeError")
            return VALUE
        if isinstance(e, ast.UnaryOp):
            o = self.expr_outcome(e.operand, env, fn, cls_ref, depth)
            if is_raise(o):
                return o
            if isinstance(e.op, ast.Not):
                return {TRUE: FALSE, FALSE: TRUE}.get(o, VALUE)
            return VALUE
        if isinstance(e, (ast.Tuple, ast.List)):
            for sub in e.elts:
                o = self.expr_outcome(sub, env, fn, cls_ref, depth)
                if is_raise(o):
                    return o
            return VALUE
        for sub in ast.iter_child_nodes(e):
            if isinstance(sub, ast.expr):
                o = self.expr_outcome(sub, env, fn, cls_ref, depth)
                if is_raise(o):
                    return o
        return VALUE

    def call_outcome(self, e: ast.Call, env, fn, cls_ref, depth):
        # arguments may raise
        foreign_args = []
        for i, a in enumerate(e.args):
            if self.is_foreign(a, env):
                foreign_args.append(i)
            else:
                o = self.expr_outcome(a, env, fn, cls_ref, depth)
                if is_raise(o):
                    return o
        cn = call_name(e)
        # super().__m__(other)
        if isinstance(e.func, ast.Attribute) and isinstance(e.func.value, ast.Call) and call_name(e.func.value) == "super":
            meth = e.func.attr
            owner = None
            n = fn
            while n is not None and not isinstance(n, ast.ClassDef):
                n = getattr(n, "_parent", None)
            if n is None or not isinstance(cls_ref, DefRef):
                return UNKNOWN
            mro = self.prog.mro(cls_ref.node)
            idx = next((i for i, c in enumerate(mro) if isinstance(c, DefRef) and c.node is n), None)
            if idx is None:
                return UNKNOWN
            for c in mro[idx + 1:]:
                if isinstance(c, DefRef):
                    m = self.prog.methods_of(c.node).get(meth)
                    if m is not None:
                        return self.eval_function(m, cls_ref, None, depth + 1)
                else:
                    if c.name == "builtins.object":
                        continue
                    obj = external_object(c)
                    if obj is None:
                        raise AnalysisError(f"dispatch: base class {c.name} is outside the data-model table")
                    if meth not in vars(obj):
                        continue
                    if meth in REFLECT and c.name in BUILTIN_CMP_NOTIMPL:
                        return NOTIMPL
                    if meth == "__contains__" and c.name in BUILTIN_CONTAINS:
                        return BUILTIN_CONTAINS[c.name]
                    raise AnalysisError(f"dispatch: super().{meth} reaches builtin {c.name}, not in the data-model table")
            return NOTIMPL if meth in REFLECT else UNKNOWN
        if isinstance(e.func, ast.Attribute) and self.is_foreign(e.func.value, env):
            # method call on the foreign object
            if self.prog.methods_of(self.sentinel).get(e.func.attr):
                return VALUE
            return Raise("AttributeError")
        r = self.prog.resolve_expr(fn._module, e.func) if isinstance(e.func, (ast.Name, ast.Attribute)) and not (
            isinstance(e.func, ast.Attribute) and isinstance(e.func.value, ast.Name) and e.func.value.id in ("self", "cls")) else None
        if isinstance(e.func, ast.Attribute) and isinstance(e.func.value, ast.Name) and e.func.value.id in ("self", "cls") \
                and isinstance(cls_ref, DefRef):
            found = self.lookup(cls_ref, e.func.attr)
            if found[0] == "src":
                fparams = func_params(found[1])
                decos = {dotted(d) for d in found[1].decorator_list}
                off = 0 if "staticmethod" in decos else 1
                fp = [fparams[i + off] for i in foreign_args if i + off < len(fparams)]
                if not fp:
                    return VALUE
                return self.eval_function(found[1], cls_ref, fp, depth + 1)
            return UNKNOWN if foreign_args else VALUE
        if isinstance(r, DefRef) and isinstance(r.node, ast.FunctionDef):
            if not foreign_args:
                return VALUE
            fparams = func_params(r.node)
            fp = [fparams[i] for i in foreign_args if i < len(fparams)]
            return self.eval_function(r.node, None, fp, depth + 1)
        if isinstance(r, DefRef) and isinstance(r.node, ast.ClassDef):
            if not foreign_args:
                return VALUE
            init = self.prog.class_attr(r, "__init__")
            new = self.prog.class_attr(r, "__new__")
            for m in (new, init):
                if isinstance(m, DefRef) and isinstance(m.node, ast.FunctionDef):
                    fparams = func_params(m.node)
                    fp = [fparams[i + 1] for i in foreign_args if i + 1 < len(fparams)]
                    o = self.eval_function(m.node, r, fp, depth + 1)
                    if is_raise(o) or o == UNKNOWN:
                        return o
            return VALUE
        if isinstance(r, Ref):
            if not foreign_args:
                return VALUE
            if r.name == "builtins.len" and self.prog.methods_of(self.sentinel).get("__len__"):
                return VALUE
            if r.name in EXTERNAL_CALL_ON_FOREIGN:
                return EXTERNAL_CALL_ON_FOREIGN[r.name]
            return UNKNOWN
        if cn == "isinstance":
            t = self.truth(e, env, fn, cls_ref, depth)
            return {True: TRUE, False: FALSE}.get(t, VALUE)
        return UNKNOWN if foreign_args else VALUE


CMP_AST = (ast.Eq, ast.NotEq, ast.Lt, ast.LtE, ast.Gt, ast.GtE)


def binary_compare(ev: ForeignEval, op: str, left_ref, right_ref, sentinel_ref, sentinel_outcomes: dict):
    """Python's `L op R` where exactly one of L/R is the sentinel. *_ref: DefRef/Ref class of the operand.
    sentinel_outcomes: method name -> outcome of Sentinel.method(sentinel, anything)."""
    m = OPS[op]
    left_is_s = left_ref is sentinel_ref

    def call(cls_ref, name):
        if cls_ref is sentinel_ref:
            return sentinel_outcomes.get(name, "MISSING")
        return ev.call_method(cls_ref, name)

    def resolve_sentinel_cmp(o):
        return o

    first = call(left_ref, m)
    if first == "MISSING":
        # sentinel lacks the method -> object default
        if m == "__ne__":
            eq = sentinel_outcomes.get("__eq__", "MISSING")
            first = NOTIMPL if eq in ("MISSING", NOTIMPL) else {FALSE: TRUE, TRUE: FALSE}.get(eq, eq)
        else:
            first = NOTIMPL
    if first == "SENTINEL-CMP":
        first = VALUE
    if first != NOTIMPL:
        return first
    second = call(right_ref, REFLECT[m])
    if second == "MISSING":
        if m == "__ne__":
            eq = sentinel_outcomes.get("__eq__", "MISSING")
            second = NOTIMPL if eq in ("MISSING", NOTIMPL) else {FALSE: TRUE, TRUE: FALSE}.get(eq, eq)
        else:
            second = NOTIMPL
    if second == "SENTINEL-CMP":
        second = VALUE
    if second != NOTIMPL:
        return second
    if m == "__eq__":
        return FALSE
    if m == "__ne__":
        return TRUE
    return Raise("TypeError")


def membership(ev: ForeignEval, item_ref, container_ref, sentinel_ref, sentinel_outcomes: dict, negate: bool):
    """`item in container` (or `not in`)."""
    if container_ref is sentinel_ref:
        o = sentinel_outcomes.get("__contains__", "MISSING")
        if o == "MISSING":
            o = Raise("TypeError") if "__iter__" not in sentinel_outcomes else UNKNOWN
    else:
        o = ev.call_method(container_ref, "__contains__")
        if o == "ELEMENTWISE":
            # any(e is x or e == x for e in container): elements are ordinary values; e == sentinel dispatches to the
            # element first (NotImplemented for ordinary values) then to sentinel.__eq__
            eq = sentinel_outcomes.get("__eq__", "MISSING")
            o = FALSE if eq == FALSE else UNKNOWN
    if is_raise(o):
        return o
    if negate:
        return {FALSE: TRUE, TRUE: FALSE}.get(o, o)
    return o


def feasible_nodes(ev: "ForeignEval", cfg, fn, start: int, env: dict, stop_at=None) -> set:
    """CFG nodes reachable from `start` along edges that are feasible when the variables in `env` hold the FOREIGN sentinel:
    at a test node whose condition has a definite truth value under that assumption only the matching edge is followed.
    `stop_at(node)` -> True ends exploration at that node (e.g. the variable is re-read)."""
    seen = {start}
    work = [start]
    while work:
        u = work.pop()
        node = cfg.nodes[u]
        verdict = None
        if node.kind == "test" and node.ast is not None:
            try:
                verdict = ev.truth(node.ast.test, dict(env), fn, None, 0)
            except AnalysisError:
                verdict = None
            if is_raise(verdict):
                verdict = "raise"
        for v, cond in cfg.succ[u]:
            if verdict in (True, False) and cond is not None and not isinstance(cond[0], str):
                if cond[1] != verdict:
                    continue
            if verdict == "raise" and not (cond is not None and cond[0] == "<exc>"):
                continue
            if v in seen:
                continue
            if stop_at is not None and stop_at(cfg.nodes[v]):
                seen.add(v)
                continue
            seen.add(v)
            work.append(v)
    return seen
