"""Symbolic structure of a text built inside one function: concatenations, f-strings, str.format, `sep.join(...)` over a
generator / comprehension / list filled by append in a loop, and `acc += ...` accumulation are all reduced to one form:

    [("var", source text) | ("lit", str) | ("repeat", iter source text, [target names], [inner parts], separator str)]

Two spellings of the same composition give the same structure, so rules about WHAT is concatenated in WHICH order do not
depend on how the code spells it."""
from __future__ import annotations

import ast
import string

from .core import norm, ordkey, walk_no_nested


def _targets(t):
    if isinstance(t, (ast.Tuple, ast.List)):
        return [norm(x) for x in t.elts]
    return [norm(t)]


def _loop_of(node, fn):
    q = getattr(node, "_parent", None)
    while q is not None and q is not fn:
        if isinstance(q, (ast.For,)):
            return q
        q = getattr(q, "_parent", None)
    return None


_FOLD = [None]


def text_structure(fn, e, depth=0, follow=True, fold=None):
    """fold: optional callable(expr) -> constant (raising on failure) used for module-level names, e.g. SQL templates."""
    if fold is not None and depth == 0:
        _FOLD.append(fold)
        try:
            return _ts(fn, e, 0, follow)
        finally:
            _FOLD.pop()
    return _ts(fn, e, depth, follow)


def _folded(e):
    f = _FOLD[-1]
    if f is None:
        return None
    try:
        v = f(e)
    except Exception:
        return None
    return v if isinstance(v, str) else None


def _ts(fn, e, depth=0, follow=True):
    """follow=False: local names are left as variables instead of being expanded through their definitions."""
    if depth > 12:
        return [("var", norm(e))]
    if isinstance(e, ast.Constant) and isinstance(e.value, str):
        return [("lit", e.value)] if e.value else []
    if isinstance(e, ast.JoinedStr):
        out = []
        for v in e.values:
            if isinstance(v, ast.Constant):
                if v.value:
                    out.append(("lit", str(v.value)))
            elif isinstance(v, ast.FormattedValue) and v.conversion == -1 and v.format_spec is None:
                out += text_structure(fn, v.value, depth + 1, follow)
            else:
                out.append(("var", norm(v)))
        return out
    if isinstance(e, ast.BinOp) and isinstance(e.op, ast.Add):
        return text_structure(fn, e.left, depth + 1, follow) + text_structure(fn, e.right, depth + 1, follow)
    if isinstance(e, ast.IfExp):
        return [("alt", [text_structure(fn, e.body, depth + 1, follow), text_structure(fn, e.orelse, depth + 1, follow)])]
    if isinstance(e, ast.Name) and not follow:
        return [("var", e.id)]
    if isinstance(e, ast.Name):
        local_store = any(isinstance(x, ast.Name) and x.id == e.id and isinstance(x.ctx, ast.Store) for x in ast.walk(fn)) if isinstance(fn, ast.AST) else False
        if not local_store:
            v = _folded(e)
            if v is not None:
                return [("lit", v)] if v else []
        inits = [st for st in walk_no_nested(fn) if isinstance(st, ast.Assign) and len(st.targets) == 1 and isinstance(st.targets[0], ast.Name) and st.targets[0].id == e.id]
        augs = [st for st in walk_no_nested(fn) if isinstance(st, ast.AugAssign) and isinstance(st.target, ast.Name) and st.target.id == e.id and isinstance(st.op, ast.Add)]
        if len(inits) == 1 and not augs:
            return text_structure(fn, inits[0].value, depth + 1)
        if len(inits) == 1 and augs:
            out = text_structure(fn, inits[0].value, depth + 1)
            for a in sorted(augs, key=ordkey):
                inner = text_structure(fn, a.value, depth + 1)
                lp = _loop_of(a, fn)
                if lp is not None:
                    out.append(("repeat", norm(lp.iter), _targets(lp.target), inner, ""))
                else:
                    out += inner
            return out
        if len(inits) > 1 and not augs:
            return [("alt", [text_structure(fn, st.value, depth + 1) for st in inits])]
        return [("var", e.id)]
    if isinstance(e, ast.Call) and isinstance(e.func, ast.Attribute) and e.func.attr == "join" and len(e.args) == 1 and isinstance(e.func.value, ast.Constant) \
            and isinstance(e.func.value.value, str):
        sep = e.func.value.value
        g = e.args[0]
        if isinstance(g, (ast.Tuple, ast.List)) and not any(isinstance(x, ast.Starred) for x in g.elts):
            # sep.join((a, b, c)) = a + sep + b + sep + c
            out = []
            for i, x in enumerate(g.elts):
                out += text_structure(fn, x, depth + 1, follow)
                if sep and i + 1 < len(g.elts):
                    out.append(("lit", sep))
            return out
        if isinstance(g, ast.Name):
            defs = [st for st in walk_no_nested(fn) if isinstance(st, ast.Assign) and len(st.targets) == 1 and isinstance(st.targets[0], ast.Name) and st.targets[0].id == g.id]
            apps = [c for c in ast.walk(fn) if isinstance(c, ast.Call) and isinstance(c.func, ast.Attribute) and c.func.attr == "append" and norm(c.func.value) == g.id and len(c.args) == 1]
            if len(defs) == 1 and isinstance(defs[0].value, (ast.ListComp, ast.GeneratorExp)) and not apps:
                g = defs[0].value
            elif len(defs) == 1 and isinstance(defs[0].value, ast.List) and not defs[0].value.elts and apps:
                out = []
                for i, a in enumerate(sorted(apps, key=ordkey)):
                    inner = text_structure(fn, a.args[0], depth + 1)
                    lp = _loop_of(a, fn)
                    if lp is not None:
                        out.append(("repeat", norm(lp.iter), _targets(lp.target), inner, sep))
                    else:
                        out += inner
                    if sep and i + 1 < len(apps):
                        out.append(("lit", sep))
                return out
        if isinstance(g, (ast.GeneratorExp, ast.ListComp)) and len(g.generators) == 1 and not g.generators[0].ifs:
            gen = g.generators[0]
            return [("repeat", norm(gen.iter), _targets(gen.target), text_structure(fn, g.elt, depth + 1, follow), sep)]
        return [("var", norm(e))]
    tmpl = None
    if isinstance(e, ast.Call) and isinstance(e.func, ast.Attribute) and e.func.attr == "format":
        if isinstance(e.func.value, ast.Constant) and isinstance(e.func.value.value, str):
            tmpl = e.func.value.value
        elif isinstance(e.func.value, (ast.Name, ast.Attribute)):
            tmpl = _folded(e.func.value)
    if tmpl is not None and not any(isinstance(a, ast.Starred) for a in e.args) and not any(k.arg is None for k in e.keywords):
        out = []
        auto = 0
        try:
            for lit, field, spec, conv in string.Formatter().parse(tmpl):
                if lit:
                    out.append(("lit", lit))
                if field is None:
                    continue
                if spec or conv:
                    return [("var", norm(e))]
                if field == "":
                    arg = e.args[auto]
                    auto += 1
                elif field.isdigit():
                    arg = e.args[int(field)]
                else:
                    arg = next(k.value for k in e.keywords if k.arg == field)
                out += text_structure(fn, arg, depth + 1, follow)
        except (IndexError, StopIteration, ValueError):
            return [("var", norm(e))]
        return out
    return [("var", norm(e))]


def flatten_order(parts, p_name, p_fields):
    """Order of the descriptor hash input in the vocabulary of the rules: 'name', 'field.name', 'field.type', literal:'x',
    separator:'x', or the source text of anything else. Fields are (type, name) tuples."""
    out = []
    for p in parts:
        if p[0] == "lit":
            out.append(f"literal:{p[1]!r}")
        elif p[0] == "var":
            out.append("name" if p[1] == p_name else p[1])
        elif p[0] == "alt":
            out.append("alt(" + " | ".join("+".join(flatten_order(a, p_name, p_fields)) for a in p[1]) + ")")
        else:
            _, it, targets, inner, sep = p
            if it == p_fields and len(targets) == 2:
                t_var, n_var = targets
                if sep:
                    out.append(f"separator:{sep!r}")
                for q in flatten_order(inner, p_name, p_fields):
                    out.append("field.name" if q == n_var else "field.type" if q == t_var else q)
            else:
                out.append(f"repeat({it})")
    return out


def literal_prefix(parts) -> str:
    """Longest literal text every string described by `parts` starts with."""
    out = ""
    for p in parts:
        if p[0] == "lit":
            out += p[1]
            continue
        if p[0] == "alt":
            alts = [literal_prefix(a) for a in p[1]]
            common = alts[0] if alts else ""
            for a in alts[1:]:
                k = 0
                while k < min(len(common), len(a)) and common[k] == a[k]:
                    k += 1
                common = common[:k]
            out += common
        break
    return out


def render(parts, placeholder="x") -> str:
    """One concrete instance of the described text: variables become `placeholder`, a repetition is rendered once, the first
    alternative is taken."""
    out = []
    for p in parts:
        if p[0] == "lit":
            out.append(p[1])
        elif p[0] == "var":
            out.append(placeholder)
        elif p[0] == "repeat":
            out.append(render(p[3], placeholder))
        elif p[0] == "alt":
            out.append(render(p[1][0], placeholder) if p[1] else "")
    return "".join(out)
