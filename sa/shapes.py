"""Abstract nesting shapes of the values built by small methods (the `_pack` family).

Shapes (plain tuples so they compare and hash):
  ('scalar',) ('none',) ('tuple', (s1,...,sn)) ('list', s) ('dict',) ('any',) ('self',) ('inst', qualname) ('union', (s...))
('any',) is an opaque value whose nesting is not known (treated as possibly containing a dict, never as a list).
"""
from __future__ import annotations

import ast
from typing import Optional

from .core import AnalysisError, DefRef, NotConst, Program, Ref, call_name, dotted, func_params, norm, qualname_of, walk_no_nested

SCALAR, NONE, DICT, ANY = ("scalar",), ("none",), ("dict",), ("any",)

SCALAR_CALLS = {"builtins.str", "builtins.int", "builtins.bool", "builtins.float", "builtins.bytes", "builtins.len", "builtins.repr",
                "builtins.abs", "builtins.hash", "builtins.isinstance", "binascii.a2b_hex", "binascii.b2a_hex", "builtins.hex",
                "builtins.oct", "builtins.ord", "builtins.chr", "builtins.round", "builtins.min", "builtins.max", "builtins.sum",
                "base64.b64encode", "base64.b64decode", "shlex.join", "builtins.format"}
SCALAR_METHODS = {"isoformat", "decode", "encode", "hex", "strip", "lower", "upper", "format", "join", "to_bytes", "bit_length",
                  "timestamp", "total_seconds", "digest", "hexdigest", "replace", "lstrip", "rstrip", "startswith", "endswith"}
SCALAR_ATTRS = {"compressed", "exploded", "microsecond", "year", "month", "day", "hour", "minute", "second", "tzinfo", "name",
                "value", "val", "real"}


def union(shapes):
    flat = []
    for s in shapes:
        if s is None:
            continue
        if s[0] == "union":
            for x in s[1]:
                if x not in flat:
                    flat.append(x)
        elif s not in flat:
            flat.append(s)
    if not flat:
        return None
    if len(flat) == 1:
        return flat[0]
    return ("union", tuple(flat))


def alts(s):
    return list(s[1]) if s[0] == "union" else [s]


def fmt(s) -> str:
    k = s[0]
    if k == "tuple":
        return "(" + ", ".join(fmt(x) for x in s[1]) + ")"
    if k == "list":
        return "[" + fmt(s[1]) + "]"
    if k == "union":
        return " | ".join(fmt(x) for x in s[1])
    if k == "inst":
        return f"<{s[1].split('.')[-1]}>"
    if k == "star":
        return "*" + fmt(s[1])
    return k


def list_depths(s, depth=0):
    """Depths (0 = the value itself) at which a list or dict occurs; tuples add a level, 'any' may hide a dict one level down."""
    out = []
    k = s[0]
    if k == "list":
        out.append(("list", depth))
        out += list_depths(s[1], depth + 1)
    elif k == "dict":
        out.append(("dict", depth))
    elif k == "tuple":
        for x in s[1]:
            out += list_depths(x if x[0] != "star" else ("list", x[1]), depth + 1)
    elif k == "union":
        for x in s[1]:
            out += list_depths(x, depth)
    elif k == "any":
        out.append(("maybe-dict", depth))
    return out


class Shapes:
    def __init__(self, prog: Program):
        self.prog = prog
        self._attr_cache = {}
        self._ret_cache = {}
        self.unknown: list[str] = []

    # -- class attribute shapes ---------------------------------------------------------
    def attr_shape(self, cls: ast.ClassDef, attr: str, depth=0):
        key = (id(cls), attr)
        if key in self._attr_cache:
            return self._attr_cache[key]
        self._attr_cache[key] = SCALAR  # recursion guard
        found = []
        for c in self.prog.mro(cls):
            if not isinstance(c, DefRef):
                continue
            for fn in self.prog.methods_of(c.node).values():
                sp = func_params(fn)
                if not sp:
                    continue
                selfname = sp[0]
                ev = _FnEval(self, fn, cls, depth + 1)
                for st in walk_no_nested(fn):
                    if isinstance(st, ast.Assign):
                        for t in st.targets:
                            for tgt, sh in _destructure(t, st.value, ev):
                                if isinstance(tgt, ast.Attribute) and isinstance(tgt.value, ast.Name) and tgt.value.id == selfname and tgt.attr == attr:
                                    found.append(sh)
            for st in c.node.body:
                if isinstance(st, ast.Assign) and any(isinstance(t, ast.Name) and t.id == attr for t in st.targets):
                    if isinstance(st.value, ast.Constant) and st.value.value is None:
                        found.append(NONE)
                    else:
                        r = self.prog.resolve_expr(c.node._module, st.value)
                        if isinstance(r, DefRef) and isinstance(r.node, ast.ClassDef):
                            found.append(("cls", r.qualname))
                        else:
                            found.append(SCALAR)
                if isinstance(st, ast.AnnAssign) and isinstance(st.target, ast.Name) and st.target.id == attr and st.value is not None:
                    if isinstance(st.value, ast.Constant) and st.value.value is None:
                        found.append(NONE)
        res = union(found) or SCALAR
        self._attr_cache[key] = res
        return res

    def method_return(self, cls: Optional[ast.ClassDef], fn: ast.FunctionDef, depth=0):
        key = (id(cls), id(fn))
        if key in self._ret_cache:
            return self._ret_cache[key]
        if depth > 6:
            return ANY
        self._ret_cache[key] = ANY
        ev = _FnEval(self, fn, cls, depth)
        res = ev.returns()
        self._ret_cache[key] = res
        return res

    def pack_shape(self, cls: ast.ClassDef, method="_pack"):
        """Shape returned by cls.<method>() resolved along the MRO; None if the class has no such method."""
        m = self.prog.class_attr(cls, method)
        if isinstance(m, DefRef) and isinstance(m.node, ast.FunctionDef):
            return self.method_return(cls, m.node)
        return None

    def self_shape(self, cls: ast.ClassDef):
        """Shape of an instance used as a value (for `return self`)."""
        if self.prog.is_subclass(cls, "builtins.list"):
            return ("list", ANY)
        if self.prog.is_subclass(cls, "builtins.dict"):
            return DICT
        if self.prog.is_subclass(cls, "builtins.tuple"):
            return ("tuple", ())
        return SCALAR


def _destructure(target, value, ev):
    """Yield (target node, shape) pairs for an assignment."""
    sh = ev.expr(value)
    yield from _destructure_shape(target, sh)


def _destructure_shape(target, sh):
    if isinstance(target, (ast.Tuple, ast.List)):
        star = [i for i, e in enumerate(target.elts) if isinstance(e, ast.Starred)]
        for a in alts(sh):
            if a[0] == "tuple" and not star and len(a[1]) == len(target.elts):
                for t, s in zip(target.elts, a[1]):
                    yield from _destructure_shape(t, s)
            elif a[0] == "list" or a[0] == "tuple":
                elem = a[1] if a[0] == "list" else (union(a[1]) or SCALAR)
                for e in target.elts:
                    if isinstance(e, ast.Starred):
                        yield from _destructure_shape(e.value, ("list", elem))
                    else:
                        yield from _destructure_shape(e, elem)
            else:
                for e in target.elts:
                    if isinstance(e, ast.Starred):
                        yield from _destructure_shape(e.value, ("list", SCALAR))
                    else:
                        yield from _destructure_shape(e, SCALAR if a[0] != "any" else ANY)
    else:
        yield target, sh


class _FnEval:
    def __init__(self, sh: Shapes, fn: ast.FunctionDef, cls: Optional[ast.ClassDef], depth: int):
        self.sh, self.fn, self.cls, self.depth = sh, fn, cls, depth
        self.prog = sh.prog
        self.module = fn._module
        params = func_params(fn)
        decos = {dotted(d) for d in fn.decorator_list}
        self.selfname = params[0] if params and cls is not None and "staticmethod" not in decos and isinstance(getattr(fn, "_parent", None), ast.ClassDef) else None
        self.env: dict[str, tuple] = {}
        self._collect()

    def _collect(self):
        # flow-insensitive: join all assignments per local name (two passes for dependencies)
        for _ in range(3):
            for st in walk_no_nested(self.fn):
                if isinstance(st, ast.Assign):
                    for t in st.targets:
                        for tgt, s in _destructure(t, st.value, self):
                            if isinstance(tgt, ast.Name):
                                self.env[tgt.id] = union([self.env.get(tgt.id), s]) if tgt.id in self.env and self.env[tgt.id] != s else s
                elif isinstance(st, ast.For):
                    it = self.expr(st.iter)
                    elem = union([a[1] if a[0] == "list" else (union(a[1]) if a[0] == "tuple" and a[1] else ANY) for a in alts(it)]) or ANY
                    for tgt, s in _destructure_shape(st.target, elem):
                        if isinstance(tgt, ast.Name):
                            self.env[tgt.id] = s
                elif isinstance(st, ast.Expr) and isinstance(st.value, ast.Call) and isinstance(st.value.func, ast.Attribute) \
                        and st.value.func.attr in ("append", "extend") and isinstance(st.value.func.value, ast.Name):
                    name = st.value.func.value.id
                    arg = self.expr(st.value.args[0]) if st.value.args else ANY
                    if st.value.func.attr == "extend":
                        arg = union([a[1] if a[0] == "list" else ANY for a in alts(arg)]) or ANY
                    cur = self.env.get(name)
                    if cur is not None and cur[0] == "list":
                        inner = cur[1]
                        self.env[name] = ("list", arg if inner == ("empty",) else (union([inner, arg]) or arg))

    def returns(self):
        outs = []
        for st in walk_no_nested(self.fn):
            if isinstance(st, ast.Return):
                outs.append(NONE if st.value is None else self.expr(st.value))
        return union(outs) or NONE

    def expr(self, e):
        if isinstance(e, ast.Constant):
            return NONE if e.value is None else SCALAR
        if isinstance(e, ast.Tuple):
            elts = []
            for x in e.elts:
                if isinstance(x, ast.Starred):
                    inner = self.expr(x.value)
                    elts.append(("star", union([a[1] if a[0] == "list" else (union(a[1]) or SCALAR) if a[0] == "tuple" else SCALAR for a in alts(inner)]) or SCALAR))
                else:
                    elts.append(self.expr(x))
            return ("tuple", tuple(elts))
        if isinstance(e, ast.List):
            if not e.elts:
                return ("list", ("empty",))
            return ("list", union([self.expr(x) for x in e.elts]) or ANY)
        if isinstance(e, (ast.ListComp, ast.GeneratorExp, ast.SetComp)):
            saved = dict(self.env)
            for g in e.generators:
                it = self.expr(g.iter)
                elem = union([a[1] if a[0] == "list" else (union(a[1]) if a[0] == "tuple" and a[1] else ANY) for a in alts(it)]) or ANY
                for tgt, s in _destructure_shape(g.target, elem):
                    if isinstance(tgt, ast.Name):
                        self.env[tgt.id] = s
            out = ("list", self.expr(e.elt))
            self.env = saved
            return out
        if isinstance(e, (ast.Dict, ast.DictComp)):
            return DICT
        if isinstance(e, ast.Name):
            if self.selfname and e.id == self.selfname:
                return ("self",)
            if e.id in self.env:
                return self.env[e.id]
            return SCALAR
        if isinstance(e, ast.IfExp):
            return union([self.expr(e.body), self.expr(e.orelse)])
        if isinstance(e, ast.BoolOp):
            return union([self.expr(v) for v in e.values])
        if isinstance(e, (ast.Compare, ast.UnaryOp, ast.JoinedStr)):
            return SCALAR
        if isinstance(e, ast.BinOp):
            a, b = self.expr(e.left), self.expr(e.right)
            if a[0] == "list" or b[0] == "list":
                return a if a[0] == "list" else b
            return SCALAR
        if isinstance(e, ast.Attribute):
            base = e.value
            if isinstance(base, ast.Name) and self.selfname and base.id == self.selfname and self.cls is not None:
                s = self.sh.attr_shape(self.cls, e.attr, self.depth)
                return s
            return SCALAR if e.attr in SCALAR_ATTRS else SCALAR
        if isinstance(e, ast.Subscript):
            base = self.expr(e.value)
            if isinstance(e.slice, ast.Slice):
                return base
            idx = None
            if isinstance(e.slice, ast.Constant) and isinstance(e.slice.value, int):
                idx = e.slice.value
            outs = []
            for a in alts(base):
                if a[0] == "tuple" and idx is not None and -len(a[1]) <= idx < len(a[1]):
                    outs.append(a[1][idx])
                elif a[0] == "list":
                    outs.append(a[1])
                elif a[0] == "tuple":
                    outs.append(union(a[1]) or SCALAR)
                else:
                    outs.append(SCALAR)
            return union(outs) or SCALAR
        if isinstance(e, ast.Starred):
            return self.expr(e.value)
        if isinstance(e, ast.Call):
            return self.call(e)
        return ANY

    def call(self, e: ast.Call):
        f = e.func
        # method calls
        if isinstance(f, ast.Attribute):
            recv = f.value
            if isinstance(recv, ast.Name) and self.selfname and recv.id == self.selfname and self.cls is not None:
                m = self.prog.class_attr(self.cls, f.attr)
                if isinstance(m, DefRef) and isinstance(m.node, ast.FunctionDef):
                    return self.sh.method_return(self.cls, m.node, self.depth + 1)
                if isinstance(m, tuple) and m[0] == "value":
                    r = self.prog.resolve_expr(m[2], m[1])
                    if isinstance(r, DefRef) and isinstance(r.node, ast.ClassDef):
                        return ("inst", r.qualname)
                # class attribute holding a class (self._path_type(...)) declared only by annotation / set in subclasses
                subs = [self.cls] + self.prog.subclasses(self.cls)
                for c in subs:
                    for st in c.body:
                        if isinstance(st, ast.Assign) and any(isinstance(t, ast.Name) and t.id == f.attr for t in st.targets):
                            r = self.prog.resolve_expr(c._module, st.value)
                            if isinstance(r, DefRef) and isinstance(r.node, ast.ClassDef):
                                return ("inst", r.qualname)
                return SCALAR
            rs = self.expr(recv)
            outs = []
            for a in alts(rs):
                if a[0] == "inst":
                    cls = self.prog.all_classes().get(a[1])
                    m = self.prog.class_attr(cls, f.attr) if cls is not None else None
                    if isinstance(m, DefRef) and isinstance(m.node, ast.FunctionDef):
                        outs.append(self.sh.method_return(cls, m.node, self.depth + 1))
                        continue
                if f.attr in SCALAR_METHODS:
                    outs.append(SCALAR)
                elif f.attr in ("items",):
                    outs.append(("list", ("tuple", (SCALAR, ANY))))
                elif f.attr in ("keys", "values", "split", "rsplit", "splitlines"):
                    outs.append(("list", SCALAR))
                elif f.attr in ("copy",):
                    outs.append(a)
                elif f.attr == "timetuple":
                    outs.append(("tuple", tuple([SCALAR] * 9)))
                elif f.attr == "_pack":
                    outs.append(ANY)
                    self.sh.unknown.append(f"{norm(e)} in {qualname_of(self.fn)}")
                else:
                    outs.append(SCALAR if f.attr in SCALAR_METHODS else ANY)
            return union(outs) or ANY
        r = self.prog.resolve_expr(self.module, f) if isinstance(f, ast.Name) else None
        if isinstance(r, Ref):
            if r.name in ("builtins.tuple", "builtins.list", "builtins.sorted", "builtins.set", "builtins.frozenset", "builtins.reversed"):
                kind = "list"
                if not e.args:
                    return ("list", ("empty",)) if r.name != "builtins.tuple" else ("tuple", ())
                inner = self.expr(e.args[0])
                outs = []
                for a in alts(inner):
                    elem = a[1] if a[0] == "list" else ((union(a[1]) or SCALAR) if a[0] == "tuple" else ANY)
                    if r.name == "builtins.tuple":
                        outs.append(("tuple", (("star", elem),)))
                    else:
                        outs.append(("list", elem))
                return union(outs)
            if r.name == "builtins.map" and len(e.args) >= 2:
                fn = self.prog.resolve_expr(self.module, e.args[0])
                return ("list", ANY)
            if r.name == "builtins.dict" or r.name == "collections.OrderedDict":
                return DICT
            if r.name in SCALAR_CALLS:
                return SCALAR
            return ANY
        if isinstance(r, DefRef) and isinstance(r.node, ast.ClassDef):
            return ("inst", r.qualname)
        if isinstance(r, DefRef) and isinstance(r.node, ast.FunctionDef):
            return self.sh.method_return(None, r.node, self.depth + 1)
        if isinstance(f, ast.Name) and f.id in ("cls",):
            return ("self",)
        return ANY
