"""Decide inclusion between the languages of two Python regular expressions *as used* (match / fullmatch / search),
exactly, by translating `re._parser` ASTs to NFAs and exploring the product of their subset automata.

The translation models what matters for validation patterns: `re.match` anchors only the start; `$` matches at the
end AND before a single trailing newline; `\\Z` only at the end; `\\w` / `\\d` are Unicode classes for str patterns.
Unsupported constructs (look-around, back-references, conditionals) raise AnalysisError - never a guess.
"""
from __future__ import annotations

import re
from collections import deque
from typing import Optional

try:  # Python 3.11+
    import re._parser as sre_parse
    import re._constants as sre_c
except ImportError:  # pragma: no cover
    import sre_parse  # type: ignore
    import sre_constants as sre_c  # type: ignore

from .core import AnalysisError

MAXREPEAT = sre_c.MAXREPEAT

# constraint carried by a thread: 0 none, 1 rest of input must be exactly "\n", 2 rest of input must be empty
C_NONE, C_NL, C_EMPTY = 0, 1, 2


class NFA:
    def __init__(self):
        self.n = 0
        self.eps: dict[int, list] = {}  # state -> list of (kind, target)   kind in eps/begin/end/end_string
        self.chr: dict[int, list] = {}  # state -> list of (pred, target)
        self.start = self.new()
        self.final = self.new()

    def new(self):
        s = self.n
        self.n += 1
        self.eps[s] = []
        self.chr[s] = []
        return s


def _cat_pred(cat, ascii_only):
    name = str(cat)
    neg = "NOT_" in name
    if "DIGIT" in name:
        f = (lambda c: c in "0123456789") if ascii_only else (lambda c: c.isdecimal())
    elif "SPACE" in name:
        f = (lambda c: c in " \t\n\r\f\v") if ascii_only else (lambda c: c.isspace() or c in "\x1c\x1d\x1e\x1f")
    elif "WORD" in name:
        f = (lambda c: (c.isascii() and (c.isalnum() or c == "_"))) if ascii_only else (lambda c: c.isalnum() or c == "_")
    elif "LINEBREAK" in name:
        f = lambda c: c == "\n"  # noqa: E731
    else:
        raise AnalysisError(f"regex category {name} not modelled")
    return (lambda c: not f(c)) if neg else f


def _item_pred(op, av, flags):
    ic = bool(flags & re.IGNORECASE)
    ascii_only = bool(flags & re.ASCII)
    dotall = bool(flags & re.DOTALL)

    def eqc(code):
        ch = chr(code)
        if ic:
            return lambda c: c.lower() == ch.lower() or c.upper() == ch.upper()
        return lambda c: c == ch

    opn = str(op)
    if opn == "LITERAL":
        return eqc(av)
    if opn == "NOT_LITERAL":
        p = eqc(av)
        return lambda c: not p(c)
    if opn == "ANY":
        return (lambda c: True) if dotall else (lambda c: c != "\n")
    if opn == "IN":
        negate = False
        preds = []
        for iop, iav in av:
            n = str(iop)
            if n == "NEGATE":
                negate = True
            elif n == "LITERAL":
                preds.append(eqc(iav))
            elif n == "RANGE":
                lo, hi = iav
                if ic:
                    preds.append(lambda c, lo=lo, hi=hi: any(lo <= ord(x) <= hi for x in {c, c.lower(), c.upper()} if len(x) == 1))
                else:
                    preds.append(lambda c, lo=lo, hi=hi: lo <= ord(c) <= hi)
            elif n == "CATEGORY":
                preds.append(_cat_pred(iav, ascii_only))
            else:
                raise AnalysisError(f"regex set item {n} not modelled")
        if negate:
            return lambda c: not any(p(c) for p in preds)
        return lambda c: any(p(c) for p in preds)
    if opn == "CATEGORY":
        return _cat_pred(av, ascii_only)
    raise AnalysisError(f"regex op {opn} not modelled")


def _build(nfa: NFA, items, s: int, flags: int, multiline: bool) -> int:
    """Append the automaton of `items` starting in state s; returns the end state."""
    for op, av in items:
        opn = str(op)
        if opn in ("LITERAL", "NOT_LITERAL", "ANY", "IN", "CATEGORY"):
            t = nfa.new()
            nfa.chr[s].append((_item_pred(op, av, flags), t))
            s = t
        elif opn == "BRANCH":
            _, alts = av
            t = nfa.new()
            for alt in alts:
                a = nfa.new()
                nfa.eps[s].append(("eps", a))
                e = _build(nfa, alt, a, flags, multiline)
                nfa.eps[e].append(("eps", t))
            s = t
        elif opn == "SUBPATTERN":
            _g, add_flags, del_flags, p = av
            s = _build(nfa, p, s, (flags | add_flags) & ~del_flags, multiline)
        elif opn in ("MAX_REPEAT", "MIN_REPEAT", "POSSESSIVE_REPEAT"):
            lo, hi, p = av
            if lo > 64 or (hi != MAXREPEAT and hi > 64):
                raise AnalysisError("regex repeat bound > 64 not modelled")
            for _ in range(lo):
                s = _build(nfa, p, s, flags, multiline)
            if hi == MAXREPEAT:
                a = nfa.new()
                nfa.eps[s].append(("eps", a))
                e = _build(nfa, p, a, flags, multiline)
                nfa.eps[e].append(("eps", a))
                t = nfa.new()
                nfa.eps[a].append(("eps", t))
                s = t
            else:
                t = nfa.new()
                nfa.eps[s].append(("eps", t))
                for _ in range(hi - lo):
                    s = _build(nfa, p, s, flags, multiline)
                    nfa.eps[s].append(("eps", t))
                s = t
        elif opn == "AT":
            an = str(av)
            t = nfa.new()
            if an in ("AT_BEGINNING", "AT_BEGINNING_STRING"):
                if an == "AT_BEGINNING" and multiline:
                    raise AnalysisError("regex ^ under MULTILINE not modelled")
                nfa.eps[s].append(("begin", t))
            elif an == "AT_END":
                if multiline:
                    raise AnalysisError("regex $ under MULTILINE not modelled")
                nfa.eps[s].append(("end", t))
            elif an == "AT_END_STRING":
                nfa.eps[s].append(("end_string", t))
            else:
                raise AnalysisError(f"regex anchor {an} not modelled")
            s = t
        elif opn == "ATOMIC_GROUP":
            s = _build(nfa, av, s, flags, multiline)
        else:
            raise AnalysisError(f"regex construct {opn} not modelled")
    return s


class Lang:
    """Language of whole strings accepted by `pattern` when used through `method` (match/fullmatch/search)."""

    def __init__(self, pattern: str, flags: int = 0, method: str = "match"):
        if isinstance(pattern, bytes):
            raise AnalysisError("bytes patterns not modelled")
        if method not in ("match", "fullmatch", "search"):
            raise AnalysisError(f"regex method {method} not modelled")
        self.pattern, self.flags, self.method = pattern, int(flags), method
        try:
            parsed = sre_parse.parse(pattern, self.flags)
        except re.error as e:
            raise AnalysisError(f"invalid regex {pattern!r}: {e}")
        self.flags = parsed.state.flags
        self.nfa = NFA()
        end = _build(self.nfa, list(parsed), self.nfa.start, self.flags, bool(self.flags & re.MULTILINE))
        self.nfa.eps[end].append(("eps", self.nfa.final))
        self.literals = {chr(av) for op, av in _walk_items(list(parsed)) if str(op) in ("LITERAL", "NOT_LITERAL")}
        self.range_ends = set()
        for op, av in _walk_items(list(parsed)):
            if str(op) == "RANGE":
                lo, hi = av
                for cp in (lo - 1, lo, hi, hi + 1, (lo + hi) // 2):
                    if 0 <= cp < 0x110000:
                        self.range_ends.add(chr(cp))

    # thread = (state, at_pos0, constraint); SINK state = -1 (pattern matched; arbitrary suffix allowed in match/search)
    def initial(self):
        return self._closure({(self.nfa.start, True, C_NONE)}, at_end=False)

    def _closure(self, threads, at_end: bool):
        out = set(threads)
        stack = list(threads)
        while stack:
            s, p0, c = stack.pop()
            if s == -1:
                continue
            if s == self.nfa.final:
                if self.method == "fullmatch":
                    pass  # accept only at end, handled in accepts()
                else:
                    t = (-1, p0, c)
                    if t not in out:
                        out.add(t)
                        stack.append(t)
                continue
            for kind, tgt in self.nfa.eps[s]:
                new = None
                if kind == "eps":
                    new = (tgt, p0, c)
                elif kind == "begin":
                    if p0:
                        new = (tgt, p0, c)
                elif kind == "end_string":
                    if at_end and c != C_NL:
                        new = (tgt, p0, c)
                    elif not at_end and c == C_NONE:
                        new = (tgt, p0, C_EMPTY)  # dies on the next consumption
                    elif not at_end and c == C_EMPTY:
                        new = (tgt, p0, C_EMPTY)
                elif kind == "end":
                    if at_end:
                        if c != C_NL:
                            new = (tgt, p0, c)
                    else:
                        if c == C_NONE:
                            new = (tgt, p0, C_NL)
                        elif c in (C_NL, C_EMPTY):
                            new = (tgt, p0, c)
                if new is not None and new not in out:
                    out.add(new)
                    stack.append(new)
        return frozenset(out)

    def step(self, threads, ch: str):
        nxt = set()
        for s, p0, c in threads:
            if c == C_EMPTY:
                continue
            if c == C_NL:
                if ch != "\n":
                    continue
                c2 = C_EMPTY
            else:
                c2 = c
            if s == -1:
                nxt.add((-1, False, c2))
                continue
            if s == self.nfa.final:
                continue
            for pred, tgt in self.nfa.chr[s]:
                if pred(ch):
                    nxt.add((tgt, False, c2))
        if self.method == "search":
            nxt.add((self.nfa.start, False, C_NONE))
        return self._closure(nxt, at_end=False)

    def accepts_here(self, threads) -> bool:
        """Would the input be accepted if it ended now?"""
        for s, p0, c in self._closure(set(threads), at_end=True):
            if c == C_NL:
                continue
            if s == -1 or s == self.nfa.final:
                return True
        return False

    def accepts(self, text: str) -> bool:
        th = self.initial()
        for ch in text:
            th = self.step(th, ch)
            if not th:
                return False
        return self.accepts_here(th)


def _walk_items(items):
    for op, av in items:
        opn = str(op)
        yield op, av
        if opn == "BRANCH":
            for alt in av[1]:
                yield from _walk_items(list(alt))
        elif opn == "SUBPATTERN":
            yield from _walk_items(list(av[3]))
        elif opn in ("MAX_REPEAT", "MIN_REPEAT", "POSSESSIVE_REPEAT"):
            yield from _walk_items(list(av[2]))
        elif opn == "IN":
            for iop, iav in av:
                yield iop, iav
        elif opn == "ATOMIC_GROUP":
            yield from _walk_items(list(av))


# representatives of the Unicode classes that \w \d \s distinguish, beyond ASCII
NON_ASCII_REPS = [
    "é",  # é  letter (\w)
    "ª",  # ª  Lo letter, isalnum
    "٣",  # ٣  Arabic-indic digit (\d, \w)
    "ｆ",  # ｆ fullwidth letter (NFKC look-alike of f)
    "²",  # ²  isdigit but not isdecimal: \w (isalnum) yes, \d no
    " ",  # line separator (\s)
    " ",  # no-break space (\s)
    "​",  # zero width space (none)
    "\U0001f600",  # emoji (none)
    "\udc80",  # lone surrogate (none)
    "\u0085",  # NEL (\s)
    # non-ASCII characters whose simple case mapping lands on an ASCII letter: with re.IGNORECASE an ASCII range such as [a-z] matches them
    "\u0131",  # dotless i  (upper() == 'I')
    "\u0130",  # I with dot above (lower() starts with 'i'; re folds it to i)
    "\u017f",  # long s     (upper() == 'S')
    "\u212a",  # Kelvin sign (lower() == 'k')
]


def alphabet(*langs: Lang) -> list[str]:
    chars = {chr(i) for i in range(128)} | set(NON_ASCII_REPS)
    for l in langs:
        chars |= l.literals | l.range_ends
    return sorted(chars)


def inclusion_counterexample(a: Lang, b: Lang, max_states: int = 200000) -> Optional[str]:
    """Shortest string accepted by `a` and not by `b`; None if L(a) is included in L(b)."""
    sigma = alphabet(a, b)
    start = (a.initial(), b.initial())
    seen = {start: None}
    dq = deque([start])
    while dq:
        cur = dq.popleft()
        ta, tb = cur
        if a.accepts_here(ta) and not b.accepts_here(tb):
            out = []
            k = cur
            while seen[k] is not None:
                k, ch = seen[k]
                out.append(ch)
            return "".join(reversed(out))
        for ch in sigma:
            na = a.step(ta, ch)
            if not na:
                continue
            nb = b.step(tb, ch)
            key = (na, nb)
            if key not in seen:
                if len(seen) > max_states:
                    raise AnalysisError("regex product automaton too large")
                seen[key] = (cur, ch)
                dq.append(key)
    return None


def product_states(a: Lang, b: Lang) -> int:
    sigma = alphabet(a, b)
    start = (a.initial(), b.initial())
    seen = {start}
    dq = deque([start])
    while dq:
        ta, tb = dq.popleft()
        for ch in sigma:
            na = a.step(ta, ch)
            if not na:
                continue
            key = (na, b.step(tb, ch))
            if key not in seen:
                seen.add(key)
                dq.append(key)
    return len(seen)


def selftest():
    """Cross-check the model against the real `re` engine on a grid of probe strings (model validation)."""
    probes = ["", "a", "a\n", "a\n\n", "_a", "__a", "a/b", "a/", "/a", "a b", "1a", "a1", "é", "aé", "a٣",
              "ｆoo", "a\nb", "a_", "_", "a//b", "a/b\n", "\na", "A9_z", "a²"]
    pats = [
        (r"^_?[a-zA-Z][a-zA-Z0-9_]*$", 0), (r"^_?[a-zA-Z][a-zA-Z0-9_]*\Z", 0), (r"^[a-zA-Z]\w*$", 0),
        (r"^[a-zA-Z][a-zA-Z0-9_]*(/[a-zA-Z][a-zA-Z0-9_]*)*$", 0), (r"[a-z]+", 0), (r"^[a-z]+$", re.I),
        (r"^\w+\Z", re.ASCII), (r"^[^/]+$", 0), (r"a.c", 0), (r"^(ab|cd){1,2}x?$", 0), (r"^\d+\Z", 0),
    ]
    n = 0
    for pat, fl in pats:
        rx = re.compile(pat, fl)
        for method in ("match", "fullmatch", "search"):
            lang = Lang(pat, fl, method)
            for s in probes:
                real = getattr(rx, method)(s) is not None
                if lang.accepts(s) != real:
                    raise AnalysisError(f"regex model disagrees with re on {pat!r}.{method}({s!r}): model={not real} re={real}")
                n += 1
    return n
