"""Checker-sensitivity run (thorough tier only): apply every recorded breaking change (seeded/<ID>-*/patch.diff) and every
behaviour-preserving twin (twins/<ID>-*/patch.diff) for the property to a scratch copy of the CURRENT /repo source, run the
same rules on it, and record which are detected / stay silent. A change that no longer applies because a later fix: commit
touched the same lines is evaluated on the newest ancestor commit of /repo it applies to, relative to that tree's own report.  The result goes into the evidence (`sensitivity`); it never
turns into a VIOLATION of the property - it measures the checker, not the repository.

Scratch copies are created with tempfile.mkdtemp() and removed before the function returns."""
from __future__ import annotations

import importlib
import io
import os
import shutil
import subprocess
import tempfile
from concurrent.futures import ProcessPoolExecutor
from contextlib import redirect_stdout

from .core import AnalysisError, Program
from .report import VERIF, Ctx, load_known

SEEDED = os.path.join(VERIF, "seeded")
TWINS = os.path.join(VERIF, "twins")


def _run_rules(prop: str, root: str):
    mod = importlib.import_module(f"sa.rules.{prop.lower()}")
    try:
        prog = Program(root)
        ctx = Ctx(prog, prop, "quick", 0)
        mod.run(ctx)
    except AnalysisError as e:
        return "analysis-error", [str(e)[:200]]
    except Exception as e:  # a crash of the checker on a variant is an analysis error, not a detection
        return "analysis-error", [f"{type(e).__name__}: {e}"[:200]]
    known = set()
    for k in load_known():
        if k.get("property") == prop and k.get("status") == "known":
            known |= set(([k["key"]] if "key" in k else []) + list(k.get("keys", [])))
    unlisted = [v for v in ctx.violations if v["key"] not in known]
    if unlisted:
        return "violation", [f"{v['rule']} {v['construct']} <{v['key']}>"[:220] for v in unlisted]
    if ctx.unmet_floors:
        return "analysis-error", ctx.unmet_floors[:2]
    return "silent", []


def _ancestors(repo_root: str) -> list[str]:
    r = subprocess.run(["git", "-C", repo_root, "log", "--format=%H", "-n", "40"], capture_output=True, text=True)
    return r.stdout.split()[1:] if r.returncode == 0 else []


def _variant(repo_root: str, patch: str, prop: str):
    d = tempfile.mkdtemp(prefix="vsens.")
    try:
        shutil.copytree(os.path.join(repo_root, "flow"), os.path.join(d, "flow"), ignore=shutil.ignore_patterns("__pycache__"))
        pinned = None
        mp = os.path.join(os.path.dirname(patch), "meta.json")
        if os.path.exists(mp):
            import json
            with open(mp) as fh:
                pinned = json.load(fh).get("evaluate_on_ancestor")
        ap = subprocess.run(["git", "apply", patch], cwd=d, capture_output=True, text=True)
        if ap.returncode == 0 and not pinned:
            status, detail = _run_rules(prop, d)
            return status, detail[:3]
        # The change was recorded against an earlier commit and a later fix: commit touched the same lines. It is evaluated where it was
        # written: on the newest ancestor it applies to, and only what the change ADDS to that ancestor's own report counts.
        ancestors = _ancestors(repo_root)
        if pinned:
            # a change that a later fix: commit made harmless is evaluated on the commit it was written for
            ancestors = [c for c in ancestors if c.startswith(pinned)] or ancestors
        for commit in ancestors:
            shutil.rmtree(os.path.join(d, "flow"), ignore_errors=True)
            ar = subprocess.run(f"git -C {repo_root} archive {commit} flow | tar -x -C {d}", shell=True, capture_output=True, text=True)
            if ar.returncode != 0:
                continue
            if subprocess.run(["git", "apply", "--check", patch], cwd=d, capture_output=True, text=True).returncode != 0:
                continue
            b_status, b_detail = _run_rules(prop, d)
            subprocess.run(["git", "apply", patch], cwd=d, capture_output=True, text=True)
            p_status, p_detail = _run_rules(prop, d)
            note = f"(evaluated on ancestor {commit[:7]}, relative to that tree's own report)"
            if p_status == "violation":
                def _k(x):  # the finding's key when it has one (a refactoring may rename the construct, the key stays)
                    return x[x.rindex("<"):] if "<" in x else x

                base_keys = {_k(x) for x in (b_detail if b_status == "violation" else [])}
                added = [x for x in p_detail if _k(x) not in base_keys]
                return ("violation", added[:3] + [note]) if added else ("silent", [note])
            if p_status == "analysis-error" and b_status != "analysis-error":
                return "analysis-error", p_detail[:2] + [note]
            return "silent", [note]
        return "skipped", ["patch applies neither to the current tree nor to one of its last 40 ancestors"]
    finally:
        shutil.rmtree(d, ignore_errors=True)


def _job(args):
    return _variant(*args)


def run_for(prop: str, repo_root: str, seed: int = 0) -> dict:
    prop = prop.upper()
    out = {"mutants": [], "twins": []}
    jobs = []
    for base, kind in ((SEEDED, "mutants"), (TWINS, "twins")):
        if not os.path.isdir(base):
            continue
        for name in sorted(os.listdir(base)):
            p = os.path.join(base, name, "patch.diff")
            # breaking changes: those written against this property; twins: ALL of them (a refactoring of any part of the
            # package must leave this property's rules silent)
            if os.path.isfile(p) and (kind == "twins" or name.startswith(prop + "-")):
                jobs.append((kind, name, p))
    with ProcessPoolExecutor(max_workers=min(16, max(1, len(jobs)))) as ex:
        results = list(ex.map(_job, [(repo_root, j[2], prop) for j in jobs]))
    for (kind, name, _), (status, detail) in zip(jobs, results):
        out[kind].append({"id": name, "result": status, "detail": detail})
    m, t = out["mutants"], out["twins"]
    out["twins"] = [x for x in t if x["result"] != "silent"]
    out["twins_silent_ids"] = [x["id"] for x in t if x["result"] == "silent"]
    out["summary"] = {
        "mutants_applied": sum(1 for x in m if x["result"] != "skipped"),
        "mutants_detected": sum(1 for x in m if x["result"] == "violation"),
        "mutants_analysis_error": sum(1 for x in m if x["result"] == "analysis-error"),
        "mutants_missed": [x["id"] for x in m if x["result"] == "silent"],
        "twins_applied": sum(1 for x in t if x["result"] != "skipped"),
        "twins_silent": sum(1 for x in t if x["result"] == "silent"),
        "twins_alarmed": [x["id"] for x in t if x["result"] == "violation"],
        "twins_analysis_error": [x["id"] for x in t if x["result"] == "analysis-error"],
    }
    s = out["summary"]
    print(f"sensitivity {prop}: {s['mutants_detected']}/{s['mutants_applied']} recorded breaking changes detected"
          f" (missed: {s['mutants_missed'] or 'none'}), {s['twins_silent']}/{s['twins_applied']} behaviour-preserving twins silent"
          f" (alarmed: {s['twins_alarmed'] or 'none'}, analysis-error: {s['twins_analysis_error'] or 'none'})")
    return out
