"""Statement-level control-flow graph for one function, with dominators, path queries, branch-condition facts and
reaching definitions.  Hand written because no CFG library exists for Python source; covers the statement kinds the
repository uses and raises AnalysisError on anything else (never a silent guess)."""
from __future__ import annotations

import ast
from collections import deque
from typing import Callable, Iterable, Optional

from .core import AnalysisError, dotted, norm, walk_no_nested

ENTRY, EXIT, RAISE = "entry", "exit", "raise"


class Node:
    __slots__ = ("id", "kind", "ast", "label")

    def __init__(self, id, kind, astnode=None, label=""):
        self.id = id
        self.kind = kind  # entry exit raise stmt test for with handler try finally
        self.ast = astnode
        self.label = label

    @property
    def lineno(self):
        return getattr(self.ast, "lineno", 0)

    def __repr__(self):
        return f"<{self.id}:{self.kind}:{self.label or (norm(self.ast)[:40] if self.ast is not None else '')}>"


class _Ctx:
    def __init__(self):
        self.loops = []  # list of dict(breaks=[], cont=node_id)
        self.handlers = []  # stack of list of handler-entry ids (+ meta) for enclosing try bodies
        self.finallies = []  # stack of dict(entries=[], kinds=set())


class CFG:
    def __init__(self, fn, implicit_exc: bool = False, nothrow=None):
        """fn: FunctionDef / AsyncFunctionDef / Lambda(not supported) / Module.
        nothrow(stmt) -> True for statements that cannot raise (no exceptional edge is added for them)."""
        self.fn = fn
        self.implicit_exc = implicit_exc
        self.nothrow = nothrow
        self.nodes: list[Node] = []
        self.succ: dict[int, list[tuple[int, Optional[tuple]]]] = {}
        self.pred: dict[int, list[tuple[int, Optional[tuple]]]] = {}
        self.by_ast: dict[int, int] = {}
        self.entry = self._new(ENTRY).id
        self.exit = self._new(EXIT).id
        self.raise_exit = self._new(RAISE).id
        ctx = _Ctx()
        body = fn.body if not isinstance(fn, ast.Lambda) else None
        if body is None:
            raise AnalysisError("CFG of lambda not supported")
        ends = self._seq(body, [(self.entry, None)], ctx)
        for e in ends:
            self._edge(e, self.exit)
        self._dom = None
        self._pdom = None

    # ------------------------------------------------------------------ construction
    def _new(self, kind, astnode=None, label="") -> Node:
        n = Node(len(self.nodes), kind, astnode, label)
        self.nodes.append(n)
        self.succ[n.id] = []
        self.pred[n.id] = []
        if astnode is not None and kind in ("stmt", "test", "for", "with", "handler"):
            self.by_ast.setdefault(id(astnode), n.id)
        return n

    def _edge(self, src, dst: int):
        sid, cond = src
        if (dst, cond) not in self.succ[sid]:
            self.succ[sid].append((dst, cond))
            self.pred[dst].append((sid, cond))

    def _attach(self, preds, node_id):
        for p in preds:
            self._edge(p, node_id)

    def _exc_targets(self, ctx) -> list[int]:
        """Where an exception raised here may go: handlers of the innermost try (and outwards unless caught-all)."""
        out = []
        for frame in reversed(ctx.handlers):
            out.extend(frame["ids"])
            if frame["catch_all"]:
                return out
            if frame.get("finally") is not None:
                out.append(frame["finally"])
                frame["fin_kinds"].add("raise")
                return out
        out.append(self.raise_exit)
        return out

    def _add_exc_edges(self, nid, ctx, explicit=False):
        if self.nothrow is not None and not explicit and self.nodes[nid].kind == "stmt" and self.nothrow(self.nodes[nid].ast):
            return
        if ctx.handlers or explicit or self.implicit_exc:
            for t in self._exc_targets(ctx):
                self._edge((nid, ("<exc>", True)), t)

    def _seq(self, stmts, preds, ctx):
        for st in stmts:
            preds = self._stmt(st, preds, ctx)
        return preds

    def _jump_through_finally(self, nid, kind, ctx, target_frame_depth=None):
        """Return/break/continue: route through enclosing finally blocks (innermost first). Returns True if routed."""
        for frame in reversed(ctx.handlers):
            if frame.get("finally") is not None and not frame.get("in_finally"):
                if kind in ("break", "continue") and frame["loop_depth"] < len(ctx.loops):
                    # the loop is inside this try; the jump does not leave the try
                    continue
                self._edge((nid, None), frame["finally"])
                frame["fin_kinds"].add(kind)
                if kind in ("break", "continue"):
                    frame.setdefault("fin_loop", ctx.loops[-1])
                return True
        return False

    def _stmt(self, st, preds, ctx):
        if isinstance(st, (ast.FunctionDef, ast.AsyncFunctionDef, ast.ClassDef)):
            n = self._new("stmt", st, f"def {st.name}")
            self._attach(preds, n.id)
            return [(n.id, None)]
        if isinstance(st, ast.If):
            t = self._new("test", st)
            self._attach(preds, t.id)
            self._add_exc_edges(t.id, ctx)
            c = _const_truth(st.test)
            body_preds = [] if c is False else [(t.id, (st.test, True))]
            else_preds = [] if c is True else [(t.id, (st.test, False))]
            out = self._seq(st.body, body_preds, ctx) if body_preds else []
            out2 = self._seq(st.orelse, else_preds, ctx) if else_preds else []
            return out + out2
        if isinstance(st, ast.While):
            t = self._new("test", st)
            self._attach(preds, t.id)
            self._add_exc_edges(t.id, ctx)
            loop = {"breaks": [], "cont": t.id}
            ctx.loops.append(loop)
            ends = self._seq(st.body, [(t.id, (st.test, True))], ctx)
            ctx.loops.pop()
            for e in ends:
                self._edge(e, t.id)
            c = _const_truth(st.test)
            out = []
            if c is not True:
                out = self._seq(st.orelse, [(t.id, (st.test, False))], ctx)
            return out + loop["breaks"]
        if isinstance(st, (ast.For, ast.AsyncFor)):
            h = self._new("for", st)
            self._attach(preds, h.id)
            self._add_exc_edges(h.id, ctx)
            loop = {"breaks": [], "cont": h.id}
            ctx.loops.append(loop)
            ends = self._seq(st.body, [(h.id, ("<iter>", True))], ctx)
            ctx.loops.pop()
            for e in ends:
                self._edge(e, h.id)
            out = self._seq(st.orelse, [(h.id, ("<iter>", False))], ctx)
            return out + loop["breaks"]
        if isinstance(st, (ast.With, ast.AsyncWith)):
            w = self._new("with", st)
            self._attach(preds, w.id)
            self._add_exc_edges(w.id, ctx)
            return self._seq(st.body, [(w.id, None)], ctx)
        if isinstance(st, ast.Try) or (hasattr(ast, "TryStar") and isinstance(st, getattr(ast, "TryStar"))):
            return self._try(st, preds, ctx)
        if isinstance(st, ast.Return):
            n = self._new("stmt", st)
            self._attach(preds, n.id)
            self._add_exc_edges(n.id, ctx)
            if not self._jump_through_finally(n.id, "return", ctx):
                self._edge((n.id, None), self.exit)
            return []
        if isinstance(st, ast.Raise):
            n = self._new("stmt", st)
            self._attach(preds, n.id)
            for t in self._exc_targets(ctx):
                self._edge((n.id, None), t)
            return []
        if isinstance(st, ast.Break):
            n = self._new("stmt", st)
            self._attach(preds, n.id)
            if not ctx.loops:
                raise AnalysisError("break outside loop")
            if not self._jump_through_finally(n.id, "break", ctx):
                ctx.loops[-1]["breaks"].append((n.id, None))
            return []
        if isinstance(st, ast.Continue):
            n = self._new("stmt", st)
            self._attach(preds, n.id)
            if not ctx.loops:
                raise AnalysisError("continue outside loop")
            if not self._jump_through_finally(n.id, "continue", ctx):
                self._edge((n.id, None), ctx.loops[-1]["cont"])
            return []
        if hasattr(ast, "Match") and isinstance(st, ast.Match):
            raise AnalysisError(f"match statement at line {st.lineno} is not modelled by the CFG builder")
        # simple statement
        n = self._new("stmt", st)
        self._attach(preds, n.id)
        self._add_exc_edges(n.id, ctx)
        if isinstance(st, ast.Assert):
            self._edge((n.id, ("<assert>", False)), self._exc_targets(ctx)[0])
        return [(n.id, None)]

    def _try(self, st, preds, ctx):
        tnode = self._new("try", st, "try")
        self._attach(preds, tnode.id)
        fin = None
        if st.finalbody:
            fin = self._new("finally", st, "finally")
        handler_nodes = [self._new("handler", h) for h in st.handlers]
        catch_all = any(_is_catch_all(h) for h in st.handlers)
        frame = {
            "ids": [h.id for h in handler_nodes],
            "catch_all": catch_all,
            "finally": fin.id if fin else None,
            "fin_kinds": set(),
            "loop_depth": len(ctx.loops),
        }
        ctx.handlers.append(frame)
        self._add_exc_edges(tnode.id, ctx)
        body_ends = self._seq(st.body, [(tnode.id, None)], ctx)
        ctx.handlers.pop()
        # else block: exceptions there are not caught by this try's handlers, but do pass the finally
        frame_else = dict(frame, ids=[], catch_all=False)
        if fin or st.orelse:
            ctx.handlers.append(frame_else)
        else_ends = self._seq(st.orelse, body_ends, ctx) if st.orelse else body_ends
        if fin or st.orelse:
            ctx.handlers.pop()
        normal_ends = list(else_ends)
        # handlers
        for h, hn in zip(st.handlers, handler_nodes):
            if fin:
                ctx.handlers.append(frame_else)
            ends = self._seq(h.body, [(hn.id, None)], ctx)
            if fin:
                ctx.handlers.pop()
            normal_ends.extend(ends)
        frame["fin_kinds"] |= frame_else["fin_kinds"]
        if not fin:
            return normal_ends
        # finally block (built once; exits fan out to every continuation that entered it)
        if normal_ends:
            frame["fin_kinds"].add("normal")
        self._attach(normal_ends, fin.id)
        ctx.handlers.append({"ids": [], "catch_all": False, "finally": None, "fin_kinds": set(), "in_finally": True,
                             "loop_depth": len(ctx.loops)})
        fin_ends = self._seq(st.finalbody, [(fin.id, None)], ctx)
        ctx.handlers.pop()
        out = []
        kinds = frame["fin_kinds"]
        for e in fin_ends:
            if "normal" in kinds:
                out.append(e)
            if "return" in kinds:
                if not self._jump_through_finally(e[0], "return", ctx):
                    self._edge(e, self.exit)
            if "raise" in kinds:
                for t in self._exc_targets(ctx):
                    self._edge((e[0], ("<exc>", True)), t)
            if "break" in kinds and ctx.loops:
                ctx.loops[-1]["breaks"].append(e)
            if "continue" in kinds and ctx.loops:
                self._edge(e, ctx.loops[-1]["cont"])
        return out

    # ------------------------------------------------------------------ lookup
    def node_of(self, astnode) -> Optional[Node]:
        """CFG node of a statement, or of the statement enclosing an expression."""
        n = astnode
        while n is not None:
            nid = self.by_ast.get(id(n))
            if nid is not None:
                # an expression in the body of a compound statement must not map to the compound's header:
                return self.nodes[nid]
            if n is self.fn:
                return None
            n = getattr(n, "_parent", None)
        return None

    def header_node_for_expr(self, expr) -> Optional[Node]:
        """Node in which `expr` is evaluated. For compound statements only header expressions (test / iter / items)
        map to the header node."""
        child = expr
        n = getattr(expr, "_parent", None)
        while n is not None:
            if isinstance(n, ast.stmt):
                nid = self.by_ast.get(id(n))
                if nid is None:
                    return None
                if isinstance(n, (ast.If, ast.While)):
                    return self.nodes[nid] if child is n.test else None
                if isinstance(n, (ast.For, ast.AsyncFor)):
                    return self.nodes[nid] if child in (n.iter, n.target) else None
                if isinstance(n, (ast.With, ast.AsyncWith)):
                    return self.nodes[nid] if child in n.items else None
                return self.nodes[nid]
            if isinstance(n, ast.ExceptHandler):
                nid = self.by_ast.get(id(n))
                return self.nodes[nid] if nid is not None else None
            if isinstance(n, (ast.FunctionDef, ast.AsyncFunctionDef, ast.Lambda, ast.ClassDef)) and n is not self.fn:
                # expression lives in a nested scope: attribute it to the statement that defines the nested scope
                pass
            child = n
            n = getattr(n, "_parent", None)
        return None

    def stmt_nodes(self) -> Iterable[Node]:
        return [n for n in self.nodes if n.kind in ("stmt", "test", "for", "with", "handler")]

    # ------------------------------------------------------------------ reachability
    def reachable(self, src: int, avoid: Optional[Callable[[Node], bool]] = None, forward=True) -> set[int]:
        """Nodes reachable from src without passing *through* a node satisfying avoid (src itself is not tested)."""
        seen = {src}
        dq = deque([src])
        adj = self.succ if forward else self.pred
        while dq:
            u = dq.popleft()
            for v, _ in adj[u]:
                if v in seen:
                    continue
                if avoid is not None and avoid(self.nodes[v]):
                    continue
                seen.add(v)
                dq.append(v)
        return seen

    def live_nodes(self) -> set[int]:
        return self.reachable(self.entry)

    def must_pass_through(self, targets: Iterable[int], via: Callable[[Node], bool], src: Optional[int] = None) -> list[int]:
        """Targets that CAN be reached from src (default entry) avoiding every `via` node. Empty list = rule holds.
        A target that itself satisfies `via` counts as passing."""
        src = self.entry if src is None else src
        r = self.reachable(src, avoid=via)
        return [t for t in targets if t in r and not via(self.nodes[t])]

    def path_avoiding(self, target: int, via: Callable[[Node], bool], src: Optional[int] = None) -> list[Node]:
        """A witness path src -> target avoiding `via` nodes (for diagnostics)."""
        src = self.entry if src is None else src
        prev = {src: None}
        dq = deque([src])
        while dq:
            u = dq.popleft()
            if u == target:
                break
            for v, _ in self.succ[u]:
                if v in prev or (via(self.nodes[v]) and v != target):
                    continue
                prev[v] = u
                dq.append(v)
        if target not in prev:
            return []
        out = []
        u = target
        while u is not None:
            out.append(self.nodes[u])
            u = prev[u]
        return list(reversed(out))

    # ------------------------------------------------------------------ dominators
    def _dominators(self, forward=True, sinks=None):
        live = self.live_nodes()
        if forward:
            start = [self.entry]
            pred = self.pred
        else:
            start = list(sinks if sinks is not None else [self.exit, self.raise_exit])
            pred = self.succ
        nodes = [n.id for n in self.nodes if n.id in live]
        full = set(nodes)
        dom = {n: set(full) for n in nodes}
        for s in start:
            if s in dom:
                dom[s] = {s}
        changed = True
        while changed:
            changed = False
            for n in nodes:
                if n in start:
                    continue
                ps = [p for p, _ in pred[n] if p in live]
                if not ps:
                    new = {n}
                else:
                    new = set.intersection(*(dom[p] for p in ps)) | {n}
                if new != dom[n]:
                    dom[n] = new
                    changed = True
        return dom

    def dominates(self, a: int, b: int) -> bool:
        if self._dom is None:
            self._dom = self._dominators(True)
        return b in self._dom and a in self._dom[b]

    def postdominates(self, a: int, b: int, normal_only=False) -> bool:
        """a is on every path from b to the exit(s)."""
        key = "n" if normal_only else "a"
        if self._pdom is None:
            self._pdom = {}
        if key not in self._pdom:
            self._pdom[key] = self._dominators(False, [self.exit] if normal_only else [self.exit, self.raise_exit])
        d = self._pdom[key]
        return b in d and a in d[b]

    # ------------------------------------------------------------------ branch facts
    def facts_at(self, target: int) -> set[tuple[str, bool]]:
        """Branch conditions (normalised source, polarity) that hold on EVERY path from entry to `target`.
        Facts are killed by stores to a name/attribute path they mention."""
        live = self.live_nodes()
        TOP = None
        state: dict[int, Optional[frozenset]] = {n.id: TOP for n in self.nodes}
        state[self.entry] = frozenset()
        work = deque([self.entry])
        while work:
            u = work.popleft()
            out = state[u]
            if out is None:
                continue
            out = self._kill(self.nodes[u], out)
            for v, cond in self.succ[u]:
                if v not in live:
                    continue
                facts = out | frozenset(_decompose(cond)) if cond is not None and not isinstance(cond[0], str) else out
                old = state[v]
                new = facts if old is None else (old & facts)
                if new != old:
                    state[v] = new
                    work.append(v)
        return set(state[target] or ())

    def copy_source(self, name: str, at: int, depth: int = 0) -> str:
        """Follow plain copies backwards: if the only definition of `name` reaching node `at` is `name = other` (or a tuple assignment
        giving it `other`), and `other` has not been re-bound between that definition and `at`, return copy_source(other); else name."""
        if depth > 6:
            return name
        rd = self.reaching_defs(name).get(at, set())
        if len(rd) != 1:
            return name
        d = next(iter(rd))
        st = self.nodes[d].ast
        if not isinstance(st, ast.Assign) or len(st.targets) != 1:
            return name
        t, v = st.targets[0], st.value
        src = None
        if isinstance(t, ast.Name) and t.id == name and isinstance(v, ast.Name):
            src = v.id
        elif isinstance(t, (ast.Tuple, ast.List)) and isinstance(v, (ast.Tuple, ast.List)) and len(t.elts) == len(v.elts):
            for a, b in zip(t.elts, v.elts):
                if isinstance(a, ast.Name) and a.id == name and isinstance(b, ast.Name):
                    src = b.id
        if src is None or src == name:
            return name
        # `src` must still hold the same object at `at`: its reaching definitions at `at` equal those at the copy
        if self.reaching_defs(src).get(at, set()) != self.reaching_defs(src).get(d, set()):
            return name
        return self.copy_source(src, d, depth + 1)

    def reachable_avoiding_edges(self, start: int, blocked) -> set[int]:
        """Nodes reachable from `start` along edges for which blocked(u, v, cond) is false (cond is (test expr, polarity) for
        branch edges, None or a (str, ...) marker otherwise)."""
        seen = {start}
        dq = deque([start])
        while dq:
            u = dq.popleft()
            for v, cond in self.succ[u]:
                c = cond if (cond is not None and not isinstance(cond[0], str)) else None
                if blocked(u, v, c):
                    continue
                if v not in seen:
                    seen.add(v)
                    dq.append(v)
        return seen

    def must_hold(self, target: int, edge_establishes, node_transfer) -> bool:
        """Must-analysis of one boolean property P along all paths from entry to the START of `target`.
        edge_establishes(facts) -> bool : the decomposed branch facts [(text, polarity, paths)] of a taken edge make P true;
        node_transfer(node) -> True (node makes P true) | False (node destroys P) | None (node leaves P alone).
        P is false at entry."""
        live = self.live_nodes()
        state: dict[int, Optional[bool]] = {n.id: None for n in self.nodes}
        state[self.entry] = False
        work = deque([self.entry])
        while work:
            u = work.popleft()
            cur = state[u]
            if cur is None:
                continue
            t = node_transfer(self.nodes[u]) if self.nodes[u].ast is not None else None
            out = cur if t is None else t
            for v, cond in self.succ[u]:
                if v not in live:
                    continue
                val = out
                if cond is not None and not isinstance(cond[0], str) and edge_establishes(_decompose(cond)):
                    val = True
                old = state[v]
                new = val if old is None else (old and val)
                if new != old:
                    state[v] = new
                    work.append(v)
        return bool(state[target])

    @staticmethod
    def _kill(node: Node, facts: frozenset) -> frozenset:
        if node.ast is None or not facts:
            return facts
        stored = stored_paths(node)
        if not stored:
            return facts
        keep = []
        for text, pol, paths in facts:
            if any(p == s or p.startswith(s + ".") or s.startswith(p + ".") for p in paths for s in stored):
                continue
            keep.append((text, pol, paths))
        return frozenset(keep)

    def holds_at(self, target: int, text: str, polarity: bool = True) -> bool:
        return any(t == text and p == polarity for t, p, _ in self.facts_at(target))

    # ------------------------------------------------------------------ reaching definitions
    def reaching_defs(self, name: str) -> dict[int, set[int]]:
        """For variable `name`: node id -> set of node ids (or entry for parameter/initial) whose definition of `name`
        may reach the *start* of the node."""
        live = self.live_nodes()
        defs_at = {n.id: (name in stored_paths(n)) for n in self.nodes}
        IN: dict[int, set[int]] = {n.id: set() for n in self.nodes}
        IN[self.entry] = set()
        OUT: dict[int, set[int]] = {n.id: set() for n in self.nodes}
        OUT[self.entry] = {self.entry}
        work = deque(n.id for n in self.nodes if n.id in live)
        while work:
            u = work.popleft()
            if u != self.entry:
                inn = set()
                for p, _ in self.pred[u]:
                    if p in live:
                        inn |= OUT[p]
                IN[u] = inn
                new = {u} if defs_at[u] else inn
            else:
                new = {self.entry}
            if new != OUT[u]:
                OUT[u] = new
                for v, _ in self.succ[u]:
                    work.append(v)
        return IN


def stored_paths(node: Node) -> set[str]:
    """Dotted paths (x, self.a, self.a.b) assigned by the node itself (not by nested statements of a compound)."""
    a = node.ast
    out: set[str] = set()
    if a is None:
        return out

    def add_target(t):
        if isinstance(t, (ast.Tuple, ast.List)):
            for e in t.elts:
                add_target(e)
        elif isinstance(t, ast.Starred):
            add_target(t.value)
        else:
            d = dotted(t)
            if d:
                out.add(d)
            elif isinstance(t, ast.Subscript):
                d = dotted(t.value)
                if d:
                    out.add(d + "[]")

    if node.kind == "stmt":
        if isinstance(a, ast.Assign):
            for t in a.targets:
                add_target(t)
        elif isinstance(a, (ast.AugAssign, ast.AnnAssign)):
            add_target(a.target)
        elif isinstance(a, ast.Delete):
            for t in a.targets:
                add_target(t)
        elif isinstance(a, (ast.FunctionDef, ast.AsyncFunctionDef, ast.ClassDef)):
            out.add(a.name)
        elif isinstance(a, (ast.Import, ast.ImportFrom)):
            for al in a.names:
                out.add((al.asname or al.name).split(".")[0])
        exprs = [a]
    elif node.kind == "for":
        add_target(a.target)
        exprs = [a.iter]
    elif node.kind == "with":
        for it in a.items:
            if it.optional_vars is not None:
                add_target(it.optional_vars)
        exprs = [it.context_expr for it in a.items]
    elif node.kind == "handler":
        if a.name:
            out.add(a.name)
        exprs = []
    elif node.kind == "test":
        exprs = [a.test]
    else:
        exprs = []
    for e in exprs:
        for n in walk_no_nested(e):
            if isinstance(n, ast.NamedExpr):
                add_target(n.target)
    return out


def _decompose(cond):
    """(expr, polarity) -> list of facts (text, polarity, frozenset(paths))."""
    expr, pol = cond
    out = []

    def paths_of(e):
        ps = set()
        for n in ast.walk(e):
            d = dotted(n) if isinstance(n, (ast.Name, ast.Attribute)) else None
            if d:
                ps.add(d)
        return frozenset(ps)

    def rec(e, p):
        out.append((norm(e), p, paths_of(e)))
        if isinstance(e, ast.UnaryOp) and isinstance(e.op, ast.Not):
            rec(e.operand, not p)
        elif isinstance(e, ast.BoolOp):
            if isinstance(e.op, ast.And) and p:
                for v in e.values:
                    rec(v, True)
            elif isinstance(e.op, ast.Or) and not p:
                for v in e.values:
                    rec(v, False)
        elif isinstance(e, ast.Compare) and len(e.ops) == 1:
            # canonical complements:  a is None / a is not None ;  a in b / a not in b ; == / !=
            comp = {ast.Is: ast.IsNot, ast.IsNot: ast.Is, ast.In: ast.NotIn, ast.NotIn: ast.In, ast.Eq: ast.NotEq,
                    ast.NotEq: ast.Eq, ast.Lt: ast.GtE, ast.GtE: ast.Lt, ast.Gt: ast.LtE, ast.LtE: ast.Gt}
            k = comp.get(type(e.ops[0]))
            if k is not None:
                flipped = ast.Compare(left=e.left, ops=[k()], comparators=e.comparators)
                out.append((norm(flipped), not p, paths_of(e)))
        elif isinstance(e, ast.NamedExpr):
            out.append((norm(e.target), p, paths_of(e.target)))

    rec(expr, pol)
    return out


def _const_truth(test):
    if isinstance(test, ast.Constant):
        return bool(test.value)
    return None


def _is_catch_all(h: ast.ExceptHandler) -> bool:
    if h.type is None:
        return True
    names = []
    if isinstance(h.type, ast.Tuple):
        names = [dotted(e) for e in h.type.elts]
    else:
        names = [dotted(h.type)]
    return any(n in ("BaseException", "Exception") for n in names)


def plain_store_nothrow(st) -> bool:
    """Assignments of a name/constant/attribute to a name or self attribute, pass, and constant returns cannot raise
    (for the purposes of ordering rules; MemoryError and the like are out of scope)."""
    if isinstance(st, ast.Pass):
        return True
    if isinstance(st, ast.Assign):
        simple_val = isinstance(st.value, (ast.Name, ast.Constant)) or (isinstance(st.value, ast.Attribute) and isinstance(st.value.value, ast.Name))
        simple_tgt = all(isinstance(t, ast.Name) or (isinstance(t, ast.Attribute) and isinstance(t.value, ast.Name)) for t in st.targets)
        return simple_val and simple_tgt
    if isinstance(st, ast.Return):
        return st.value is None or isinstance(st.value, (ast.Name, ast.Constant))
    return False
