"""Canonical form, step 2 (after inlining): trivial local aliases are forward-substituted.

A local that is assigned exactly once from a *path expression* - a name, an attribute chain, a constant, or an index with a
constant / `type(<path>)` subscript - and whose inputs are never re-bound in the function is replaced by that expression at
every use, and the assignment is dropped.  `desc = record._desc; f(desc)` and `f(record._desc)` are the same program to every
rule; so are `op = TABLE[type(node.op)]; op(a, b)` and `TABLE[type(node.op)](a, b)`.  Values that are calls, comparisons,
displays etc. are left alone (evaluating them elsewhere could matter)."""
from __future__ import annotations

import ast
import re

from .core import copy_ast, dotted, func_params


def _is_path(e, depth=0) -> bool:
    if depth > 6:
        return False
    if isinstance(e, ast.Constant):
        return isinstance(e.value, (str, bytes, int, float, bool, type(None)))
    if isinstance(e, ast.Name):
        return True
    if isinstance(e, ast.Attribute):
        return _is_path(e.value, depth + 1)
    if isinstance(e, ast.Subscript):
        sl = e.slice
        ok_slice = isinstance(sl, ast.Constant) or _is_path(sl, depth + 1) or (
            isinstance(sl, ast.Call) and isinstance(sl.func, ast.Name) and sl.func.id == "type" and len(sl.args) == 1 and not sl.keywords and _is_path(sl.args[0], depth + 1))
        return ok_slice and _is_path(e.value, depth + 1)
    return False


def _own_nodes(fn):
    """Nodes of the function's own scope (nested defs / lambdas / classes are not entered; comprehensions are)."""
    stack = list(fn.body)
    while stack:
        n = stack.pop()
        yield n
        for c in ast.iter_child_nodes(n):
            if isinstance(c, (ast.FunctionDef, ast.AsyncFunctionDef, ast.Lambda, ast.ClassDef)):
                continue
            stack.append(c)


def _nested_scopes(fn):
    for n in ast.walk(fn):
        if n is not fn and isinstance(n, (ast.FunctionDef, ast.AsyncFunctionDef, ast.Lambda, ast.ClassDef)):
            yield n


def _stored_paths(fn) -> set:
    out = set()

    def add(t):
        if isinstance(t, (ast.Tuple, ast.List)):
            for x in t.elts:
                add(x)
        elif isinstance(t, ast.Starred):
            add(t.value)
        else:
            root = t
            while isinstance(root, ast.Subscript):
                root = root.value
            d = dotted(root)
            if d:
                out.add(d)

    for n in ast.walk(fn):
        if isinstance(n, ast.Assign):
            for t in n.targets:
                add(t)
        elif isinstance(n, (ast.AugAssign, ast.AnnAssign)):
            add(n.target)
        elif isinstance(n, (ast.For, ast.AsyncFor, ast.comprehension)):
            add(n.target)
        elif isinstance(n, (ast.With, ast.AsyncWith)):
            for it in n.items:
                if it.optional_vars is not None:
                    add(it.optional_vars)
        elif isinstance(n, ast.Delete):
            for t in n.targets:
                add(t)
        elif isinstance(n, ast.NamedExpr):
            add(n.target)
        elif isinstance(n, ast.ExceptHandler) and n.name:
            out.add(n.name)
        elif isinstance(n, (ast.Global, ast.Nonlocal)):
            out.update(n.names)
        elif isinstance(n, (ast.Import, ast.ImportFrom)):
            for a in n.names:
                out.add((a.asname or a.name).split(".")[0])
    return out


def _unstable_paths(fn) -> set:
    """Paths whose value can change behind the function's back while it runs: module globals that some function re-binds through a
    `global` declaration, and self.<attr> that another method of the class assigns.  An alias of such a path is a SNAPSHOT (save /
    restore idiom), not a synonym, and must stay."""
    out = set()
    mod = getattr(fn, "_module", None)
    tree = getattr(mod, "tree", None)
    if tree is not None:
        cached = getattr(mod, "_global_rebound", None)
        if cached is None:
            cached = set()
            for g in ast.walk(tree):
                if isinstance(g, ast.Global):
                    cached.update(g.names)
            mod._global_rebound = cached
        out |= cached
    cls = getattr(fn, "_parent", None)
    while cls is not None and not isinstance(cls, ast.ClassDef):
        cls = getattr(cls, "_parent", None)
    if cls is not None:
        for m in cls.body:
            if isinstance(m, (ast.FunctionDef, ast.AsyncFunctionDef)) and m is not fn and m.name != "__init__":
                mp = func_params(m)
                selfname = mp[0] if mp else "self"
                for n in ast.walk(m):
                    if isinstance(n, ast.Attribute) and isinstance(n.ctx, (ast.Store, ast.Del)) and isinstance(n.value, ast.Name) and n.value.id == selfname:
                        out.add(f"self.{n.attr}")
    return out


def _bound_method_snapshot_ok(fn, st, name, selfname) -> bool:
    """`w = self.fp.write; w(a); w(b)`: a bound method of state another method may re-bind, taken and used within one straight
    line of statements of the same block in which nothing can re-bind it - no call of a method of `self`, no yield/await, no
    store to an attribute of self - and the alias is only ever called. Then `w(a)` is `self.fp.write(a)`."""
    holder = getattr(st, "_parent", None)
    for attr in ("body", "orelse", "finalbody"):
        blk = getattr(holder, attr, None)
        if isinstance(blk, list) and any(b is st for b in blk):
            break
    else:
        return False
    i = next(k for k, b in enumerate(blk) if b is st)
    uses = [x for x in _own_nodes(fn) if isinstance(x, ast.Name) and x.id == name and isinstance(x.ctx, ast.Load)]
    def _called(u):
        par = getattr(u, "_parent", None)
        if isinstance(par, ast.Call) and par.func is u:
            return True
        # `fp = self.fp; fp.write(a); fp.write(b)`: the alias is only the receiver of method calls
        gp = getattr(par, "_parent", None)
        return isinstance(par, ast.Attribute) and par.value is u and isinstance(gp, ast.Call) and gp.func is par

    if not uses or not all(_called(u) for u in uses):
        return False
    last = i
    for u in uses:
        k = next((k for k in range(i + 1, len(blk)) if any(u is x for x in ast.walk(blk[k]))), None)
        if k is None:
            return False
        last = max(last, k)
    for k in range(i + 1, last + 1):
        for x in ast.walk(blk[k]):
            if isinstance(x, (ast.Yield, ast.YieldFrom, ast.Await, ast.FunctionDef, ast.Lambda)):
                return False
            if isinstance(x, ast.Call) and isinstance(x.func, ast.Attribute) and isinstance(x.func.value, ast.Name) and x.func.value.id == selfname:
                return False
            if isinstance(x, ast.Attribute) and isinstance(x.ctx, (ast.Store, ast.Del)) and isinstance(x.value, ast.Name) and x.value.id == selfname:
                return False
    return True


def substitute_function(fn) -> int:
    params = set(func_params(fn))
    a = fn.args
    params |= {x.arg for x in a.kwonlyargs}
    if a.vararg:
        params.add(a.vararg.arg)
    if a.kwarg:
        params.add(a.kwarg.arg)
    done = 0
    if not any(isinstance(n, ast.Assign) and len(n.targets) == 1 and isinstance(n.targets[0], ast.Name) and _is_path(n.value) for n in _own_nodes(fn)):
        return 0
    unstable = _unstable_paths(fn)
    for _ in range(8):
        counts = {}
        cand = {}
        for n in _own_nodes(fn):
            if isinstance(n, ast.Assign):
                for t in n.targets:
                    for x in ast.walk(t):
                        if isinstance(x, ast.Name) and isinstance(x.ctx, ast.Store):
                            counts[x.id] = counts.get(x.id, 0) + 1
                if len(n.targets) == 1 and isinstance(n.targets[0], ast.Name) and _is_path(n.value):
                    cand[n.targets[0].id] = n
            elif isinstance(n, (ast.AugAssign, ast.AnnAssign, ast.For, ast.AsyncFor, ast.comprehension, ast.NamedExpr)):
                for x in ast.walk(n.target):
                    if isinstance(x, ast.Name) and isinstance(x.ctx, (ast.Store, ast.Del)):
                        counts[x.id] = counts.get(x.id, 0) + 2
            elif isinstance(n, (ast.With, ast.AsyncWith)):
                for it in n.items:
                    if it.optional_vars is not None:
                        for x in ast.walk(it.optional_vars):
                            if isinstance(x, ast.Name):
                                counts[x.id] = counts.get(x.id, 0) + 2
            elif isinstance(n, ast.ExceptHandler) and n.name:
                counts[n.name] = counts.get(n.name, 0) + 2
            elif isinstance(n, (ast.Global, ast.Nonlocal)):
                for nm in n.names:
                    counts[nm] = counts.get(nm, 0) + 2
            elif isinstance(n, ast.Delete):
                for t in n.targets:
                    for x in ast.walk(t):
                        if isinstance(x, ast.Name):
                            counts[x.id] = counts.get(x.id, 0) + 2
        stored = _stored_paths(fn)
        selfname = (func_params(fn) or ["self"])[0]
        nested_names = {x.id for sc in _nested_scopes(fn) for x in ast.walk(sc) if isinstance(x, ast.Name)}
        chosen = None
        for name, st in cand.items():
            if counts.get(name) != 1 or name in params or name in nested_names:
                continue
            v = st.value
            free = set()
            for x in ast.walk(v):
                d = dotted(x) if isinstance(x, (ast.Name, ast.Attribute)) else None
                if d:
                    free.add(d)
            if name in {f.split(".")[0] for f in free}:
                continue
            # only the maximal paths are what the value reads (`self.records` reads self.records, not all of `self`)
            free = {f for f in free if not any(g != f and g.startswith(f + ".") for g in free)}
            # nothing the value reads is re-bound anywhere in the function (the alias itself is the one allowed store)
            clash = False
            # a free NAME that has exactly one definition, placed before the alias, holds one value for the alias's whole life
            single_before = set()
            for f in free:
                if "." not in f and counts.get(f) == 1 and f not in params:
                    dst = next((x for x in _own_nodes(fn) if isinstance(x, ast.Assign) and any(isinstance(y, ast.Name) and y.id == f and isinstance(y.ctx, ast.Store)
                                                                                               for t_ in x.targets for y in ast.walk(t_))), None)
                    if dst is not None and _before(dst, st):
                        single_before.add(f)
            # a loop variable of the loop the alias lives in: re-bound once per iteration, together with the alias
            for f in free:
                if "." in f or f in single_before:
                    continue
                lp = getattr(st, "_parent", None)
                while lp is not None and lp is not fn:
                    if isinstance(lp, (ast.For, ast.AsyncFor)) and any(isinstance(x, ast.Name) and x.id == f for x in ast.walk(lp.target)):
                        break
                    lp = getattr(lp, "_parent", None)
                if lp is None or lp is fn:
                    continue
                other_stores = [x for x in _own_nodes(fn) if isinstance(x, ast.Name) and x.id == f and isinstance(x.ctx, (ast.Store, ast.Del))
                                and not any(x is y for y in ast.walk(lp.target))]
                inside = {id(x) for x in ast.walk(lp)}
                alias_uses_inside = all(id(x) in inside for x in _own_nodes(fn) if isinstance(x, ast.Name) and x.id == name)
                if not other_stores and alias_uses_inside:
                    single_before.add(f)
            # the same for an attribute path set up once earlier in the function (self.records = []; members = self.records)
            for f in free:
                if "." in f:
                    # ... also for a prefix of the path: `self.records = []; add = self.records.append`
                    parts_ = f.split(".")
                    for pre in (".".join(parts_[:k]) for k in range(len(parts_), 1, -1)):
                        sts = [x for x in _own_nodes(fn) if isinstance(x, ast.Attribute) and isinstance(x.ctx, ast.Store) and dotted(x) == pre]
                        if len(sts) == 1 and _before(sts[0], st):
                            single_before.add(pre)
            # the root of an attribute path that is a local with one definition, placed before the alias (`values = []; append = values.append`):
            # the local names one object for the alias's whole life - its single store is not a re-binding
            stable_roots = set()
            for f in free:
                root = f.split(".")[0]
                if "." in f and counts.get(root) == 1 and root not in params:
                    dst = next((x for x in _own_nodes(fn) if isinstance(x, ast.Assign) and any(isinstance(y, ast.Name) and y.id == root and isinstance(y.ctx, ast.Store)
                                                                                               for t_ in x.targets for y in ast.walk(t_))), None)
                    if dst is not None and _before(dst, st):
                        stable_roots.add(root)
            # ... or the variable of the loop the alias lives in (`for gen in gens: target = gen.target.id`), used only inside that loop
            for f in free:
                root = f.split(".")[0]
                if "." not in f or root in stable_roots:
                    continue
                lp = getattr(st, "_parent", None)
                while lp is not None and lp is not fn:
                    if isinstance(lp, (ast.For, ast.AsyncFor)) and any(isinstance(x, ast.Name) and x.id == root for x in ast.walk(lp.target)):
                        break
                    lp = getattr(lp, "_parent", None)
                if lp is None or lp is fn:
                    continue
                other_stores = [x for x in _own_nodes(fn) if isinstance(x, ast.Name) and x.id == root and isinstance(x.ctx, (ast.Store, ast.Del))
                                and not any(x is y for y in ast.walk(lp.target))]
                inside = {id(x) for x in ast.walk(lp)}
                if not other_stores and all(id(x) in inside for x in _own_nodes(fn) if isinstance(x, ast.Name) and x.id == name):
                    stable_roots.add(root)
            for s_ in stored:
                if s_ == name or s_ in single_before or s_ in stable_roots:
                    continue
                for f in free:
                    if f == s_ or f.startswith(s_ + ".") or s_.startswith(f + "."):
                        clash = True
            for f in free:
                fs = f if selfname == "self" else (("self" + f[len(selfname):]) if f == selfname or f.startswith(selfname + ".") else f)
                if any(fs == u or fs.startswith(u + ".") for u in unstable):
                    if not _bound_method_snapshot_ok(fn, st, name, selfname):
                        clash = True
            if clash:
                continue
            # the assignment must not sit in a loop or a conditional branch (one unconditional definition)
            par = getattr(st, "_parent", None)
            cond = False
            while par is not None and par is not fn:
                if isinstance(par, (ast.If, ast.For, ast.While, ast.Try, ast.With, ast.AsyncFor, ast.AsyncWith, ast.Match if hasattr(ast, "Match") else ast.If)):
                    cond = True
                    break
                par = getattr(par, "_parent", None)
            if cond and not isinstance(v, ast.Constant):
                # inside a block: only safe when every use is in the same block after it - keep it simple and skip
                uses_outside = False
                blk_nodes = {id(x) for x in ast.walk(par)} if par is not None else set()
                for x in _own_nodes(fn):
                    if isinstance(x, ast.Name) and x.id == name and isinstance(x.ctx, ast.Load) and id(x) not in blk_nodes:
                        uses_outside = True
                if uses_outside:
                    continue
            chosen = (name, st)
            break
        if chosen is None:
            break
        name, st = chosen

        class T(ast.NodeTransformer):
            def visit_Name(self, node):
                if node.id == name and isinstance(node.ctx, ast.Load):
                    new = copy_ast(st.value)
                    for x in ast.walk(new):
                        ast.copy_location(x, node)
                        if hasattr(node, "_module"):
                            x._module = node._module
                    return new
                return node

            def visit_FunctionDef(self, node):
                return node

            visit_AsyncFunctionDef = visit_FunctionDef
            visit_Lambda = visit_FunctionDef
            visit_ClassDef = visit_FunctionDef

        for i, s0 in enumerate(list(fn.body)):
            fn.body[i] = T().visit(s0)
        # drop the alias assignment

        class D(ast.NodeTransformer):
            def visit_Assign(self, node):
                if node is st:
                    p = ast.Pass()
                    ast.copy_location(p, node)
                    if hasattr(node, "_module"):
                        p._module = node._module
                    return p
                return node

            def visit_FunctionDef(self, node):
                return node

            visit_AsyncFunctionDef = visit_FunctionDef
            visit_ClassDef = visit_FunctionDef

        for i, s0 in enumerate(list(fn.body)):
            fn.body[i] = D().visit(s0)
        _strip_pass(fn)
        for node in ast.walk(fn):
            for child in ast.iter_child_nodes(node):
                child._parent = node
        done += 1
    return done


def _strip_pass(node):
    for n in ast.walk(node):
        for attr in ("body", "orelse", "finalbody"):
            blk = getattr(n, attr, None)
            if isinstance(blk, list) and len(blk) > 1 and any(isinstance(x, ast.Pass) for x in blk):
                kept = [x for x in blk if not isinstance(x, ast.Pass)]
                setattr(n, attr, kept or [blk[0]])


def split_tuple_assignments(fn) -> int:
    """`a, b = x, y` -> `a = x; b = y` when no right-hand side reads a target assigned before it (then the two are the same program)."""
    n_split = 0
    for node in ast.walk(fn):
        for attr in ("body", "orelse", "finalbody"):
            blk = getattr(node, attr, None)
            if not isinstance(blk, list):
                continue
            out = []
            for st in blk:
                if isinstance(st, ast.Assign) and len(st.targets) == 1 and isinstance(st.targets[0], (ast.Tuple, ast.List)) and isinstance(st.value, (ast.Tuple, ast.List)) \
                        and len(st.targets[0].elts) == len(st.value.elts) and all(isinstance(t, ast.Name) or (isinstance(t, ast.Attribute) and dotted(t)) for t in st.targets[0].elts) \
                        and not any(isinstance(v, ast.Starred) for v in st.value.elts) \
                        and (all(isinstance(t, ast.Name) for t in st.targets[0].elts) or all(isinstance(v, (ast.Name, ast.Constant)) for v in st.value.elts)):
                    tnames = [t.id if isinstance(t, ast.Name) else dotted(t) for t in st.targets[0].elts]
                    ok = True
                    for j, v in enumerate(st.value.elts):
                        used = {x.id for x in ast.walk(v) if isinstance(x, ast.Name)} | {dotted(x) for x in ast.walk(v) if isinstance(x, ast.Attribute) and dotted(x)}
                        if used & set(tnames[:j]):
                            ok = False
                    if ok and len(set(tnames)) == len(tnames):
                        for t, v in zip(st.targets[0].elts, st.value.elts):
                            a = ast.Assign(targets=[t], value=v)
                            ast.copy_location(a, st)
                            if hasattr(st, "_module"):
                                a._module = st._module
                            out.append(a)
                        n_split += 1
                        continue
                out.append(st)
            setattr(node, attr, out)
    if n_split:
        for node in ast.walk(fn):
            for child in ast.iter_child_nodes(node):
                child._parent = node
    return n_split


def _load_form(t):
    """The expression that reads back what an assignment to target `t` stored; `obj.__dict__["x"]` reads as `obj.x`."""
    from .core import copy_ast
    e = copy_ast(t)
    for x in ast.walk(e):
        if hasattr(x, "ctx"):
            x.ctx = ast.Load()
    if isinstance(e, ast.Subscript) and isinstance(e.value, ast.Attribute) and e.value.attr == "__dict__" and isinstance(e.slice, ast.Constant) and isinstance(e.slice.value, str):
        e = ast.Attribute(value=e.value.value, attr=e.slice.value, ctx=ast.Load())
    return e


def split_chained_assignments(fn) -> int:
    """`a.x = b = V` -> `a.x = V; b = a.x` (the attribute/subscript target first: the alias pass then reads every use of `b` as
    `a.x`). The targets of a chained assignment all receive the same object, so the split is the same program provided reading a
    target back returns what was stored - true of plain attributes and dictionary slots, the only targets accepted here."""
    n = 0
    for node in ast.walk(fn):
        for attr in ("body", "orelse", "finalbody"):
            blk = getattr(node, attr, None)
            if not isinstance(blk, list):
                continue
            out = []
            for st in blk:
                if isinstance(st, ast.Assign) and len(st.targets) > 1 and all(isinstance(t, ast.Name) or _is_path(t) or (
                        isinstance(t, ast.Subscript) and isinstance(t.value, ast.Attribute) and t.value.attr == "__dict__" and isinstance(t.slice, ast.Constant)) for t in st.targets):
                    prim = next((t for t in st.targets if not isinstance(t, ast.Name)), st.targets[0])
                    first = ast.Assign(targets=[prim], value=st.value)
                    ast.copy_location(first, st)
                    out.append(first)
                    for t in st.targets:
                        if t is prim:
                            continue
                        a = ast.Assign(targets=[t], value=_load_form(prim))
                        ast.copy_location(a, st)
                        ast.fix_missing_locations(a)
                        out.append(a)
                    for a in out[-len(st.targets):]:
                        if hasattr(st, "_module"):
                            a._module = st._module
                    n += 1
                    continue
                out.append(st)
            setattr(node, attr, out)
    if n:
        for node in ast.walk(fn):
            for child in ast.iter_child_nodes(node):
                child._parent = node
    return n


def _is_temp(name: str) -> bool:
    """Names the inliner made up (parameters and locals of inlined helpers, collectors of inlined generators)."""
    return re.search(r"__[ig]\d+$", name) is not None


_KNOWN_LOCALS = None


def new_local_predicate(fn):
    """name -> bool: the name is an inliner temporary, or a local of `fn` that the revision the rules were written against does
    not have (sa/known_locals.json): a variable somebody introduced later. Functions the inventory does not list have no such names."""
    global _KNOWN_LOCALS
    if _KNOWN_LOCALS is None:
        import json
        import os
        with open(os.path.join(os.path.dirname(os.path.abspath(__file__)), "known_locals.json")) as f:
            _KNOWN_LOCALS = json.load(f)["locals"]
    try:
        from .core import qualname_of
        known = _KNOWN_LOCALS.get(qualname_of(fn))
    except Exception:
        known = None
    if known is None:
        return _is_temp
    known = set(known)
    return lambda name: _is_temp(name) or name not in known


def coalesce_copies(fn) -> int:
    """In/out copies left by inlining a helper that rebinds its parameter and hands it back:

        t = a ; ...t only... ; a = t        ->        ...a only...

    `t` is renamed to `a` when (1) `t = a` is the first occurrence of t, (2) `a = t` follows in the same block with no occurrence
    of `a` in between, (3) afterwards t is never stored again and every read of t precedes (in document order, and not across a
    loop's back edge) the next store to `a`. Under these conditions t and a hold the same object wherever t is read."""
    done = 0
    is_new = new_local_predicate(fn)
    for _ in range(8):
        changed = False
        params = {a.arg for a in fn.args.args + fn.args.kwonlyargs + fn.args.posonlyargs} | ({fn.args.vararg.arg} if fn.args.vararg else set()) | ({fn.args.kwarg.arg} if fn.args.kwarg else set())
        own = list(_own_nodes(fn))
        for blk_owner in [fn] + own:
            for attr in ("body", "orelse", "finalbody"):
                blk = getattr(blk_owner, attr, None)
                if not isinstance(blk, list):
                    continue
                for i, st in enumerate(blk):
                    if not (isinstance(st, ast.Assign) and len(st.targets) == 1 and isinstance(st.targets[0], ast.Name) and isinstance(st.value, ast.Name)):
                        continue
                    t, a = st.targets[0].id, st.value.id
                    # result copy:  t = E (or `t, u = E`) ; a = t   with t an inliner temporary read only here  ->  a = E
                    if is_new(a) and a not in params and not is_new(t):
                        tmp, dest = a, t
                        occ = [n for n in own if isinstance(n, ast.Name) and n.id == tmp]
                        stores = [n for n in occ if isinstance(n.ctx, ast.Store)]
                        if stores:
                            occ_ids = {id(n) for n in occ}
                            k0 = next((k for k in range(i) if any(id(n) in occ_ids for n in ast.walk(blk[k]))), None)
                            span = {id(n) for k in range(k0 if k0 is not None else i, i + 1) for n in ast.walk(blk[k])}
                            if k0 is not None and isinstance(blk[k0], ast.Assign) and all(id(n) in span for n in occ) and not any(
                                    isinstance(n, ast.Name) and n.id == dest and (k > k0 or isinstance(n.ctx, (ast.Store, ast.Del))) for k in range(k0, i) for n in ast.walk(blk[k])) \
                                    and not any(isinstance(n, (ast.FunctionDef, ast.Lambda, ast.AsyncFunctionDef)) for k in range(k0, i) for n in ast.walk(blk[k])):
                                for n in occ:
                                    n.id = dest
                                del blk[i]
                                changed = True
                                done += 1
                                break
                    if t == a or t in params or not is_new(t):
                        continue
                    j = next((k for k in range(i + 1, len(blk)) if isinstance(blk[k], ast.Assign) and len(blk[k].targets) == 1 and isinstance(blk[k].targets[0], ast.Name)
                              and blk[k].targets[0].id == a and isinstance(blk[k].value, ast.Name) and blk[k].value.id == t), None)
                    if j is None:
                        continue
                    names = [n for n in own if isinstance(n, ast.Name) and n.id in (t, a)]
                    if any(n.id == t for n in names if _before(n, st)):
                        continue
                    between = {id(n) for k in range(i + 1, j) for n in ast.walk(blk[k])}
                    if any(n.id == a and id(n) in between for n in names):
                        continue
                    if any(isinstance(n, (ast.FunctionDef, ast.Lambda, ast.AsyncFunctionDef)) for k in range(i, j + 1) for n in ast.walk(blk[k])):
                        continue
                    after = [n for n in names if _before(blk[j], n) and not any(n is x for x in ast.walk(blk[j]))]
                    if any(n.id == t and isinstance(n.ctx, (ast.Store, ast.Del)) for n in after):
                        continue
                    a_stores = [n for n in after if n.id == a and isinstance(n.ctx, (ast.Store, ast.Del))]
                    t_loads = [n for n in after if n.id == t]
                    ok = True
                    for ld in t_loads:
                        for sn in a_stores:
                            if _pos(sn) < _pos(ld) and not _rhs_of_same_store(sn, ld):
                                ok = False
                            lp = _common_loop(sn, ld, fn)
                            if lp is not None and not any(st is x for x in ast.walk(lp)):
                                ok = False
                    if not ok:
                        continue
                    for n in own:
                        if isinstance(n, ast.Name) and n.id == t:
                            n.id = a
                    del blk[j]
                    del blk[i]
                    if not blk:
                        blk.append(ast.copy_location(ast.Pass(), st))
                    changed = True
                    done += 1
                    break
                if changed:
                    break
            if changed:
                break
        if not changed:
            break
    if done:
        for node in ast.walk(fn):
            for child in ast.iter_child_nodes(node):
                child._parent = node
    return done


def _pos(n):
    return (getattr(n, "lineno", 0), getattr(n, "col_offset", 0))


def _doc_index(fn):
    return {id(n): i for i, n in enumerate(_preorder(fn))}


def _preorder(n):
    yield n
    for c in ast.iter_child_nodes(n):
        yield from _preorder(c)


_IDX_CACHE = {}


def _before(x, y) -> bool:
    """x precedes y in the tree's document order (both under the same function)."""
    root = x
    while getattr(root, "_parent", None) is not None and not isinstance(root, (ast.FunctionDef, ast.AsyncFunctionDef)):
        root = root._parent
    key = (id(root), sum(1 for _ in ast.walk(root)))
    if _IDX_CACHE.get("key") != key:
        _IDX_CACHE["key"] = key
        _IDX_CACHE["idx"] = _doc_index(root)
    idx = _IDX_CACHE["idx"]
    return idx.get(id(x), -1) < idx.get(id(y), -1)


def _rhs_of_same_store(store_name, load_name) -> bool:
    """`a = f(t)`: the load is evaluated before the store of the same statement."""
    s = store_name
    while s is not None and not isinstance(s, ast.stmt):
        s = getattr(s, "_parent", None)
    return isinstance(s, (ast.Assign, ast.AugAssign, ast.AnnAssign)) and s.value is not None and any(load_name is x for x in ast.walk(s.value))


def _common_loop(x, y, fn):
    def loops(n):
        out = []
        while n is not None and n is not fn:
            if isinstance(n, (ast.For, ast.While, ast.AsyncFor)):
                out.append(n)
            n = getattr(n, "_parent", None)
        return out
    lx = loops(x)
    for l in loops(y):
        if any(l is m for m in lx):
            return l
    return None


def merge_nested_ifs(fn) -> int:
    """`if A: (only) if B: S` with no else on either -> `if A and B: S` - only where one of the two was written by the inliner
    (the tree's own nesting is left as its authors wrote it)."""
    n = 0
    for node in list(ast.walk(fn)):
        while isinstance(node, ast.If) and not node.orelse and len(node.body) == 1 and isinstance(node.body[0], ast.If) and not node.body[0].orelse \
                and (getattr(node, "_inl", False) or getattr(node.body[0], "_inl", False)):
            inner = node.body[0]
            vals = (node.test.values if isinstance(node.test, ast.BoolOp) and isinstance(node.test.op, ast.And) else [node.test]) + \
                   (inner.test.values if isinstance(inner.test, ast.BoolOp) and isinstance(inner.test.op, ast.And) else [inner.test])
            node.test = ast.copy_location(ast.BoolOp(op=ast.And(), values=vals), node.test)
            node.body = inner.body
            n += 1
    if n:
        for x in ast.walk(fn):
            for child in ast.iter_child_nodes(x):
                child._parent = x
    return n


def forward_single_use_temps(fn) -> int:
    """`t = E ; S(t)` -> `S(E)` for an inliner temporary t that is stored once and read once, in the statement that directly
    follows, where nothing with an effect is evaluated in S before t (every call in S has t among its arguments and a plain
    path as its callee)."""
    n_done = 0
    is_new = new_local_predicate(fn)
    for _ in range(16):
        changed = False
        own = list(_own_nodes(fn))
        counts = {}
        for n in own:
            if isinstance(n, ast.Name) and is_new(n.id):
                counts.setdefault(n.id, []).append(n)
        for blk_owner in [fn] + own:
            for attr in ("body", "orelse", "finalbody"):
                blk = getattr(blk_owner, attr, None)
                if not isinstance(blk, list):
                    continue
                for i in range(len(blk) - 1):
                    st, nxt = blk[i], blk[i + 1]
                    if not (isinstance(st, ast.Assign) and len(st.targets) == 1 and isinstance(st.targets[0], ast.Name) and is_new(st.targets[0].id)):
                        continue
                    t = st.targets[0].id
                    if any(isinstance(x, ast.Name) and x.id == t for sc in _nested_scopes(fn) for x in ast.walk(sc)):
                        continue
                    occ = counts.get(t, [])
                    if len(occ) != 2 or not isinstance(nxt, (ast.Expr, ast.Assign, ast.Return, ast.AugAssign, ast.If)):
                        continue
                    load = next((n for n in occ if isinstance(n.ctx, ast.Load)), None)
                    # for an `if`, only its test is evaluated right after the definition:  ok = <cond>; if ok: ...  (a named sub-condition)
                    scope = nxt.test if isinstance(nxt, ast.If) else nxt
                    if load is None or not any(load is x for x in ast.walk(scope)):
                        continue
                    # ancestors of the load inside nxt
                    chain = []
                    x = load
                    while x is not nxt and x is not None:
                        chain.append(x)
                        x = getattr(x, "_parent", None)
                    if x is None or any(isinstance(c, (ast.Lambda, ast.ListComp, ast.SetComp, ast.DictComp, ast.GeneratorExp, ast.IfExp)) for c in chain):
                        continue
                    # inside `a and b` / `a or b` only the first operand is evaluated unconditionally
                    if any(isinstance(c, ast.BoolOp) and not any(c.values[0] is a or c.values[0] is load for a in chain + [load]) for c in chain):
                        continue
                    ok = True
                    for c in ast.walk(scope):
                        if isinstance(c, (ast.Call, ast.Await, ast.Yield, ast.YieldFrom, ast.NamedExpr)):
                            if isinstance(nxt, ast.If) and (c.lineno, c.col_offset) > (load.lineno, load.col_offset) and not any(c is a for a in chain):
                                continue  # evaluated after the flag in the test's left-to-right order
                            if not (isinstance(c, ast.Call) and any(c is a for a in chain) and _is_path(c.func)):
                                ok = False
                    if not ok:
                        continue
                    par = load._parent
                    if isinstance(par, ast.Starred):
                        # f(*t) with t = (a, b, c)  ->  f(a, b, c)
                        call = getattr(par, "_parent", None)
                        if not (isinstance(call, ast.Call) and isinstance(st.value, (ast.Tuple, ast.List)) and not any(isinstance(e, ast.Starred) for e in st.value.elts)
                                and any(a is par for a in call.args)):
                            continue
                        k = next(k for k, a in enumerate(call.args) if a is par)
                        call.args[k:k + 1] = list(st.value.elts)
                        del blk[i]
                        changed = True
                        n_done += 1
                        break
                    for f, v in ast.iter_fields(par):
                        if v is load:
                            setattr(par, f, st.value)
                        elif isinstance(v, list):
                            for k, e in enumerate(v):
                                if e is load:
                                    v[k] = st.value
                    del blk[i]
                    changed = True
                    n_done += 1
                    break
                if changed:
                    break
            if changed:
                break
        if not changed:
            break
        for node in ast.walk(fn):
            for child in ast.iter_child_nodes(node):
                child._parent = node
    return n_done


def restore_temp_names(fn) -> int:
    """`x__i3` -> `x` when the function has no other use for the name x (alpha-renaming to an unused name): an extracted helper's
    locals get back the names they had before the extraction."""
    names = {}
    plain = set()
    for n in ast.walk(fn):
        if isinstance(n, ast.Name):
            (names.setdefault(n.id, []) if _is_temp(n.id) else plain.add(n.id))
            if _is_temp(n.id):
                names[n.id].append(n)
        elif isinstance(n, ast.arg):
            plain.add(n.arg)
        elif isinstance(n, (ast.FunctionDef, ast.ClassDef, ast.AsyncFunctionDef)) and n is not fn:
            plain.add(n.name)
        elif isinstance(n, (ast.Global, ast.Nonlocal)):
            plain.update(n.names)
        elif isinstance(n, ast.ExceptHandler) and n.name:
            plain.add(n.name)
        elif isinstance(n, ast.alias):
            plain.add((n.asname or n.name).split(".")[0])
    by_base = {}
    for t in names:
        by_base.setdefault(re.sub(r"__[ig]\d+$", "", t), []).append(t)
    done = 0
    import builtins
    for base, ts in by_base.items():
        if len(ts) == 1 and base not in plain and base.isidentifier() and not hasattr(builtins, base):
            # nested scopes that use the temporary keep working: they see the renamed cell
            for n in names[ts[0]]:
                n.id = base
            done += 1
    return done


def propagate_atom_copies(fn) -> int:
    """`x = A` where x is a name the reviewed revision does not have and A an atom (a constant, a global such as a function or
    module attribute, or another local that is not re-bound before the use): every read of x that only this definition
    reaches is replaced by A; a definition nothing reads any more is dropped. Decided on the CFG (reaching definitions), so a
    name that is assigned a different atom in every branch (what the inliner leaves of `for a, f in table_generator():`) is
    resolved branch by branch. One definition per round; the CFG is rebuilt after every change."""
    from .cfg import CFG
    from .core import copy_ast
    is_new = new_local_predicate(fn)
    done = 0
    skip = set()
    for _ in range(48):
        own = list(_own_nodes(fn))
        stored_local = {n.id for n in own if isinstance(n, ast.Name) and isinstance(n.ctx, (ast.Store, ast.Del))} | {a.arg for a in fn.args.args + fn.args.kwonlyargs + fn.args.posonlyargs} \
            | ({fn.args.vararg.arg} if fn.args.vararg else set()) | ({fn.args.kwarg.arg} if fn.args.kwarg else set())
        nested_names = {x.id for sc in _nested_scopes(fn) for x in ast.walk(sc) if isinstance(x, ast.Name)}
        unstable = _unstable_paths(fn)
        stored_paths_fn = _stored_paths(fn)
        params_fn = {a.arg for a in fn.args.args + fn.args.kwonlyargs + fn.args.posonlyargs}
        selfname = (func_params(fn) or ["self"])[0]

        def stable_param_path(v):
            """`self.eval`, `node.generators`: an attribute path on a parameter that the function never re-binds, that nothing in the
            function stores to, and that no other method assigns."""
            d = dotted(v) if isinstance(v, ast.Attribute) else None
            if not d:
                return False
            root = d.split(".")[0]
            if root not in params_fn or root in stored_paths_fn:
                return False
            ds = d if selfname == "self" else (("self" + d[len(selfname):]) if root == selfname else d)
            parts = d.split(".")
            prefixes = {".".join(parts[:k]) for k in range(2, len(parts) + 1)}
            if prefixes & stored_paths_fn:
                return False
            sparts = ds.split(".")
            return not any(".".join(sparts[:k]) in unstable for k in range(2, len(sparts) + 1))

        def stable_local_path(v):
            """`rec._desc` read once into a new local instead of two or three times: an attribute path on a local (a loop variable) that
            nothing in the function stores to; that the local still names the same object at the use is checked with its reaching definitions."""
            d = dotted(v) if isinstance(v, ast.Attribute) else None
            if not d:
                return False
            parts = d.split(".")
            if parts[0] not in stored_local or parts[0] in params_fn or parts[0] == selfname:
                return False
            return not ({".".join(parts[:k]) for k in range(2, len(parts) + 1)} & stored_paths_fn)

        cands = [st for st in own if isinstance(st, ast.Assign) and len(st.targets) == 1 and isinstance(st.targets[0], ast.Name) and is_new(st.targets[0].id)
                 and (_atom(st.value, stored_local) or stable_param_path(st.value) or stable_local_path(st.value)) and st.targets[0].id not in nested_names and id(st) not in skip
                 and not any(isinstance(n, ast.Name) and n.id in unstable for n in ast.walk(st.value))]
        if not cands:
            break
        try:
            cfg = CFG(fn)
        except Exception:
            break
        rd_cache = {}

        def rd(name):
            if name not in rd_cache:
                rd_cache[name] = cfg.reaching_defs(name)
            return rd_cache[name]

        applied = False
        cand_by_node = {}
        for c_ in cands:
            n_ = cfg.node_of(c_)
            if n_ is not None:
                cand_by_node[n_.id] = c_
        for st in sorted(cands, key=lambda a: (a.lineno, a.col_offset)):
            x = st.targets[0].id
            dn = cfg.node_of(st)
            if dn is None:
                skip.add(id(st))
                continue
            src_names = [n.id for n in ast.walk(st.value) if isinstance(n, ast.Name) and n.id in stored_local]
            loads = [n for n in own if isinstance(n, ast.Name) and n.id == x and isinstance(n.ctx, ast.Load)]
            ok = True
            mine = []
            # `x += ...` / `del x` read or need the binding without a Load node: such a name is left alone
            if any(isinstance(n, ast.AugAssign) and isinstance(n.target, ast.Name) and n.target.id == x for n in own) or \
                    any(isinstance(n, ast.Name) and n.id == x and isinstance(n.ctx, ast.Del) for n in own):
                skip.add(id(st))
                continue
            for ld in loads:
                un = cfg.header_node_for_expr(ld) or cfg.node_of(ld)
                if un is None:
                    ok = False
                    break
                reach = rd(x).get(un.id, set())
                if dn.id not in reach:
                    continue
                if un.id == dn.id:
                    ok = False
                    break
                if reach != {dn.id}:
                    # the same atom assigned in every branch (`desc = rec._desc` in the if and in the else): all definitions that reach
                    # the use are candidates with the same value, each still valid at the use
                    twins_ = [cand_by_node.get(o) for o in reach - {dn.id}]
                    if any(t_ is None or t_.targets[0].id != x or ast.dump(t_.value) != ast.dump(st.value) for t_ in twins_) or \
                            any(rd(sn).get(un.id, set()) != rd(sn).get(o, set()) for o in reach - {dn.id} for sn in src_names):
                        ok = False
                        break
                # the atom's own locals hold the same value at the use as at the definition
                if any(rd(sn).get(un.id, set()) != rd(sn).get(dn.id, set()) for sn in src_names) or x in src_names:
                    ok = False
                    break
                mine.append(ld)
            if not ok:
                skip.add(id(st))
                continue
            for ld in mine:
                par = ld._parent
                rep = copy_ast(st.value)
                for f, v in ast.iter_fields(par):
                    if v is ld:
                        setattr(par, f, rep)
                    elif isinstance(v, list):
                        for k, e in enumerate(v):
                            if e is ld:
                                v[k] = rep
            holder = st._parent
            for attr in ("body", "orelse", "finalbody"):
                blk = getattr(holder, attr, None)
                if isinstance(blk, list) and any(b is st for b in blk):
                    blk[:] = [b for b in blk if b is not st] or [ast.copy_location(ast.Pass(), st)]
            for node in ast.walk(fn):
                for child in ast.iter_child_nodes(node):
                    child._parent = node
            done += 1
            applied = True
            break
        if not applied:
            break
    return done


def _atom(e, local_names=frozenset()) -> bool:
    """A constant, a plain name, or an attribute of something that is not a local of the function (module.function)."""
    if isinstance(e, ast.Constant):
        return True
    y = e
    while isinstance(y, ast.Attribute):
        y = y.value
    if y is not e and _literal_text(y):
        return True  # a method of a string literal (`TEMPLATE_LINE.format` bound before a loop): literals do not change
    return isinstance(y, ast.Name) and (y is e or y.id not in local_names)


def _literal_text(e) -> bool:
    """A string constant or a concatenation of string constants."""
    if isinstance(e, ast.Constant):
        return isinstance(e.value, (str, bytes))
    return isinstance(e, ast.BinOp) and isinstance(e.op, ast.Add) and _literal_text(e.left) and _literal_text(e.right)


def substitute_module_aliases(prog) -> int:
    """A module-level NAME the rules do not know (not in sa/known_globals.json), assigned once from a path expression
    (`_pack_size = _SIZE.pack`, `_get = FIELD_MAP.get`) and never re-bound, is another spelling of that path: its uses are
    replaced by the path. The path's root must itself be a module-level name that no function re-binds."""
    import json
    import os

    with open(os.path.join(os.path.dirname(os.path.abspath(__file__)), "known_globals.json")) as f:
        known = json.load(f)["names"]
    total = 0
    for m in prog.modules.values():
        kn = set(known.get(m.modname, []))
        rebound = set()
        for g in ast.walk(m.tree):
            if isinstance(g, ast.Global):
                rebound.update(g.names)
        stores = {}
        for n in ast.walk(m.tree):
            if isinstance(n, ast.Name) and isinstance(n.ctx, (ast.Store, ast.Del)):
                stores[n.id] = stores.get(n.id, 0) + 1
        module_names = {t.id for st in m.tree.body if isinstance(st, (ast.Assign, ast.AnnAssign)) for t in (st.targets if isinstance(st, ast.Assign) else [st.target]) if isinstance(t, ast.Name)} \
            | {st.name for st in m.tree.body if isinstance(st, (ast.FunctionDef, ast.ClassDef))} \
            | {(a.asname or a.name).split(".")[0] for st in m.tree.body if isinstance(st, (ast.Import, ast.ImportFrom)) for a in st.names}
        for _ in range(4):
            changed = False
            for st in list(m.tree.body):
                if not (isinstance(st, ast.Assign) and len(st.targets) == 1 and isinstance(st.targets[0], ast.Name)):
                    continue
                name = st.targets[0].id
                v = st.value
                if name in kn or name in rebound or stores.get(name) != 1 or not isinstance(v, ast.Attribute) or not dotted(v):
                    continue
                root = dotted(v).split(".")[0]
                if root not in module_names or root in rebound or stores.get(root, 0) > 1 or root == name:
                    continue
                # parameters / locals of the same name in some function shadow the module-level one: leave such modules alone
                if any(isinstance(a, ast.arg) and a.arg == name for a in ast.walk(m.tree)):
                    continue
                n_rep = 0
                for n in list(ast.walk(m.tree)):
                    for fld, val in ast.iter_fields(n):
                        vals = val if isinstance(val, list) else [val]
                        for k, x in enumerate(vals):
                            if isinstance(x, ast.Name) and x.id == name and isinstance(x.ctx, ast.Load):
                                rep = copy_ast(v)
                                for y in ast.walk(rep):
                                    ast.copy_location(y, x)
                                    y._module = m
                                if isinstance(val, list):
                                    val[k] = rep
                                else:
                                    setattr(n, fld, rep)
                                n_rep += 1
                if n_rep:
                    m.tree.body.remove(st)
                    total += 1
                    changed = True
            if not changed:
                break
    # class level: `_parse = staticmethod(ip_address)` in a class body, a name the rules do not know and no subclass overrides:
    # `self._parse(b)` inside that class's methods is `ip_address(b)`
    for m in prog.modules.values():
        kn = set(known.get(m.modname, []))
        for c in [n for n in ast.walk(m.tree) if isinstance(n, ast.ClassDef)]:
            for st in list(c.body):
                if not (isinstance(st, ast.Assign) and len(st.targets) == 1 and isinstance(st.targets[0], ast.Name)):
                    continue
                name = st.targets[0].id
                v = st.value
                if f"{c.name}.{name}" in kn or not (isinstance(v, ast.Call) and isinstance(v.func, ast.Name) and v.func.id == "staticmethod" and len(v.args) == 1
                                                    and isinstance(v.args[0], (ast.Name, ast.Attribute)) and dotted(v.args[0])):
                    continue
                if sum(1 for x in c.body if isinstance(x, ast.Assign) and any(isinstance(t, ast.Name) and t.id == name for t in x.targets)) != 1:
                    continue
                try:
                    subs = prog.subclasses(c)
                except Exception:
                    subs = []
                if any((isinstance(x, ast.FunctionDef) and x.name == name) or (isinstance(x, ast.Assign) and any(isinstance(t, ast.Name) and t.id == name for t in x.targets))
                       for sc in subs for x in sc.body):
                    continue
                target = v.args[0]
                n_rep = 0
                for fn in [f for f in c.body if isinstance(f, (ast.FunctionDef, ast.AsyncFunctionDef))]:
                    me = (func_params(fn) or [None])[0]
                    for n in list(ast.walk(fn)):
                        for fld, val in ast.iter_fields(n):
                            vals = val if isinstance(val, list) else [val]
                            for k, x in enumerate(vals):
                                if isinstance(x, ast.Attribute) and x.attr == name and isinstance(x.ctx, ast.Load) and isinstance(x.value, ast.Name) and x.value.id in (me, c.name):
                                    rep = copy_ast(target)
                                    for y in ast.walk(rep):
                                        ast.copy_location(y, x)
                                        y._module = m
                                    if isinstance(val, list):
                                        val[k] = rep
                                    else:
                                        setattr(n, fld, rep)
                                    n_rep += 1
                total += bool(n_rep)
    return total


def hoist_walrus(fn) -> int:
    """`if len(d := fp.read(4)) != 4:`  ->  `d = fp.read(4)` followed by `if len(d) != 4:` - for an assignment expression that is
    evaluated unconditionally and first in a simple statement or in the test of an `if` (not in a loop header, a comprehension,
    a lambda, a conditional expression or a later operand of and/or)."""
    done = 0
    for _ in range(16):
        changed = False
        for holder in [fn] + list(_own_nodes(fn)):
            for attr in ("body", "orelse", "finalbody"):
                blk = getattr(holder, attr, None)
                if not isinstance(blk, list):
                    continue
                for i, st in enumerate(blk):
                    if not isinstance(st, (ast.If, ast.Expr, ast.Assign, ast.Return, ast.AugAssign)):
                        continue
                    scope = st.test if isinstance(st, ast.If) else st
                    # an `elif` is an If alone in an orelse list: hoisting there would run the assignment inside the else branch, which is right
                    w = next((n for n in ast.walk(scope) if isinstance(n, ast.NamedExpr) and isinstance(n.target, ast.Name)), None)
                    if w is None:
                        continue
                    chain = []
                    x = w
                    while x is not st and x is not None:
                        chain.append(x)
                        x = getattr(x, "_parent", None)
                    if x is None or any(isinstance(c, (ast.Lambda, ast.ListComp, ast.SetComp, ast.DictComp, ast.GeneratorExp, ast.IfExp)) for c in chain):
                        continue
                    if any(isinstance(c, ast.BoolOp) and not any(c.values[0] is a for a in chain) for c in chain if c is not w):
                        continue
                    # nothing with an effect is evaluated before the walrus: every other call in the statement contains it
                    ok = True
                    for c in ast.walk(scope):
                        if isinstance(c, (ast.Call, ast.Await, ast.Yield, ast.YieldFrom)) and not any(c is a for a in chain) and not any(c is y for y in ast.walk(w.value)):
                            # a call evaluated after the walrus (a later argument / comparator) is fine when it comes later in source order
                            if (c.lineno, c.col_offset) < (w.lineno, w.col_offset):
                                ok = False
                        if isinstance(c, ast.NamedExpr) and c is not w and not any(c is y for y in ast.walk(w.value)):
                            if (c.lineno, c.col_offset) < (w.lineno, w.col_offset):
                                ok = False
                    if not ok:
                        continue
                    asg = ast.Assign(targets=[ast.Name(id=w.target.id, ctx=ast.Store())], value=w.value)
                    ast.copy_location(asg, st)
                    ast.fix_missing_locations(asg)
                    if hasattr(st, "_module"):
                        for y in ast.walk(asg):
                            if not hasattr(y, "_module"):
                                y._module = st._module
                    rep = ast.copy_location(ast.Name(id=w.target.id, ctx=ast.Load()), w)
                    if hasattr(st, "_module"):
                        rep._module = st._module
                    par = w._parent
                    for f, v in ast.iter_fields(par):
                        if v is w:
                            setattr(par, f, rep)
                        elif isinstance(v, list):
                            for k, e in enumerate(v):
                                if e is w:
                                    v[k] = rep
                    blk.insert(i, asg)
                    changed = True
                    done += 1
                    break
                if changed:
                    break
            if changed:
                break
        if not changed:
            break
        for node in ast.walk(fn):
            for child in ast.iter_child_nodes(node):
                child._parent = node
    return done


def inline_copied_templates(prog) -> int:
    """A module-level dict/list display the rules do not know, whose every use is a fresh copy (`NAME.copy()`, `dict(NAME)`,
    `list(NAME)`, `{**NAME}`), is the literal written once: each copy site gets the display itself. Element expressions must be
    constants or plain names (evaluated at import time in the original; names that some function re-binds are refused)."""
    import json
    import os

    with open(os.path.join(os.path.dirname(os.path.abspath(__file__)), "known_globals.json")) as f:
        known = json.load(f)["names"]
    total = 0
    for m in prog.modules.values():
        kn = set(known.get(m.modname, []))
        rebound = set()
        for g in ast.walk(m.tree):
            if isinstance(g, ast.Global):
                rebound.update(g.names)
        for st in list(m.tree.body):
            if not (isinstance(st, ast.Assign) and len(st.targets) == 1 and isinstance(st.targets[0], ast.Name) and isinstance(st.value, (ast.Dict, ast.List))):
                continue
            name = st.targets[0].id
            if name in kn or name in rebound:
                continue
            v = st.value
            elems = ([k for k in v.keys] + list(v.values)) if isinstance(v, ast.Dict) else list(v.elts)
            if any(e is None or not (isinstance(e, ast.Constant) or (isinstance(e, ast.Name) and e.id not in rebound)) for e in elems):
                continue
            uses = [n for n in ast.walk(m.tree) if isinstance(n, ast.Name) and n.id == name and n is not st.targets[0]]
            sites = []
            ok = bool(uses)
            for u in uses:
                par = getattr(u, "_parent", None)
                gp = getattr(par, "_parent", None)
                if isinstance(par, ast.Attribute) and par.attr == "copy" and isinstance(gp, ast.Call) and gp.func is par and not gp.args and not gp.keywords:
                    sites.append(gp)
                elif isinstance(par, ast.Call) and isinstance(par.func, ast.Name) and par.func.id in ("dict", "list") and par.args == [u] and not par.keywords \
                        and (par.func.id == "dict") == isinstance(v, ast.Dict):
                    sites.append(par)
                elif isinstance(par, ast.Dict) and isinstance(v, ast.Dict) and len(par.keys) == 1 and par.keys[0] is None and par.values[0] is u:
                    sites.append(par)
                else:
                    ok = False
            if not ok:
                continue
            for site in sites:
                rep = copy_ast(v)
                for y in ast.walk(rep):
                    ast.copy_location(y, site)
                    y._module = m
                sp = site._parent
                for f, val in ast.iter_fields(sp):
                    if val is site:
                        setattr(sp, f, rep)
                    elif isinstance(val, list):
                        for k, e in enumerate(val):
                            if e is site:
                                val[k] = rep
                rep._parent = sp
            m.tree.body.remove(st)
            total += 1
    return total


def desugar_any_all_with_walrus(fn) -> int:
    """`return any(<elt> for t in IT [if C])`  ->  the loop it abbreviates
    (`for t in IT: [if C:] if <elt>: return True` / `return False`; dually for all): the statement form is the one the path rules
    (facts, reachability, "what happens to this element") are written for."""
    done = 0
    for holder in [fn] + list(_own_nodes(fn)):
        for attr in ("body", "orelse", "finalbody"):
            blk = getattr(holder, attr, None)
            if not isinstance(blk, list):
                continue
            for i, st in enumerate(list(blk)):
                if not (isinstance(st, ast.Return) and isinstance(st.value, ast.Call) and isinstance(st.value.func, ast.Name) and st.value.func.id in ("any", "all")
                        and len(st.value.args) == 1 and not st.value.keywords and isinstance(st.value.args[0], (ast.GeneratorExp, ast.ListComp))):
                    continue
                g = st.value.args[0]
                if len(g.generators) != 1 or g.generators[0].is_async:
                    continue
                is_any = st.value.func.id == "any"
                gen = g.generators[0]
                test = g.elt if is_any else ast.UnaryOp(op=ast.Not(), operand=g.elt)
                inner = ast.If(test=test, body=[ast.Return(value=ast.Constant(value=is_any))], orelse=[])
                body = [inner]
                for c in reversed(gen.ifs):
                    body = [ast.If(test=c, body=body, orelse=[])]
                loop = ast.For(target=gen.target, iter=gen.iter, body=body, orelse=[])
                # comprehension targets are Store context already
                tail = ast.Return(value=ast.Constant(value=not is_any))
                for new in (loop, tail):
                    ast.copy_location(new, st)
                    ast.fix_missing_locations(new)
                    for y in ast.walk(new):
                        if hasattr(st, "_module") and not hasattr(y, "_module"):
                            y._module = st._module
                k = next(k for k, b in enumerate(blk) if b is st)
                blk[k:k + 1] = [loop, tail]
                done += 1
    if done:
        for node in ast.walk(fn):
            for child in ast.iter_child_nodes(node):
                child._parent = node
    return done


def _literal(v):
    """AST of an immutable constant value, or None."""
    if isinstance(v, (str, bytes, int, float, bool, type(None))):
        return ast.Constant(value=v)
    if isinstance(v, tuple):
        elts = [_literal(x) for x in v]
        if all(e is not None for e in elts):
            return ast.Tuple(elts=elts, ctx=ast.Load())
    return None


def fold_new_constants(prog) -> int:
    """A module-level or class-level NAME that the rules do not know (not in sa/known_globals.json), that is assigned once and
    holds an immutable constant, is a literal that somebody gave a name: its uses are replaced by the literal.
    `_LIST_SUFFIX = "[]"; x.endswith(_LIST_SUFFIX)` and `x.endswith("[]")` are the same program."""
    import json
    import os

    with open(os.path.join(os.path.dirname(os.path.abspath(__file__)), "known_globals.json")) as f:
        known = json.load(f)["names"]
    total = 0
    for m in prog.modules.values():
        kn = set(known.get(m.modname, []))
        rebound = set()
        for g in ast.walk(m.tree):
            if isinstance(g, ast.Global):
                rebound.update(g.names)
        cands = {}  # name or (class, name) -> literal AST
        for st in m.tree.body:
            scopes = [(None, st)] if isinstance(st, (ast.Assign, ast.AnnAssign)) else ([(st.name, s2) for s2 in st.body if isinstance(s2, (ast.Assign, ast.AnnAssign))] if isinstance(st, ast.ClassDef) else [])
            for cname, a in scopes:
                tg = a.targets if isinstance(a, ast.Assign) else [a.target]
                if len(tg) != 1 or not isinstance(tg[0], ast.Name) or getattr(a, "value", None) is None:
                    continue
                nm = tg[0].id
                key = f"{cname}.{nm}" if cname else nm
                if key in kn or nm in rebound:
                    continue
                try:
                    v = prog.fold(m, a.value)
                except Exception:
                    continue
                lit = _literal(v)
                if lit is not None:
                    cands[(cname, nm)] = (lit, a)
        if not cands:
            continue
        # assigned exactly once in the module (as a name), never as an attribute target
        for (cname, nm), (lit, a) in list(cands.items()):
            n_store = sum(1 for x in ast.walk(m.tree) if isinstance(x, ast.Name) and x.id == nm and isinstance(x.ctx, (ast.Store, ast.Del)))
            a_store = sum(1 for x in ast.walk(m.tree) if isinstance(x, ast.Attribute) and x.attr == nm and isinstance(x.ctx, (ast.Store, ast.Del)))
            if n_store != 1 or a_store:
                del cands[(cname, nm)]
        if not cands:
            continue
        mod_names = {nm: lit for (cname, nm), (lit, a) in cands.items() if cname is None}
        cls_names = {(cname, nm): lit for (cname, nm), (lit, a) in cands.items() if cname is not None}

        def fresh(lit, like):
            new = copy_ast(lit)
            for x in ast.walk(new):
                ast.copy_location(x, like)
                if hasattr(like, "_module"):
                    x._module = like._module
            return new

        class T(ast.NodeTransformer):
            def __init__(self):
                self.cls = []
                self.shadow = []

            def visit_ClassDef(self, node):
                self.cls.append(node.name)
                self.generic_visit(node)
                self.cls.pop()
                return node

            def _func(self, node):
                loc = {x.id for x in ast.walk(node) if isinstance(x, ast.Name) and isinstance(x.ctx, (ast.Store, ast.Del))} | {a_.arg for a_ in ast.walk(node) if isinstance(a_, ast.arg)}
                self.shadow.append(loc)
                self.generic_visit(node)
                self.shadow.pop()
                return node

            visit_FunctionDef = _func
            visit_AsyncFunctionDef = _func
            visit_Lambda = _func

            def visit_Name(self, node):
                nonlocal_total[0] += 0
                if isinstance(node.ctx, ast.Load) and node.id in mod_names and not any(node.id in sh for sh in self.shadow):
                    nonlocal_total[0] += 1
                    return fresh(mod_names[node.id], node)
                # class-level constant used inside the class body itself
                if isinstance(node.ctx, ast.Load) and self.cls and (self.cls[-1], node.id) in cls_names and not self.shadow:
                    nonlocal_total[0] += 1
                    return fresh(cls_names[(self.cls[-1], node.id)], node)
                return node

            def visit_Attribute(self, node):
                self.generic_visit(node)
                if isinstance(node.ctx, ast.Load) and isinstance(node.value, ast.Name):
                    owner = node.value.id
                    for (cname, nm), lit in cls_names.items():
                        if nm == node.attr and (owner == cname or (owner in ("self", "cls") and self.cls and self.cls[-1] == cname)):
                            nonlocal_total[0] += 1
                            return fresh(lit, node)
                return node

        nonlocal_total = [0]
        keep = {id(a) for (lit, a) in cands.values()}
        for i, st in enumerate(list(m.tree.body)):
            if id(st) in keep:
                continue
            m.tree.body[i] = T().visit(st)
        total += nonlocal_total[0]
    return total


class _Spellings(ast.NodeTransformer):
    """dict(a=1, b=2) -> {'a': 1, 'b': 2};  dict() -> {};  list() -> [];  tuple() -> ()"""
    n_aug = 0

    def visit_Call(self, node):
        self.generic_visit(node)
        if isinstance(node.func, ast.Name) and not node.args:
            if node.func.id == "dict" and all(k.arg is not None for k in node.keywords):
                new = ast.Dict(keys=[ast.Constant(value=k.arg) for k in node.keywords], values=[k.value for k in node.keywords])
            elif node.func.id == "list" and not node.keywords:
                new = ast.List(elts=[], ctx=ast.Load())
            elif node.func.id == "tuple" and not node.keywords:
                new = ast.Tuple(elts=[], ctx=ast.Load())
            else:
                return node
            for x in ast.walk(new):
                if not hasattr(x, "lineno"):
                    ast.copy_location(x, node)
                if hasattr(node, "_module") and not hasattr(x, "_module"):
                    x._module = node._module
            return new
        return node


    def visit_Assign(self, node):
        """x = x + 1  ->  x += 1   (numeric constant addend only: for numbers the two are the same statement; sequences cannot take it)"""
        self.generic_visit(node)
        v = node.value
        if len(node.targets) == 1 and isinstance(node.targets[0], (ast.Name, ast.Attribute)) and isinstance(v, ast.BinOp) and isinstance(v.op, (ast.Add, ast.Sub)) \
                and isinstance(v.right, ast.Constant) and type(v.right.value) in (int, float) and ast.dump(_load_form(node.targets[0])) == ast.dump(v.left):
            new = ast.AugAssign(target=node.targets[0], op=v.op, value=v.right)
            self.n_aug += 1
            ast.copy_location(new, node)
            if hasattr(node, "_module"):
                new._module = node._module
            return new
        return node


class _MapOfHelper(ast.NodeTransformer):
    """list(map(_helper, xs)) -> [_helper(x) for x in xs]   (likewise tuple/set/sorted(...) and a bare map() used as an iterable) for a
    module-level function the rules do not know: the call form lets the inliner put the helper's body where the loop is."""
    def __init__(self, new_helpers):
        self.new_helpers = new_helpers
        self.n = 0

    def visit_Call(self, node):
        self.generic_visit(node)
        if isinstance(node.func, ast.Name) and node.func.id == "map" and len(node.args) == 2 and not node.keywords \
                and isinstance(node.args[0], ast.Name) and node.args[0].id in self.new_helpers:
            self.n += 1
            var = f"elem__m{self.n}"
            call = ast.Call(func=node.args[0], args=[ast.Name(id=var, ctx=ast.Load())], keywords=[])
            comp = ast.comprehension(target=ast.Name(id=var, ctx=ast.Store()), iter=node.args[1], ifs=[], is_async=0)
            par = getattr(node, "_parent", None)
            as_list = isinstance(par, ast.Call) and isinstance(par.func, ast.Name) and par.func.id == "list" and par.args == [node] and not par.keywords
            new = ast.GeneratorExp(elt=call, generators=[comp])
            new._as_list = as_list
            for x in ast.walk(new):
                ast.copy_location(x, node)
                if hasattr(node, "_module"):
                    x._module = node._module
            return new
        if isinstance(node.func, ast.Name) and node.func.id == "list" and len(node.args) == 1 and not node.keywords and isinstance(node.args[0], ast.GeneratorExp) \
                and getattr(node.args[0], "_as_list", False):
            g = node.args[0]
            lc = ast.ListComp(elt=g.elt, generators=g.generators)
            ast.copy_location(lc, node)
            if hasattr(node, "_module"):
                lc._module = node._module
            return lc
        return node


class _Suppress(ast.NodeTransformer):
    """with contextlib.suppress(E1, E2): BODY   ->   try: BODY  except (E1, E2): pass      (single context item, no `as`)"""
    def visit_With(self, node):
        self.generic_visit(node)
        if len(node.items) == 1 and node.items[0].optional_vars is None:
            ce = node.items[0].context_expr
            if isinstance(ce, ast.Call) and not ce.keywords and ce.args and not any(isinstance(a, ast.Starred) for a in ce.args) and (
                    (isinstance(ce.func, ast.Attribute) and ce.func.attr == "suppress" and isinstance(ce.func.value, ast.Name) and ce.func.value.id == "contextlib")
                    or (isinstance(ce.func, ast.Name) and ce.func.id == "suppress")):
                typ = ce.args[0] if len(ce.args) == 1 else ast.Tuple(elts=list(ce.args), ctx=ast.Load())
                h = ast.ExceptHandler(type=typ, name=None, body=[ast.Pass()])
                new = ast.Try(body=node.body, handlers=[h], orelse=[], finalbody=[])
                for x in ast.walk(new):
                    if not hasattr(x, "lineno"):
                        ast.copy_location(x, node)
                    if hasattr(node, "_module") and not hasattr(x, "_module"):
                        x._module = node._module
                ast.copy_location(new, node)
                return new
        return node


class _UnrollRange(ast.NodeTransformer):
    """tuple(E(i) for i in range(3)) -> (E(0), E(1), E(2));  [E(i) for i in range(2)] -> [E(0), E(1)]   (constant range of at most 8, no filter)"""
    def __init__(self):
        self.n = 0

    @staticmethod
    def _expand(comp):
        if len(comp.generators) != 1:
            return None
        g = comp.generators[0]
        if g.ifs or g.is_async or not isinstance(g.target, ast.Name):
            return None
        it = g.iter
        if not (isinstance(it, ast.Call) and isinstance(it.func, ast.Name) and it.func.id == "range" and len(it.args) == 1 and not it.keywords
                and isinstance(it.args[0], ast.Constant) and isinstance(it.args[0].value, int) and 0 < it.args[0].value <= 8):
            return None
        out = []
        for k in range(it.args[0].value):
            e = copy_ast(comp.elt)
            for par in ast.walk(e):
                for f, v in ast.iter_fields(par):
                    if isinstance(v, ast.Name) and v.id == g.target.id and isinstance(v.ctx, ast.Load):
                        setattr(par, f, ast.copy_location(ast.Constant(value=k), v))
                    elif isinstance(v, list):
                        for j, x in enumerate(v):
                            if isinstance(x, ast.Name) and x.id == g.target.id and isinstance(x.ctx, ast.Load):
                                v[j] = ast.copy_location(ast.Constant(value=k), x)
            if isinstance(e, ast.Name) and e.id == g.target.id:
                e = ast.copy_location(ast.Constant(value=k), e)
            out.append(e)
        return out

    def visit_Call(self, node):
        self.generic_visit(node)
        if isinstance(node.func, ast.Name) and node.func.id in ("tuple", "list") and len(node.args) == 1 and not node.keywords and isinstance(node.args[0], (ast.GeneratorExp, ast.ListComp)):
            elts = self._expand(node.args[0])
            if elts is not None:
                new = (ast.Tuple if node.func.id == "tuple" else ast.List)(elts=elts, ctx=ast.Load())
                ast.copy_location(new, node)
                for x in ast.walk(new):
                    if hasattr(node, "_module") and not hasattr(x, "_module"):
                        x._module = node._module
                    if not hasattr(x, "lineno"):
                        ast.copy_location(x, node)
                self.n += 1
                return new
        return node

    def visit_ListComp(self, node):
        self.generic_visit(node)
        elts = self._expand(node)
        if elts is not None:
            new = ast.copy_location(ast.List(elts=elts, ctx=ast.Load()), node)
            for x in ast.walk(new):
                if hasattr(node, "_module") and not hasattr(x, "_module"):
                    x._module = node._module
                if not hasattr(x, "lineno"):
                    ast.copy_location(x, node)
            self.n += 1
            return new
        return node


def canonical_spellings(prog) -> None:
    for m in prog.modules.values():
        if any(isinstance(n, ast.With) for n in ast.walk(m.tree)) and "suppress" in m.src:
            m.tree = _Suppress().visit(m.tree)
        if "range(" in m.src:
            m.tree = _UnrollRange().visit(m.tree)
        if "map(" in m.src:
            from .inline import load_inventory
            inv = load_inventory()
            helpers = {st.name for st in m.tree.body if isinstance(st, ast.FunctionDef) and f"{m.modname}.{st.name}" not in inv}
            if helpers:
                for n in ast.walk(m.tree):
                    for ch in ast.iter_child_nodes(n):
                        ch._parent = n
                m.tree = _MapOfHelper(helpers).visit(m.tree)
        shadowed = any(isinstance(n, (ast.FunctionDef, ast.ClassDef)) and n.name in ("dict", "list", "tuple") for n in ast.walk(m.tree)) or any(
            isinstance(n, ast.Name) and n.id in ("dict", "list", "tuple") and isinstance(n.ctx, ast.Store) for n in ast.walk(m.tree))
        if not shadowed:
            m.tree = _Spellings().visit(m.tree)


def sink_attribute_targets(fn) -> int:
    """L = <expr>; <in-place building of L>; A.b = L    (L used nowhere else, A.b untouched in between)   ->   A.b = <expr>; <building of A.b>
    Building an object in a local and publishing it in an attribute at the end is the same as building it in the attribute when nothing
    can observe the attribute in between."""
    done = 0
    for node in ast.walk(fn):
        for attr in ("body", "orelse", "finalbody"):
            blk = getattr(node, attr, None)
            if not isinstance(blk, list):
                continue
            j = 0
            while j < len(blk):
                pub = blk[j]
                j += 1
                if not (isinstance(pub, ast.Assign) and len(pub.targets) == 1 and isinstance(pub.targets[0], ast.Attribute) and dotted(pub.targets[0]) and isinstance(pub.value, ast.Name)):
                    continue
                L, A = pub.value.id, dotted(pub.targets[0])
                idx = blk.index(pub)
                defs = [k for k in range(idx) if isinstance(blk[k], ast.Assign) and len(blk[k].targets) == 1 and isinstance(blk[k].targets[0], ast.Name) and blk[k].targets[0].id == L]
                if len(defs) != 1:
                    continue
                d = defs[0]
                # a parameter already has a value before `d`, and a definition that reads the name reads that earlier value
                a_ = getattr(fn, "args", None)
                if a_ is not None and L in [p.arg for p in a_.posonlyargs + a_.args + a_.kwonlyargs + ([a_.vararg] if a_.vararg else []) + ([a_.kwarg] if a_.kwarg else [])]:
                    continue
                if any(isinstance(x, ast.Name) and x.id == L for x in ast.walk(blk[d].value)):
                    continue
                all_stores = [x for x in ast.walk(fn) if isinstance(x, ast.Name) and x.id == L and isinstance(x.ctx, (ast.Store, ast.Del))]
                if len(all_stores) != 1:
                    continue
                inside = {id(x) for k in range(d, idx + 1) for x in ast.walk(blk[k])}
                outside = [x for x in ast.walk(fn) if isinstance(x, ast.Name) and x.id == L and id(x) not in inside]
                later = {id(x) for k in range(idx + 1, len(blk)) for x in ast.walk(blk[k])}
                # reads of L after it was published are reads of the attribute, provided the attribute is not re-bound there
                if outside and not (all(id(x) in later and isinstance(x.ctx, ast.Load) for x in outside) and not any(
                        isinstance(x, ast.Attribute) and isinstance(x.ctx, (ast.Store, ast.Del)) and dotted(x) == A for k in range(idx + 1, len(blk)) for x in ast.walk(blk[k]))):
                    continue
                between = blk[d: idx]
                root = A.split(".")[0]
                touched = False
                for b in between:
                    for x in ast.walk(b):
                        if isinstance(x, ast.Attribute) and dotted(x) and (dotted(x) == A or dotted(x).startswith(A + ".")):
                            touched = True
                        if isinstance(x, ast.Call) and isinstance(x.func, ast.Attribute) and isinstance(x.func.value, ast.Name) and x.func.value.id == root:
                            touched = True  # a method of the same object may look at the attribute
                        if isinstance(x, ast.Name) and x.id == root and isinstance(x.ctx, (ast.Store, ast.Del)):
                            touched = True  # the object that gets the attribute is itself (re)bound in between
                # only straight-line building code in between: nothing that can leave early on purpose (validate-then-publish must stay as it is)
                def _building(b):
                    if isinstance(b, (ast.Assign, ast.AugAssign, ast.AnnAssign, ast.Expr)):
                        return True
                    # a plain loop that only builds (`for f in TABLE: L[f.__name__] = f`): no way out of it but its end
                    return isinstance(b, ast.For) and not b.orelse and all(_building(x) for x in b.body)

                for b in between[1:]:
                    if not _building(b) or any(isinstance(x, (ast.Raise, ast.Return, ast.Yield, ast.YieldFrom, ast.Await, ast.Break, ast.Continue)) for x in ast.walk(b)):
                        touched = True
                if touched:
                    continue

                class T(ast.NodeTransformer):
                    def visit_Name(self, n):
                        if n.id == L:
                            new = copy_ast(pub.targets[0])
                            new.ctx = ast.Store() if isinstance(n.ctx, ast.Store) else ast.Load()
                            for x in ast.walk(new):
                                ast.copy_location(x, n)
                                if hasattr(n, "_module"):
                                    x._module = n._module
                            # inner nodes of the path are loads
                            for x in ast.walk(new):
                                if x is not new and hasattr(x, "ctx"):
                                    x.ctx = ast.Load()
                            return new
                        return n

                for k in range(d, idx):
                    blk[k] = T().visit(blk[k])
                for k in range(idx + 1, len(blk)):
                    blk[k] = T().visit(blk[k])
                del blk[idx]
                j = 0
                done += 1
    if done:
        for node in ast.walk(fn):
            for child in ast.iter_child_nodes(node):
                child._parent = node
    return done


def fuse_comprehension_loops(fn) -> int:
    """L = [e for t in IT if c]; for x in L: BODY     (L used nowhere else)     ->     for t in IT: if c: x = e; BODY
    A filter written as a comprehension feeding a loop is the same iteration as a guarded loop."""
    done = 0
    for node in ast.walk(fn):
        for attr in ("body", "orelse", "finalbody"):
            blk = getattr(node, attr, None)
            if not isinstance(blk, list):
                continue
            i = 0
            while i < len(blk):
                st = blk[i]
                if isinstance(st, ast.Assign) and len(st.targets) == 1 and isinstance(st.targets[0], ast.Name) and isinstance(st.value, (ast.ListComp, ast.GeneratorExp)) \
                        and len(st.value.generators) == 1 and not st.value.generators[0].is_async:
                    name = st.targets[0].id
                    uses = [x for x in ast.walk(fn) if isinstance(x, ast.Name) and x.id == name]
                    loop = next((s2 for s2 in blk[i + 1:] if isinstance(s2, ast.For) and isinstance(s2.iter, ast.Name) and s2.iter.id == name), None)
                    if loop is not None and len(uses) == 2 and not loop.orelse and isinstance(loop.target, (ast.Name, ast.Tuple)):
                        gen = st.value.generators[0]
                        between = blk[i + 1: blk.index(loop)]
                        # nothing between the two may depend on evaluation having happened (keep it simple: only allow no statements in between,
                        # or statements that do not mention the names involved)
                        inv = {x.id for x in ast.walk(st.value) if isinstance(x, ast.Name)} | {name}
                        if all(not ({x.id for x in ast.walk(b) if isinstance(x, ast.Name)} & inv) for b in between):
                            bind = ast.Assign(targets=[loop.target], value=st.value.elt)
                            ast.copy_location(bind, loop)
                            body = [bind] + loop.body
                            for c in reversed(gen.ifs):
                                iff = ast.If(test=c, body=body, orelse=[])
                                ast.copy_location(iff, loop)
                                body = [iff]
                            new = ast.For(target=gen.target, iter=gen.iter, body=body, orelse=[])
                            ast.copy_location(new, loop)
                            ast.fix_missing_locations(new)
                            for x in ast.walk(new):
                                if not hasattr(x, "_module") and hasattr(loop, "_module"):
                                    x._module = loop._module
                            blk[blk.index(loop)] = new
                            del blk[i]
                            done += 1
                            continue
                i += 1
    if done:
        for node in ast.walk(fn):
            for child in ast.iter_child_nodes(node):
                child._parent = node
    return done


from .core import copy_ast as _copy_ast  # noqa: E402  (structural copy: analysis back-links such as _parent are not followed)


def fuse_tuple_comprehensions(fn) -> int:
    """L = [(e1, .., en) for T in S if c]      (L a name the original function does not have, used exactly once)
       ... [f(p1, .., pn) for p1, .., pn in L if d] ...
    ->     ... [f(e1, .., en) for T in S if c if d(e1, .., en)] ...
    A list of tuples that only feeds one unpacking comprehension is the same iteration with the projections written in place."""
    import copy

    is_new = new_local_predicate(fn)
    done = 0
    for node in [fn] + list(ast.walk(fn)):
        for attr in ("body", "orelse", "finalbody"):
            blk = getattr(node, attr, None)
            if not isinstance(blk, list):
                continue
            i = 0
            while i < len(blk):
                st = blk[i]
                i += 1
                if not (isinstance(st, ast.Assign) and len(st.targets) == 1 and isinstance(st.targets[0], ast.Name) and isinstance(st.value, (ast.ListComp, ast.GeneratorExp))
                        and len(st.value.generators) == 1 and not st.value.generators[0].is_async and isinstance(st.value.elt, ast.Tuple)
                        and not any(isinstance(x, ast.Starred) for x in st.value.elt.elts)):
                    continue
                name = st.targets[0].id
                if not is_new(name):
                    continue
                uses = [x for x in ast.walk(fn) if isinstance(x, ast.Name) and x.id == name]
                if len(uses) != 2:
                    continue
                pos = blk.index(st)
                cons = None
                for s2 in blk[pos + 1:]:
                    for comp in ast.walk(s2):
                        if isinstance(comp, (ast.ListComp, ast.GeneratorExp, ast.SetComp, ast.DictComp)):
                            for gi, g in enumerate(comp.generators):
                                if isinstance(g.iter, ast.Name) and g.iter.id == name:
                                    cons = (s2, comp, gi)
                    if cons:
                        break
                if not cons:
                    continue
                s2, comp, gi = cons
                g = comp.generators[gi]
                src = st.value.generators[0]
                if gi != 0 or not (isinstance(g.target, ast.Tuple) and all(isinstance(t, ast.Name) for t in g.target.elts) and len(g.target.elts) == len(st.value.elt.elts)):
                    continue
                # evaluated once on both sides: the consumer is not inside the body of a loop (or a nested function) of its statement
                x, okpos = comp, True
                while x is not s2:
                    par = getattr(x, "_parent", None)
                    if par is None:
                        okpos = False
                        break
                    if isinstance(par, (ast.FunctionDef, ast.AsyncFunctionDef, ast.Lambda, ast.While)) or (isinstance(par, (ast.For, ast.comprehension)) and x is not par.iter) \
                            or (isinstance(par, (ast.ListComp, ast.GeneratorExp, ast.SetComp, ast.DictComp)) and not (par.generators and x is par.generators[0])
                                and not (isinstance(x, ast.comprehension) and x is par.generators[0])):
                        okpos = False
                        break
                    x = par
                if not okpos:
                    continue
                between = blk[pos + 1: blk.index(s2)]
                inv = {x.id for x in ast.walk(st.value) if isinstance(x, ast.Name)} | {name}
                if any({x.id for x in ast.walk(b) if isinstance(x, ast.Name)} & inv for b in between):
                    continue
                bound = {x.id for x in ast.walk(src.target) if isinstance(x, ast.Name)}
                params = [t.id for t in g.target.elts]
                other = {x.id for part in ([comp.elt] if not isinstance(comp, ast.DictComp) else [comp.key, comp.value]) + g.ifs + comp.generators[1:]
                         for x in ast.walk(part) if isinstance(x, ast.Name)} - set(params)
                if bound & other or len(set(params)) != len(params):
                    continue
                mp = dict(zip(params, st.value.elt.elts))

                class Sub(ast.NodeTransformer):
                    def visit_Name(self, n):
                        if isinstance(n.ctx, ast.Load) and n.id in mp:
                            return ast.copy_location(_copy_ast(mp[n.id]), n)
                        return n

                sub = Sub()
                if isinstance(comp, ast.DictComp):
                    comp.key, comp.value = sub.visit(comp.key), sub.visit(comp.value)
                else:
                    comp.elt = sub.visit(comp.elt)
                g.ifs = list(src.ifs) + [sub.visit(c) for c in g.ifs]
                for g2 in comp.generators[1:]:
                    g2.iter = sub.visit(g2.iter)
                    g2.ifs = [sub.visit(c) for c in g2.ifs]
                g.target, g.iter = src.target, src.iter
                blk.remove(st)
                i = 0
                ast.fix_missing_locations(s2)
                for x in ast.walk(s2):
                    if not hasattr(x, "_module") and hasattr(s2, "_module"):
                        x._module = s2._module
                    for child in ast.iter_child_nodes(x):
                        child._parent = x
                done += 1
    return done


def thread_constant_flags(fn) -> int:
    """if C: ...; flag = False      (flag: a local the original function does not have, used nowhere else)
       else: ...; flag = True
       if not flag: continue
    ->
       if C: ...; continue
       else: ...
    What an extracted helper that returns `(present, value)` leaves behind when it is put back: the flag only carries the branch taken to
    the jump that follows, so the jump is written into the branch."""
    import copy
    is_new = new_local_predicate(fn)
    done = 0
    for node in [fn] + list(ast.walk(fn)):
        for attr in ("body", "orelse", "finalbody"):
            blk = getattr(node, attr, None)
            if not isinstance(blk, list):
                continue
            i = 0
            while i + 1 < len(blk):
                a, b = blk[i], blk[i + 1]
                i += 1
                if not (isinstance(a, ast.If) and a.orelse and isinstance(b, ast.If) and not b.orelse and len(b.body) == 1
                        and isinstance(b.body[0], (ast.Continue, ast.Break, ast.Return))):
                    continue
                t = b.test
                neg = isinstance(t, ast.UnaryOp) and isinstance(t.op, ast.Not)
                fl = t.operand if neg else t
                if not (isinstance(fl, ast.Name) and is_new(fl.id)):
                    continue
                if isinstance(b.body[0], ast.Return) and b.body[0].value is not None and not isinstance(b.body[0].value, (ast.Constant, ast.Name)):
                    continue
                flag = fl.id
                occ = [x for x in ast.walk(fn) if isinstance(x, ast.Name) and x.id == flag]
                branches = [a.body, a.orelse]
                sets = []
                ok = True
                for br in branches:
                    st = [s_ for s_ in br if isinstance(s_, ast.Assign) and len(s_.targets) == 1 and isinstance(s_.targets[0], ast.Name) and s_.targets[0].id == flag]
                    if len(st) != 1 or not (isinstance(st[0].value, ast.Constant) and isinstance(st[0].value.value, bool)):
                        ok = False
                        break
                    # the branch falls through to the test (no jump of its own at its top level before the end)
                    if any(isinstance(s_, (ast.Continue, ast.Break, ast.Return, ast.Raise)) for s_ in br):
                        ok = False
                        break
                    sets.append(st[0])
                if not ok or len(occ) != len(sets) + 1:
                    continue
                for br, st in zip(branches, sets):
                    taken = (not st.value.value) if neg else st.value.value
                    br.remove(st)
                    if taken:
                        j = _copy_ast(b.body[0])
                        ast.copy_location(j, st)
                        br.append(j)
                    if not br:
                        br.append(ast.copy_location(ast.Pass(), st))
                blk.remove(b)
                done += 1
                i = 0
    if done:
        for n in ast.walk(fn):
            for child in ast.iter_child_nodes(n):
                child._parent = n
                if not hasattr(child, "_module") and hasattr(fn, "_module"):
                    child._module = fn._module
    return done


def drop_dead_copies(fn) -> int:
    """`h = value` into a local the original function does not have, where no read of `h` can be reached from the assignment (the branch
    jumps away right after it): the copy has no effect."""
    from .cfg import CFG
    is_new = new_local_predicate(fn)
    done = 0
    for _ in range(8):
        try:
            cfg = CFG(fn)
        except Exception:
            break
        victim = None
        for st in _own_nodes(fn):
            if not (isinstance(st, ast.Assign) and len(st.targets) == 1 and isinstance(st.targets[0], ast.Name)
                    and (isinstance(st.value, (ast.Name, ast.Constant)) or _is_path(st.value))
                    and (is_new(st.targets[0].id) or (isinstance(st.value, ast.Name) and is_new(st.value.id)))):
                continue
            x = st.targets[0].id
            dn = cfg.node_of(st)
            if dn is None or any(isinstance(n, ast.Name) and n.id == x for sc in _nested_scopes(fn) for n in ast.walk(sc)):
                continue
            rd = cfg.reaching_defs(x)
            loads = [n for n in _own_nodes(fn) if isinstance(n, ast.Name) and n.id == x and isinstance(n.ctx, (ast.Load, ast.Del))]
            if any(isinstance(n, ast.AugAssign) and isinstance(n.target, ast.Name) and n.target.id == x for n in _own_nodes(fn)):
                continue
            live = False
            for ld in loads:
                un = cfg.header_node_for_expr(ld) or cfg.node_of(ld)
                if un is None or dn.id in rd.get(un.id, set()) or un.id == dn.id:
                    live = True
                    break
            if not live:
                victim = st
                break
        if victim is None:
            break
        holder = victim._parent
        for attr in ("body", "orelse", "finalbody"):
            blk = getattr(holder, attr, None)
            if isinstance(blk, list) and any(b is victim for b in blk):
                blk[:] = [b for b in blk if b is not victim] or [ast.copy_location(ast.Pass(), victim)]
        for n in ast.walk(fn):
            for child in ast.iter_child_nodes(n):
                child._parent = n
        done += 1
    return done


def run(prog) -> int:
    from .inline import relink

    canonical_spellings(prog)
    substitute_module_aliases(prog)
    inline_copied_templates(prog)
    folded = fold_new_constants(prog)
    for m in prog.modules.values():
        relink(m)
        m._symbols = None

    total = 0
    for m in prog.modules.values():
        changed = 0
        for node in ast.walk(m.tree):
            if isinstance(node, (ast.FunctionDef, ast.AsyncFunctionDef)):
                changed += desugar_any_all_with_walrus(node)
                changed += hoist_walrus(node)
                changed += split_chained_assignments(node)
                changed += split_tuple_assignments(node)
                if thread_constant_flags(node):
                    changed += 1 + drop_dead_copies(node)
                changed += coalesce_copies(node)
                changed += merge_nested_ifs(node)
                changed += forward_single_use_temps(node)
                changed += propagate_atom_copies(node)
                changed += substitute_function(node)
                if sink_attribute_targets(node):
                    changed += 1 + substitute_function(node)
                if fuse_comprehension_loops(node):
                    changed += 1 + substitute_function(node)
                changed += fuse_tuple_comprehensions(node)
                sp = _Spellings()
                sp.visit(node)
                changed += sp.n_aug
                changed += restore_temp_names(node)
        total += changed
        if changed:
            relink(m)
    return total
