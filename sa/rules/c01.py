"""C01 - Record stream round-trip preserves every record exactly."""
from __future__ import annotations

import ast
import string
import textwrap

from ..cfg import CFG
from ..core import ordkey
from ..core import (AnalysisError, DefRef, NotConst, Ref, call_name, calls_in, dotted, func_params, get_kw, norm, qualname_of,
                    walk_no_nested)
from .c08 import concrete_field_kinds
from .packer_common import PACK_ROLE_OF_CLASS, pack_branches, unpack_branches

PROPERTY = "C01"
EXPLANATION = (
    "Decides sibling agreement between every encoder and its decoder - round-trip identity is impossible where they disagree, "
    "whatever the values: (R1.1) the sub-types emitted by RecordPacker.pack_obj equal the sub-types handled by unpack_obj, are "
    "pairwise distinct, and unknown sub-types raise; (R1.2) per sub-type the arity of the packed payload equals the arity the "
    "decoder destructures (timestamp payloads are the 7-tuple or the 1-tuple ISO text of the format); (R1.3) per field type, "
    "_pack and _unpack agree on tuple arity and on discriminator constants, and a structured _pack has a non-identity _unpack; "
    "(R1.4) a type whose constructor yields more than one concrete kind packs a recoverable tag or textual form; (R1.5) the "
    "generated class derives slots, constructor arguments, unpack arguments and field-type table from one ordered source with "
    "the reserved fields last, and Record._pack iterates __slots__; (R1.6) the frame length prefix is packed and unpacked with "
    "the same struct format, read with calcsize bytes, and is len() of the very blob written; (R1.7) the generated _unpack "
    "guards conversions with `is not None` only; (R1.8) Record._pack drops a value only for its explicit arguments. NOT "
    "decided: that msgpack reproduces each value bit-for-bit, integer magnitude, float bits, surrogate escapes, offsets."
    " Also decided (rules added after the fifth blind round): (R1.9) every element typedlist._pack writes is X._pack() with X of the element type (the list mutators are not overridden, raw values can sit in the list), records inside record[] excepted."
    " Rules added after the sixth blind round: (R1.10) path._unpack / command._unpack construct the class the stored flavour tag names on every return; (R1.11 = R3.5 of C03) readers register every descriptor frame unconditionally."
    " Rules added after the seventh blind round: (R1.12 = R5.12 of C05) the attributes a validating setter writes are kept in step, so the packed form is that of the value last accepted."
    " Taken over at the end of the session so that the own check names what a sibling already named: (R1.13 = R3.3 of C03) descriptors are in the stream before the records that need them."
)
RULE_SUMMARY = "instances: sub-type branches, (class, _pack/_unpack) pairs, template loops, struct sites; non-trivial = arity/shape/discriminator set computed"

TWO_FAMILY_FACTORIES = {"ipaddress.ip_address", "ipaddress.ip_network", "ipaddress.ip_interface"}
TEXTUAL_ATTRS = {"compressed", "exploded", "with_prefixlen"}


def enclosing_raise(node) -> bool:
    q = getattr(node, "_parent", None)
    while q is not None and not isinstance(q, ast.stmt):
        q = getattr(q, "_parent", None)
    return isinstance(q, ast.Raise)


def tuple_arity(e):
    """Number of elements of a tuple display (Starred with a constant upper-bounded slice counts its bound); None if unknown."""
    if not isinstance(e, ast.Tuple):
        return None
    n = 0
    for x in e.elts:
        if isinstance(x, ast.Starred):
            v = x.value
            if isinstance(v, ast.Subscript) and isinstance(v.slice, ast.Slice) and v.slice.lower is None and v.slice.step is None \
                    and isinstance(v.slice.upper, ast.Constant) and isinstance(v.slice.upper.value, int) and v.slice.upper.value >= 0:
                n += v.slice.upper.value
            else:
                return None
        else:
            n += 1
    return n


def return_arities(fn):
    out = set()
    for r in walk_no_nested(fn):
        if isinstance(r, ast.Return) and r.value is not None:
            out.add(tuple_arity(r.value))
    return out


def consumed_arity(fn, param):
    """How many elements of `param` the function consumes: tuple-unpacking count or max constant index + 1; 'star' for *param;
    'iter' when it is iterated / mapped; None when it is used whole."""
    res = set()
    # plain copies of the parameter (an inlined helper's own parameter name) count as the parameter
    copies = {param}
    for n in ast.walk(fn):
        if isinstance(n, ast.Assign) and len(n.targets) == 1 and isinstance(n.targets[0], ast.Name) and isinstance(n.value, ast.Name) and n.value.id in copies:
            copies.add(n.targets[0].id)
    if len(copies) > 1:
        for c in sorted(copies - {param}):
            res |= {x for x in consumed_arity(fn, c)} if c != param else set()
    for n in ast.walk(fn):
        if isinstance(n, ast.Assign) and isinstance(n.value, ast.Name) and n.value.id == param and isinstance(n.targets[0], (ast.Tuple, ast.List)):
            if any(isinstance(t, ast.Starred) for t in n.targets[0].elts):
                res.add("star")
            else:
                res.add(len(n.targets[0].elts))
        if isinstance(n, ast.Starred) and isinstance(n.value, ast.Name) and n.value.id == param and isinstance(getattr(n, "_parent", None), ast.Call):
            res.add("star")
    idx = [n.slice.value for n in ast.walk(fn) if isinstance(n, ast.Subscript) and isinstance(n.value, ast.Name) and n.value.id == param
           and isinstance(n.slice, ast.Constant) and isinstance(n.slice.value, int)]
    if idx:
        res.add(max(idx) + 1)
    for n in ast.walk(fn):
        if isinstance(n, (ast.For, ast.comprehension)) and isinstance(n.iter, ast.Name) and n.iter.id == param:
            res.add("iter")
        if isinstance(n, ast.Call) and call_name(n) == "map" and any(isinstance(a, ast.Name) and a.id == param for a in n.args[1:]):
            res.add("iter")
    return res


def check_pack_exclusion(ctx, rule="R1.8"):
    prog = ctx.prog
    base = prog.module("flow.record.base")
    pk = ctx.anchor_func("flow.record.base.Record._pack")
    a = pk.args
    allp = a.posonlyargs + a.args
    defaults = {p.arg: d for p, d in zip(allp[len(allp) - len(a.defaults):], a.defaults)} if a.defaults else {}
    bad_defaults = [k for k, d in defaults.items() if not (isinstance(d, ast.Constant) and d.value in (None, False))]
    params = func_params(pk)[1:]
    reassigned = [n for n in walk_no_nested(pk) if isinstance(n, ast.Assign) and any(isinstance(t, ast.Name) and t.id in params for t in n.targets)]
    def _is_configuration(name) -> bool:
        """A module-level data name that is not a true constant: it does not fold to an immutable value, or some function rebinds it
        through a `global` declaration."""
        r = prog.resolve_global(base, name)
        if r is None or isinstance(r, (DefRef, Ref)) or not isinstance(r, tuple):
            return False
        rebound = any(isinstance(g, ast.Global) and name in g.names for g in ast.walk(base.tree))
        try:
            v = prog.fold(base, ast.Name(id=name, ctx=ast.Load()))
        except NotConst:
            return True
        return rebound or not isinstance(v, (str, int, float, bool, bytes, type(None), tuple, frozenset))

    locals_ = {n.id for n in ast.walk(pk) if isinstance(n, ast.Name) and isinstance(n.ctx, ast.Store)} | set(func_params(pk))
    globals_read = sorted({n.id for n in ast.walk(pk) if isinstance(n, ast.Name) and isinstance(n.ctx, ast.Load) and n.id not in locals_ and _is_configuration(n.id)})
    ctx.check(not bad_defaults and not reassigned and not globals_read, rule, "Record._pack:exclusion-only-by-argument",
              "Record._pack() called without arguments (as the serialisers do) can drop values: a parameter defaults to / is re-assigned "
              f"from configuration ({bad_defaults or [norm(r) for r in reassigned] or globals_read}); the written value array would no "
              "longer match the descriptor", pk,
              "values are excluded only through explicit arguments (defaults None/False, no module configuration read)",
              key=f"{rule}:Record._pack:implicit-exclusion")
    # every `continue` in the slot loop is guarded by a parameter
    loops = [n for n in walk_no_nested(pk) if isinstance(n, ast.For) and "__slots__" in norm(n.iter)]
    ctx.check(len(loops) == 1, rule, "Record._pack:iterates-slots", "Record._pack does not iterate self.__slots__ exactly once", pk,
              "one loop over self.__slots__")
    if loops:
        cfg = CFG(pk)
        # locals computed from the explicit arguments alone (`excluded = excluded_fields or ()`) stand for them
        derived = set(params)
        grew = True
        while grew:
            grew = False
            for st in walk_no_nested(pk):
                if isinstance(st, ast.Assign) and len(st.targets) == 1 and isinstance(st.targets[0], ast.Name) and st.targets[0].id not in derived:
                    names = {n.id for n in ast.walk(st.value) if isinstance(n, ast.Name)}
                    if names & derived and not any(_is_configuration(n) for n in names) and not (names - derived - set(dir(__builtins__ if not isinstance(__builtins__, dict) else object))
                                                                                                 - {"set", "frozenset", "tuple", "list"}):
                        derived.add(st.targets[0].id)
                        grew = True

        def _names(text):
            try:
                return {n.id for n in ast.walk(ast.parse(text, mode="eval")) if isinstance(n, ast.Name)}
            except SyntaxError:
                return set()

        for c in [n for n in ast.walk(loops[0]) if isinstance(n, ast.Continue)]:
            facts = {t for t, p, _ in cfg.facts_at(cfg.node_of(c).id) if p}
            ok = any(_names(t) & derived for t in facts)
            ctx.check(ok, rule, f"Record._pack:skip@{c.lineno - pk.lineno}", "a slot value is skipped under a condition that does not involve the "
                      "explicit arguments", c, "skip is conditional on an explicit argument")


def run(ctx):
    prog = ctx.prog
    packer_m = prog.module("flow.record.packer")
    base = prog.module("flow.record.base")
    stream_m = prog.module("flow.record.stream")
    ftm = prog.module("flow.record.fieldtypes")
    ctx.use(packer_m, base, stream_m, ftm)
    ctx.trust("msgpack round-trips the shapes it is given (tuples come back as tuples because unpackb is called with use_list=False - checked in C02)")

    pack_obj = ctx.anchor_func("flow.record.packer.RecordPacker.pack_obj")
    unpack_obj = ctx.anchor_func("flow.record.packer.RecordPacker.unpack_obj")
    pbs = pack_branches(prog, pack_obj)
    uvar, ubs = unpack_branches(prog, unpack_obj)

    # ------------------------------------------------------------------ R1.1
    ctx.rule("R1.1", "sub-types emitted by pack_obj == sub-types handled by unpack_obj; values pairwise distinct; unknown sub-type raises")
    emitted = {}
    for b in pbs:
        for st, sub, payload in b.subtype_exprs:
            try:
                v = prog.fold(packer_m, sub)
            except NotConst:
                raise AnalysisError(f"R1.1: sub-type expression {norm(sub)} does not fold")
            emitted.setdefault(v, []).append((b, st, payload))
    handled = {}
    for u in ubs:
        handled.setdefault(u.subtype_value, []).append(u)
    ctx.floor("R1.1", "sub-types emitted by pack_obj", len(emitted), 5)
    ctx.floor("R1.1", "sub-type branches in unpack_obj", len(handled), 5)
    for v in sorted(set(emitted) | set(handled)):
        construct = f"subtype:{v:#x}"
        if v not in handled:
            ctx.fail("R1.1", construct, f"sub-type {v:#x} is emitted by pack_obj ({emitted[v][0][0].guard_cls}) but unpack_obj has no branch for it",
                     emitted[v][0][1], key=f"R1.1:emitted-not-handled:{v:#x}")
        elif v not in emitted:
            ctx.info("R1.1", f"sub-type {v:#x} is handled by unpack_obj but never emitted (decoder-only compatibility branch)", handled[v][0].if_node)
        else:
            guards = {b.guard_cls for b, _, _ in emitted[v]}
            ctx.check(len(guards) == 1 and len(handled[v]) == 1, "R1.1", construct,
                      f"sub-type {v:#x} is used for {sorted(guards)} / handled by {len(handled[v])} branches: the decoder cannot tell them apart",
                      emitted[v][0][1], f"{sorted(guards)[0].split('.')[-1]} <-> one decoder branch", key=f"R1.1:ambiguous-subtype:{v:#x}")
    # a sub-type that equals none of the handled constants can only end in a raise: explore unpack_obj assuming every `subtype == K` false
    from .. import logic as _lg1

    ucfg1 = CFG(unpack_obj)

    def _none_of(atom):
        try:
            e = ast.parse(atom, mode="eval").body
        except SyntaxError:
            return None
        if isinstance(e, ast.Compare) and len(e.ops) == 1 and isinstance(e.ops[0], ast.Eq):
            for a, b_ in ((e.left, e.comparators[0]), (e.comparators[0], e.left)):
                if isinstance(a, ast.Name) and a.id == uvar:
                    try:
                        if isinstance(prog.fold(packer_m, b_), int):
                            return False
                    except NotConst:
                        return None
        return None

    unknown_reach = _lg1.reachable_assuming(ucfg1, ucfg1.entry, _none_of)
    last = unpack_obj.body[-1]
    returns_for_unknown = [ucfg1.nodes[i].ast for i in unknown_reach if isinstance(ucfg1.nodes[i].ast, ast.Return)]
    ctx.check(not returns_for_unknown and ucfg1.raise_exit in unknown_reach, "R1.1", "unpack_obj:unknown-subtype", "unpack_obj does not end in a raise for unknown sub-types", returns_for_unknown[0] if returns_for_unknown else last,
              "unknown sub-type raises")
    for u in ubs:
        falls = not _always_leaves(u.if_node.body)
        ctx.check(not falls, "R1.1", f"unpack_obj:branch:{u.subtype_value:#x}:returns", "the branch can fall through into the next sub-type test", u.if_node,
                  "branch always returns/raises")

    # ------------------------------------------------------------------ R1.2
    ctx.rule("R1.2", "per sub-type: arity of the packed payload == arity the decoder destructures; timestamp payloads are 7 ints or 1 ISO text")
    role_of_value = {}
    for v, lst in emitted.items():
        for b, st, payload in lst:
            role_of_value[v] = PACK_ROLE_OF_CLASS.get(b.guard_cls)
    for v, lst in sorted(emitted.items()):
        if v not in handled:
            continue
        u = handled[v][0]
        role = role_of_value.get(v)
        ubody = u.if_node
        # the variable holding the payload on the unpack side
        payload_var = None
        for st in walk_no_nested(unpack_obj):
            if isinstance(st, ast.Assign) and isinstance(st.targets[0], ast.Tuple) and len(st.targets[0].elts) == 2 \
                    and norm(st.targets[0].elts[0]) == uvar:
                payload_var = norm(st.targets[0].elts[1])
        if payload_var is None:
            raise AnalysisError("R1.2: `subtype, value = self.unpack(data)` not found")
        consumed = consumed_arity(ast.Module(body=ubody.body, type_ignores=[]), payload_var)
        for b, st, payload in lst:
            ar = None
            src = norm(payload)
            if isinstance(payload, ast.Tuple):
                ar = {tuple_arity(payload)}
            elif isinstance(payload, ast.Call) and isinstance(payload.func, ast.Attribute) and payload.func.attr == "_pack":
                cls = prog.all_classes().get(b.guard_cls)
                if cls is None:
                    raise AnalysisError(f"R1.2: cannot resolve class {b.guard_cls}")
                m = prog.class_attr(cls, "_pack")
                ar = return_arities(m.node)
                src = f"{b.guard_cls.split('.')[-1]}._pack()"
            elif isinstance(payload, ast.Name):
                # data = obj._pack(...)
                for a in walk_no_nested(b.if_node):
                    if isinstance(a, ast.Assign) and norm(a.targets[0]) == payload.id and isinstance(a.value, ast.Call) and \
                            isinstance(a.value.func, ast.Attribute) and a.value.func.attr == "_pack":
                        cls = prog.all_classes().get(b.guard_cls)
                        m = prog.class_attr(cls, "_pack")
                        ar = return_arities(m.node)
                        src = f"{b.guard_cls.split('.')[-1]}._pack()"
            if ar is None or None in ar:
                raise AnalysisError(f"R1.2: arity of payload {norm(payload)} for sub-type {v:#x} cannot be determined")
            construct = f"subtype:{v:#x}:{role or b.guard_cls}:payload={src[:50]}"
            if role == "datetime":
                ok = ar <= {7, 1}
                ctx.check(ok and "star" in consumed, "R1.2", construct,
                          f"timestamp payload has {sorted(ar)} components; the stream format defines (Y,M,D,h,m,s,us) or (ISO text,) and the "
                          "decoder passes them to the datetime constructor", st, f"arity {sorted(ar)} -> datetime(*value)",
                          key=f"R1.2:datetime-payload-arity:{sorted(ar)}")
            else:
                nums = {c for c in consumed if isinstance(c, int)}
                ok = bool(nums) and ar == nums
                ctx.check(ok, "R1.2", construct, f"encoder packs {sorted(ar)} element(s), decoder destructures {sorted(map(str, consumed))}", st,
                          f"arity {sorted(ar)} on both sides", key=f"R1.2:arity-mismatch:{v:#x}")
            ctx.sample({"rule": "R1.2", "subtype": hex(v), "role": role, "packed_arity": sorted(ar), "decoder_consumes": sorted(map(str, consumed))})
    # grouped: inner elements are Record._pack tuples, destructured as (identifier, values)
    gbranch = next((u for u in ubs if u.role == "grouped"), None)
    if gbranch is not None:
        # loops and comprehensions alike (a comprehension's generator has .target / .iter too)
        inner = [n for n in ast.walk(gbranch.if_node) if isinstance(n, (ast.For, ast.comprehension))]
        rp = prog.func("flow.record.base.Record._pack")
        ok = bool(inner) and (any(isinstance(a, ast.Assign) and isinstance(a.targets[0], ast.Tuple) and len(a.targets[0].elts) in return_arities(rp)
                                  for l in inner for a in ast.walk(l)) or
                              any(isinstance(l.target, ast.Tuple) and len(l.target.elts) in return_arities(rp) for l in inner))
        ctx.check(ok, "R1.2", "subtype:grouped:member-arity", "members of a grouped record are not destructured as Record._pack() tuples", gbranch.if_node,
                  "members destructured as (identifier, values)")

    # ------------------------------------------------------------------ R1.3 / R1.4
    ctx.rule("R1.3", "per whitelisted field type: a structured _pack has a non-identity _unpack; tuple arity agrees; discriminator "
                     "constants compared in _unpack are the ones _pack emits")
    ctx.rule("R1.4", "a field type whose constructor can yield more than one concrete kind packs an explicit tag or a textual form")
    kinds = concrete_field_kinds(ctx)
    ft_base = prog.cls("flow.record.base.FieldType")
    default_unpack = prog.methods_of(ft_base).get("_unpack")
    seen = set()
    n_classes = 0
    for q, ref in sorted(kinds.items()):
        cls = ref.node
        if qualname_of(cls) == "flow.record.base.Record":
            continue
        pm = prog.class_attr(cls, "_pack")
        um = prog.class_attr(cls, "_unpack")
        if not (isinstance(pm, DefRef) and isinstance(pm.node, ast.FunctionDef)):
            ctx.info("R1.3", f"{q} has no _pack (values of this type are packed as they are)", cls)
            continue
        key = (id(pm.node), id(um.node) if isinstance(um, DefRef) else None)
        kname = q.replace("flow.record.fieldtypes.", "")
        n_classes += 1
        if key in seen:
            continue
        seen.add(key)
        ars = return_arities(pm.node)
        structured = {a for a in ars if a is not None}
        un = um.node if isinstance(um, DefRef) and isinstance(um.node, ast.FunctionDef) else None
        identity_unpack = un is None or un is default_unpack or _is_identity(un)
        powner = qualname_of(pm.node).rsplit(".", 1)[0].replace("flow.record.fieldtypes.", "")
        if structured:
            if identity_unpack:
                ctx.fail("R1.3", f"{powner}:_pack/_unpack", f"_pack returns a {sorted(structured)}-tuple but _unpack is the identity: values "
                         "come back as raw tuples", pm.node, key=f"R1.3:{powner}:structured-pack-identity-unpack")
                continue
            data = func_params(un)[-1]
            consumed = consumed_arity(un, data)
            nums = {c for c in consumed if isinstance(c, int)}
            ok = bool(nums) and structured == nums or ("star" in consumed and not nums)
            ctx.check(ok, "R1.3", f"{powner}:_pack/_unpack:arity", f"_pack returns {sorted(structured)} element(s), _unpack consumes {sorted(map(str, consumed))}",
                      un, f"arity {sorted(structured)} on both sides", key=f"R1.3:{powner}:arity-mismatch")
            # discriminators
            emitted_c = _int_constants_in_returns(prog, pm.node)
            compared_c = _int_constants_compared(prog, un)
            if compared_c:
                has_default = _has_default_return(un)
                missing = emitted_c - compared_c
                ctx.check(not missing or has_default, "R1.3", f"{powner}:_pack/_unpack:discriminators",
                          f"_pack emits tag(s) {sorted(missing)} that _unpack neither compares nor covers with a default", un,
                          f"tags emitted {sorted(emitted_c)}, compared {sorted(compared_c)}", key=f"R1.3:{powner}:tag-not-handled")
                dead = compared_c - emitted_c
                ctx.check(not dead, "R1.3", f"{powner}:_pack/_unpack:discriminators-emitted",
                          f"_unpack distinguishes tag(s) {sorted(dead)} that _pack never emits: both kinds are written with the same tag, the "
                          "flavour is lost", pm.node, "every compared tag is emitted", key=f"R1.3:{powner}:tag-never-emitted")
        else:
            ctx.ok("R1.3", f"{powner}:_pack/_unpack", "scalar form; _unpack is the constructor or identity", pm.node)
        # R1.4 flavour injectivity
        multi_new = _new_dispatches(prog, cls)
        factory = _two_family_factory(prog, cls)
        if multi_new:
            ok = bool(structured) and bool(_isinstance_tags(pm.node))
            ctx.check(ok, "R1.4", f"{powner}:flavour", "the constructor yields several concrete kinds but _pack carries no tag derived from the kind",
                      pm.node, f"tag derived from isinstance(self, ...) over {multi_new}", key=f"R1.4:{powner}:no-flavour-tag")
        elif factory:
            textual = _packs_textual(pm.node)
            ctx.check(bool(structured) or textual, "R1.4", f"{powner}:family",
                      f"the value comes from {factory} (IPv4 or IPv6) but _pack returns {_ret_text(pm.node)}: the address family is not "
                      "recoverable ('::1' and '0.0.0.1' pack to the same integer)", pm.node,
                      "packs a textual form from which the family is recoverable", key=f"R1.4:{powner}:family-lost")
    ctx.floor("R1.3", "field-type classes with a _pack", n_classes, 20)
    # typedlist: element-wise
    tl_un = ctx.anchor_func("flow.record.fieldtypes.typedlist._unpack")
    ctx.check("iter" in consumed_arity(tl_un, func_params(tl_un)[-1]) and "__type__._unpack" in norm(tl_un), "R1.3", "typedlist:_unpack:elementwise",
              "typed lists are not unpacked element-wise with the element type's _unpack", tl_un, "map(cls.__type__._unpack, data)")
    tl_p = ctx.anchor_func("flow.record.fieldtypes.typedlist._pack")
    rec_special = any(isinstance(n, ast.Compare) and "__type__" in norm(n.left) and any(norm(c) == "record" for c in n.comparators) for n in ast.walk(tl_p))
    ctx.check(rec_special, "R1.3", "typedlist:_pack:record-elements", "record elements of record[] are packed eagerly (the packer must do it)", tl_p,
              "record elements are left for the packer")

    # ------------------------------------------------------------------ R1.5
    ctx.rule("R1.5", "generated class: slots, constructor args, init code, unpack code and the field-type table all iterate one ordered "
                     "mapping (declared fields, then reserved fields); Record._pack iterates self.__slots__; the decoder passes values positionally")
    gen = ctx.anchor_func("flow.record.base._generate_record_class")
    p_fields5 = func_params(gen)[1]
    gcfg5 = CFG(gen)
    upd_all = [c for c in calls_in(gen) if isinstance(c.func, ast.Attribute) and c.func.attr == "update" and isinstance(c.func.value, ast.Name) and c.args
               and "get_required_fields" in norm(c.args[0])]
    if len(upd_all) != 1:
        raise AnalysisError("R1.5: the ordered field mapping of _generate_record_class was not found")
    allf = upd_all[0].func.value.id
    defs5 = [st for st in walk_no_nested(gen) if isinstance(st, ast.Assign) and any(isinstance(t, ast.Name) and t.id == allf for t in st.targets)]
    if len(defs5) != 1 or not (isinstance(defs5[0].value, ast.Call) and call_name(defs5[0].value) in ("OrderedDict", "collections.OrderedDict", "dict") or isinstance(defs5[0].value, ast.Dict)):
        raise AnalysisError("R1.5: the ordered field mapping of _generate_record_class was not found")
    allf_stmt = defs5[0]
    by_comp = any(isinstance(g, ast.comprehension) and dotted(g.iter) == p_fields5 for g in ast.walk(allf_stmt.value))
    empty_ctor = (isinstance(allf_stmt.value, ast.Call) and not allf_stmt.value.args and not allf_stmt.value.keywords) or (isinstance(allf_stmt.value, ast.Dict) and not allf_stmt.value.keys)
    sub_stores = [n for n in ast.walk(gen) if isinstance(n, ast.Subscript) and isinstance(n.ctx, (ast.Store, ast.Del)) and dotted(n.value) == allf]
    fill_loops = []
    stray = []
    for n in sub_stores:
        lp = getattr(n, "_parent", None)
        while lp is not None and not isinstance(lp, ast.For):
            lp = getattr(lp, "_parent", None)
        if isinstance(n.ctx, ast.Store) and lp is not None and dotted(lp.iter) == p_fields5 and gcfg5.dominates(gcfg5.node_of(lp).id, gcfg5.node_of(upd_all[0]).id) \
                and not [x for x in ast.walk(lp) if isinstance(x, (ast.Break, ast.Continue))]:
            fill_loops.append(lp)
        else:
            stray.append(n)
    declared_first = (by_comp and not sub_stores) or (empty_ctor and len(fill_loops) == 1 and not stray)
    muts = [c for c in calls_in(gen) if isinstance(c.func, ast.Attribute) and dotted(c.func.value) == allf and c.func.attr not in ("keys", "values", "items", "get")]
    upd = [c for c in muts if c.func.attr == "update"]
    other = [c for c in muts if c.func.attr != "update"] + stray
    ctx.check(len(upd) == 1 and not other and declared_first and gcfg5.dominates(gcfg5.node_of(allf_stmt).id, gcfg5.node_of(upd[0]).id), "R1.5", "_generate_record_class:field-order",
              f"the field mapping is modified by {[norm(c)[:40] for c in other] or 'no/multiple update()'}: reserved fields are not simply appended once", gen,
              "declared fields, then .update(required fields); no other reordering")
    # every loop / comprehension over the mapping walks it in mapping order; the raw `fields` parameter is iterated only to
    # validate names and to fill the mapping
    contributing = 0
    for n in ast.walk(gen):
        if isinstance(n, (ast.For, ast.comprehension)):
            it = n.iter
        else:
            continue
        txt = norm(it)
        names = {x.id for x in ast.walk(it) if isinstance(x, ast.Name)}
        if allf in names:
            contributing += 1
            ok = txt in (allf, f"{allf}.values()", f"{allf}.keys()", f"{allf}.items()")
            ctx.check(ok, "R1.5", f"_generate_record_class:loop:{txt[:40]}", f"a template part is generated from `{txt}`, not from the one ordered mapping `{allf}`", n,
                      f"iterates {txt}")
        elif p_fields5 in names:
            is_fill = n in fill_loops or (isinstance(n, ast.comprehension) and any(n is g for g in ast.walk(allf_stmt.value)))
            validates = isinstance(n, ast.For) and any(isinstance(c, ast.Call) and call_name(c) == "is_valid_field_name" for c in ast.walk(n))
            writes_text = isinstance(n, ast.For) and any(isinstance(x, ast.AugAssign) or (isinstance(x, ast.Call) and isinstance(x.func, ast.Attribute) and x.func.attr in ("append", "format", "join"))
                                                         for x in ast.walk(n) if not (isinstance(x, ast.Call) and enclosing_raise(x)))
            ctx.check((is_fill or validates) and not (writes_text and not is_fill), "R1.5", f"_generate_record_class:loop:{txt[:40]}",
                      f"a loop over the raw `{p_fields5}` parameter builds part of the class: it does not see the reserved fields / the mapping order", n, "validation / mapping fill only")
    ctx.floor("R1.5", "loops over the ordered field mapping", contributing, 3)
    slots_kw = [k for c in calls_in(gen) if isinstance(c.func, ast.Attribute) and c.func.attr == "format" for k in c.keywords if k.arg == "slots_tuple"]
    ctx.check(bool(slots_kw) and norm(slots_kw[0].value) in (f"tuple({allf}.keys())", f"tuple({allf})"), "R1.5", "_generate_record_class:slots",
              "__slots__ is not the key order of the field mapping", gen, f"__slots__ = tuple({allf}.keys())")
    rbranch = next((u for u in ubs if u.role == "record"), None)
    if rbranch is None:
        raise AnalysisError("R1.5: record branch of unpack_obj not identified")
    ups = [c for c in ast.walk(rbranch.if_node) if isinstance(c, ast.Call) and isinstance(c.func, ast.Attribute) and c.func.attr == "_unpack"]
    ctx.check(all(len(c.args) == 1 and isinstance(c.args[0], ast.Starred) and not c.keywords for c in ups) and ups, "R1.5", "unpack_obj:record:positional",
              "values are not passed positionally (*values) to the generated _unpack", rbranch.if_node, "recordType._unpack(*values)")

    # ------------------------------------------------------------------ R1.6
    ctx.rule("R1.6", "length prefix: same struct format for pack and unpack; read(n) with n == calcsize(format); the packed length is len() of the blob written next")
    wr = ctx.anchor_func("flow.record.stream.RecordStreamWriter.write")
    rd = ctx.anchor_func("flow.record.stream.RecordStreamReader.read")
    from .frame_common import assigned_from, struct_sites

    packs = struct_sites(prog, wr, "pack")
    unpacks = struct_sites(prog, rd, "unpack")
    ctx.floor("R1.6", "length-prefix pack sites in the writer", len(packs), 1)
    ctx.floor("R1.6", "length-prefix unpack sites in the reader", len(unpacks), 1)
    if packs and unpacks:
        import struct as _struct

        pcall, fw, pdata = packs[0]
        ucall, fr, udata = unpacks[0]
        ctx.check(fw == fr, "R1.6", "frame:length-format", f"writer packs the length with {fw!r}, reader unpacks with {fr!r}", pcall, f"both use {fw!r}",
                  key="R1.6:frame:format-mismatch")
        n = _struct.calcsize(fr)
        # the bytes given to unpack come from fp.read(n)
        src = udata[0] if udata else None
        read_n = None
        if src is not None:
            for st in walk_no_nested(rd):
                if isinstance(st, ast.Assign) and norm(st.targets[0]) == norm(src) and isinstance(st.value, ast.Call) and \
                        isinstance(st.value.func, ast.Attribute) and st.value.func.attr == "read" and ordkey(st) <= ordkey(ucall):
                    try:
                        read_n = prog.fold(stream_m, st.value.args[0])
                    except (NotConst, IndexError):
                        read_n = None
                    break
        ctx.check(read_n == n, "R1.6", "frame:prefix-read-size", f"the reader reads {read_n} bytes for a {n}-byte length prefix", rd, f"reads {n} bytes")
        # the packed length is len(<blob>) and <blob> is what is written next (names followed through single assignments)
        from ..core import expand_aliases, single_assign_aliases

        al = single_assign_aliases(wr)
        lens = [c for a in pdata for c in ast.walk(expand_aliases(a, al)) if isinstance(c, ast.Call) and call_name(c) == "len"]
        blob = norm(lens[0].args[0]) if lens else None
        writes = [c for c in calls_in(wr) if isinstance(c.func, ast.Attribute) and c.func.attr == "write" and norm(c.func.value).endswith("fp")]
        body_writes = [w for w in writes if pcall not in list(ast.walk(w)) and not any(
            isinstance(x, ast.Name) and x.id in al and pcall in list(ast.walk(al[x.id])) for x in ast.walk(w))]
        ok = blob is not None and len(body_writes) == 1 and norm(expand_aliases(body_writes[0].args[0], {k: v for k, v in al.items() if k != blob})) == blob
        ctx.check(ok, "R1.6", "frame:length-of-body", "the length prefix is not len() of the very object written as the frame body",
                  wr, f"prefix = len({blob}); body = {blob}", key="R1.6:frame:length-of-other-object")

    # ------------------------------------------------------------------ R1.7 generated _unpack None-guards
    ctx.rule("R1.7", "in the generated _unpack code a field conversion is skipped only when the value `is None` (never by truthiness)")
    from .c05 import generated_fragments

    frags = [(n, v) for n, v in generated_fragments(prog, base, gen) if "._unpack(" in v]
    ctx.floor("R1.7", "generated fragments that call a field type's _unpack", len(frags), 2)
    for n, v in frags:
        code = textwrap.dedent(v).strip().rstrip(",")
        tree = None
        for attempt in (code, "(" + code + ")", code + ")", "f(" + code + ")"):
            try:
                tree = ast.parse(attempt)
                break
            except SyntaxError:
                continue
        if tree is None:
            raise AnalysisError(f"R1.7: generated fragment does not parse: {v!r}")
        for sub in ast.walk(tree):
            if isinstance(sub, ast.Call) and isinstance(sub.func, ast.Attribute) and sub.func.attr == "_unpack":
                guard = _enclosing_ifexp(tree, sub)
                good = guard is not None and isinstance(guard.test, ast.Compare) and len(guard.test.ops) == 1 and \
                    isinstance(guard.test.ops[0], (ast.IsNot, ast.Is)) and isinstance(guard.test.comparators[0], ast.Constant) and guard.test.comparators[0].value is None
                ctx.check(good, "R1.7", f"_generate_record_class:unpack-guard:{v.strip()[:40]}",
                          f"the generated _unpack converts a value only when `{norm(guard.test) if guard is not None else '(no guard)'}`: "
                          "falsy values (0, '', b'', False) are read back as None", n, "guard is `is not None`",
                          key="R1.7:generated-unpack:truthiness-guard")
    # statement-form guards inside generated fragments: `if v:` style
    for n in walk_no_nested(gen):
        if isinstance(n, ast.Constant) and isinstance(n.value, str) and "_unpack" in n.value and "if " in n.value and " is not None" not in n.value and " is None" not in n.value:
            ctx.fail("R1.7", f"_generate_record_class:unpack-guard:{n.value.strip()[:40]}", "generated _unpack code guards a conversion without an "
                     "`is None` test: falsy values are read back as None", n, key="R1.7:generated-unpack:truthiness-guard")

    # ------------------------------------------------------------------ R1.8
    ctx.rule("R1.8", "Record._pack emits one value per slot unless an explicit argument excludes it")
    check_pack_exclusion(ctx, "R1.8")

    # ------------------------------------------------------------------ R1.9 elements of typed lists
    from .packer_common import check_typedlist_pack
    check_typedlist_pack(ctx, "R1.9")

    # ------------------------------------------------------------------ R1.10 decoders of flavoured types pick the class by the tag
    ctx.rule("R1.10", "path._unpack / command._unpack build the value with the class the stored flavour tag names on every path: a return through the generic "
                      "class (`cls(...)`, `path(...)`) lets the host platform decide and loses the POSIX/Windows distinction of the written value")
    from ..core import expand_aliases, single_assign_aliases  # noqa: F811
    n10 = 0
    for q10, concrete in (("flow.record.fieldtypes.path._unpack", ("posix_path", "windows_path")), ("flow.record.fieldtypes.command._unpack", ("posix_command", "windows_command"))):
        f10 = ctx.anchor_func(q10)
        cp10 = func_params(f10)[0]
        for rt in [r for r in walk_no_nested(f10) if isinstance(r, ast.Return) and r.value is not None]:
            n10 += 1
            v = rt.value
            calls10 = [v] if isinstance(v, ast.Call) else ([v.body, v.orelse] if isinstance(v, ast.IfExp) else [])
            al10 = single_assign_aliases(f10)
            ok10 = bool(calls10) and all(isinstance(c, ast.Call) and norm(expand_aliases(c.func, al10)) in concrete or
                                         (isinstance(c, ast.Call) and isinstance(expand_aliases(c.func, al10), ast.IfExp) and
                                          {norm(expand_aliases(c.func, al10).body), norm(expand_aliases(c.func, al10).orelse)} <= set(concrete)) for c in calls10)
            ctx.check(ok10, "R1.10", f"{q10.split('fieldtypes.')[1]}:return {norm(v)[:40]}", f"`return {norm(v)[:60]}` does not construct one of {concrete}: the generic class chooses the "
                      "flavour from the reading host, not from the stored tag", rt, f"returns {concrete[0]}(...) or {concrete[1]}(...)", key=f"R1.10:{q10.split('fieldtypes.')[1]}:flavour-from-host")
    ctx.floor("R1.10", "returns of flavoured decoders", n10, 2)

    # ------------------------------------------------------------------ R1.11 (sibling rule) every descriptor frame is registered
    ctx.import_rule("C03", "R3.5", "R1.11", "a record is decoded only if its descriptor frame was registered: readers register every descriptor frame unconditionally")

    # ------------------------------------------------------------------ R1.12 (sibling rule) what the packer writes for a digest follows the visible value
    ctx.import_rule("C05", "R5.12", "R1.12", "digest._pack writes the binary attributes: a setter keeps them in step with the hex text on every normal path")
    ctx.import_rule("C03", "R3.3", "R1.13", "a record is read back only if the descriptors it needs are in the stream before it: member descriptors of a grouped record are registered, and every new descriptor is written at once")



def _always_leaves(stmts) -> bool:
    if not stmts:
        return False
    last = stmts[-1]
    if isinstance(last, (ast.Return, ast.Raise)):
        return True
    if isinstance(last, ast.If) and last.orelse:
        return _always_leaves(last.body) and _always_leaves(last.orelse)
    return False


def _is_identity(fn) -> bool:
    rets = [r for r in walk_no_nested(fn) if isinstance(r, ast.Return)]
    p = func_params(fn)[-1]
    return bool(rets) and all(isinstance(r.value, ast.Name) and r.value.id == p for r in rets)


def _int_constants_in_returns(prog, fn):
    out = set()
    names = set()
    for r in walk_no_nested(fn):
        if isinstance(r, ast.Return) and isinstance(r.value, ast.Tuple):
            for e in r.value.elts:
                for n in ast.walk(e):
                    if isinstance(n, ast.Name):
                        names.add(n.id)
                        # a constant named directly in the returned tuple (`(v, TAG_A if c else TAG_B)`)
                        try:
                            v0 = prog.fold(fn._module, n)
                            if isinstance(v0, int) and not isinstance(v0, bool) and not any(
                                    isinstance(x, ast.Name) and x.id == n.id and isinstance(x.ctx, ast.Store) for x in ast.walk(fn)):
                                out.add(v0)
                        except NotConst:
                            pass
    # locals assigned from constant choices:  t = A if cond else B
    for st in walk_no_nested(fn):
        if isinstance(st, ast.Assign) and isinstance(st.targets[0], ast.Name) and st.targets[0].id in names:
            for n in ast.walk(st.value):
                if isinstance(n, ast.Name):
                    try:
                        v = prog.fold(fn._module, n)
                        if isinstance(v, int) and not isinstance(v, bool):
                            out.add(v)
                    except NotConst:
                        pass
    return out


def _int_constants_compared(prog, fn):
    out = set()
    for n in ast.walk(fn):
        if isinstance(n, ast.Compare) and len(n.ops) == 1 and isinstance(n.ops[0], (ast.Eq, ast.NotEq)):
            for side in (n.left, n.comparators[0]):
                if isinstance(side, ast.Name):
                    try:
                        v = prog.fold(fn._module, side)
                        if isinstance(v, int) and not isinstance(v, bool):
                            out.add(v)
                    except NotConst:
                        pass
    return out


def _has_default_return(fn) -> bool:
    """A return that is not under an `== TAG` test (else branch or trailing return)."""
    last = fn.body[-1]
    if isinstance(last, ast.Return):
        return True
    if isinstance(last, ast.If):
        cur = last
        while cur.orelse and len(cur.orelse) == 1 and isinstance(cur.orelse[0], ast.If):
            cur = cur.orelse[0]
        return bool(cur.orelse)
    return False


def _new_dispatches(prog, cls):
    """Names of the subclasses the class's (inherited) __new__ assigns to cls."""
    new = prog.class_attr(cls, "__new__")
    if not (isinstance(new, DefRef) and isinstance(new.node, ast.FunctionDef)):
        return []
    out = []
    for n in ast.walk(new.node):
        if isinstance(n, ast.Assign) and any(isinstance(t, ast.Name) and t.id == "cls" for t in n.targets):
            for x in ast.walk(n.value):
                if isinstance(x, ast.Name) and x.id != "cls":
                    r = prog.resolve_expr(new.node._module, x)
                    if isinstance(r, DefRef) and isinstance(r.node, ast.ClassDef):
                        out.append(r.qualname.split(".")[-1])
    return sorted(set(out))


def _two_family_factory(prog, cls):
    init = prog.class_attr(cls, "__init__")
    if not (isinstance(init, DefRef) and isinstance(init.node, ast.FunctionDef)):
        return None
    for st in walk_no_nested(init.node):
        if isinstance(st, ast.Assign) and isinstance(st.value, ast.Call):
            r = prog.resolve_expr(init.node._module, st.value.func)
            if isinstance(r, Ref) and r.name in TWO_FAMILY_FACTORIES:
                return r.name
    return None


def _packs_textual(fn) -> bool:
    for r in walk_no_nested(fn):
        if isinstance(r, ast.Return) and r.value is not None:
            v = r.value
            if isinstance(v, ast.Call) and call_name(v) in ("str", "repr", "format"):
                continue
            if isinstance(v, ast.Attribute) and v.attr in TEXTUAL_ATTRS:
                continue
            return False
    return True


def _ret_text(fn) -> str:
    return " / ".join(norm(r.value) for r in walk_no_nested(fn) if isinstance(r, ast.Return) and r.value is not None)


def _isinstance_tags(fn):
    return [n for n in ast.walk(fn) if isinstance(n, ast.Call) and call_name(n) == "isinstance" and norm(n.args[0]) == "self"]


def _enclosing_ifexp(tree, node):
    parents = {}
    for p in ast.walk(tree):
        for c in ast.iter_child_nodes(p):
            parents[id(c)] = p
    cur = node
    while id(cur) in parents:
        cur = parents[id(cur)]
        if isinstance(cur, ast.IfExp):
            return cur
    return None
