"""C07 - Both selector engines compute the Python meaning of the expression."""
from __future__ import annotations

import ast
import re

from ..cfg import CFG
from ..core import (AnalysisError, DefRef, LambdaRef, NotConst, Ref, call_name, calls_in, dotted, enclosing_conditions, func_params, norm,
                    qualname_of, walk_no_nested)

PROPERTY = "C07"
EXPLANATION = (
    "Decides structural necessary conditions for 'the interpreted engine computes Python's meaning': (R7.1) for every AST "
    "node kind the interpreter handles, every semantically relevant field of that kind (taken from the running ast module's "
    "_fields) is read and every list-valued field is consumed entirely - a field that is never read means part of the "
    "expression is silently ignored; (R7.2) unknown syntax reaches a raise, operator tables are indexed, not .get(); (R7.3) "
    "each entry of the operator/comparator tables is the operator Python assigns to that AST class, membership lambdas pass "
    "the container first; (R7.4) BoolOp folds all operands through bool(), BinOp/UnaryOp keep operand order, List/Tuple "
    "displays build the same container type; (R7.5) the Type-matcher's special methods exist under names the data model "
    "dispatches to and delegate to the matching operator; (R7.6) namespace agreement of the two engines. The compiled engine "
    "is Python's own eval; its namespace wiring is checked. NOT decided: value-level agreement on generated programs, helper "
    "function semantics."
    " Also decided (rules added after the fifth blind round): (R7.7) a typed matcher built for a nested record receives the whole query (type path and attribute chain) of the matcher that builds it; (R7.8) the interpreted namespace, in which generator variables are bound, is rebuilt before every evaluation."
    " Rules added after the sixth blind round: (R7.9) a generator variable is unbound when its generator ends; (R7.10) the expression text reaches compile() as given; (R7.11) get_field returns the plain three-argument getattr."
    " Rules added after the seventh blind round: (R7.12) in field_equals / field_contains every needle that is compared with or searched in the field value has been lowered on every path on which the nocase flag is on - decided by reaching definitions and reachability under the flag, through locals, loops, comprehensions and lists built in place."
    " Taken over at the end of the session: (R7.13 = R10.2, R7.14 = R10.3 of C10) neither engine carries per-record state from one record to the next."
)
RULE_SUMMARY = ("instances: (node kind, field) pairs, table entries, special methods; non-trivial = required reading a branch "
                "body, a lambda or a method body")

INERT_FIELDS = {"ctx", "kind", "type_comment", "is_async", "lineno", "col_offset", "end_lineno", "end_col_offset"}
LIST_FIELDS = {"ops", "comparators", "values", "elts", "args", "keywords", "generators", "ifs"}
# sub-kinds reached through list fields, not through self.eval dispatch
SUBKINDS = {("Call", "keywords"): "keyword", ("GeneratorExp", "generators"): "comprehension"}

REF_OPERATORS = {
    "ast.Add": "operator.add", "ast.Sub": "operator.sub", "ast.Mult": "operator.mul", "ast.Div": "operator.truediv",
    "ast.FloorDiv": "operator.floordiv", "ast.Mod": "operator.mod", "ast.Pow": "operator.pow", "ast.LShift": "operator.lshift",
    "ast.RShift": "operator.rshift", "ast.BitOr": "operator.or_", "ast.BitXor": "operator.xor", "ast.BitAnd": "operator.and_",
    "ast.MatMult": "operator.matmul", "ast.Not": "operator.not_", "ast.Invert": "operator.invert", "ast.USub": "operator.neg",
    "ast.UAdd": "operator.pos", "ast.And": "operator.and_", "ast.Or": "operator.or_",
}
REF_COMPARATORS = {
    "ast.Eq": "operator.eq", "ast.NotEq": "operator.ne", "ast.Lt": "operator.lt", "ast.LtE": "operator.le",
    "ast.Gt": "operator.gt", "ast.GtE": "operator.ge", "ast.Is": "operator.is_", "ast.IsNot": "operator.is_not",
}
ALIASES = {"operator.inv": "operator.invert", "operator.__add__": "operator.add", "operator.div": "operator.truediv"}
DUNDER_OPS = {"__eq__": "operator.eq", "__ne__": "operator.ne", "__lt__": "operator.lt", "__le__": "operator.le",
              "__gt__": "operator.gt", "__ge__": "operator.ge", "__contains__": "operator.contains"}
FORBIDDEN_KINDS = {"Lambda", "NamedExpr", "Starred", "ListComp", "SetComp", "DictComp", "Await", "Yield", "YieldFrom"}


def eval_branches(ev_fn):
    """[(kinds:list[str], If node)] for the isinstance(node, ast.K) chain of _eval."""
    out = []
    p_node = func_params(ev_fn)[1]
    for st in walk_no_nested(ev_fn):
        if isinstance(st, ast.If) and isinstance(st.test, ast.Call) and call_name(st.test) == "isinstance" \
                and len(st.test.args) == 2 and norm(st.test.args[0]) == p_node:
            t = st.test.args[1]
            elts = t.elts if isinstance(t, ast.Tuple) else [t]
            kinds = []
            for e in elts:
                d = dotted(e)
                if d and d.startswith("ast."):
                    kinds.append(d[4:])
            if kinds:
                out.append((kinds, st))
    return out, p_node


def branch_body_nodes(st: ast.If, node_var: str = "node", _depth: int = 0):
    """Nodes of a branch of _eval; when the branch hands the node on to another method of the matcher (`return self._generator_values(node)`),
    the nodes of that method too, with its parameter renamed to the branch's node variable (the handling of the kind simply lives there)."""
    from ..core import copy_ast

    for s0 in st.body:
        for n in ast.walk(s0):
            yield n
            if _depth < 3 and isinstance(n, ast.Call) and isinstance(n.func, ast.Attribute) and isinstance(n.func.value, ast.Name) and n.func.value.id == "self" \
                    and n.func.attr in METHODS_FOR_ELEMENTS:
                m = METHODS_FOR_ELEMENTS[n.func.attr]
                mp = func_params(m)[1:]
                for i, a in enumerate(n.args):
                    if isinstance(a, ast.Name) and a.id == node_var and i < len(mp):
                        body = ast.If(test=ast.Constant(value=True), body=[copy_ast(x) for x in m.body], orelse=[])
                        for x in ast.walk(body):
                            if isinstance(x, ast.Name) and x.id == mp[i]:
                                x.id = node_var
                            if not hasattr(x, "_module") and hasattr(m, "_module"):
                                x._module = m._module
                        for x in ast.walk(body):
                            for ch in ast.iter_child_nodes(x):
                                ch._parent = x
                        yield from branch_body_nodes(body, node_var, _depth + 1)


def field_reads(nodes, var):
    """attribute names read on `var` among nodes: {field: [Attribute nodes]}"""
    out = {}
    for n in nodes:
        if isinstance(n, ast.Attribute) and isinstance(n.value, ast.Name) and n.value.id == var:
            out.setdefault(n.attr, []).append(n)
    return out


METHODS_FOR_ELEMENTS: dict = {}


def element_vars(nodes_list, var, field):
    """Variables that hold ELEMENTS of `var.field` (through for-loops, comprehensions, list(...) copies, .pop(),
    and parameters of nested functions that receive the list)."""
    nodes = list(nodes_list)
    list_aliases = set()
    elems = set()

    def is_list_expr(e):
        if isinstance(e, ast.Attribute) and isinstance(e.value, ast.Name) and e.value.id == var and e.attr == field:
            return True
        if isinstance(e, ast.Subscript) and isinstance(e.slice, ast.Slice):
            return is_list_expr(e.value)
        if isinstance(e, ast.Name) and e.id in list_aliases:
            return True
        if isinstance(e, ast.Call) and call_name(e) in ("list", "tuple", "reversed", "iter") and e.args:
            return is_list_expr(e.args[0])
        return False

    funcs = {n.name: n for n in nodes if isinstance(n, ast.FunctionDef)}
    pulled = set()
    changed = True
    while changed:
        changed = False
        for n in list(nodes):
            if isinstance(n, ast.Call) and isinstance(n.func, ast.Name) and n.func.id in funcs:
                fparams = func_params(funcs[n.func.id])
                for i, a in enumerate(n.args):
                    if is_list_expr(a) and i < len(fparams) and fparams[i] not in list_aliases:
                        list_aliases.add(fparams[i])
                        changed = True
            # the list handed to another method of the same class (self.m(node.generators[::-1])): its parameter holds the list there
            if isinstance(n, ast.Call) and isinstance(n.func, ast.Attribute) and isinstance(n.func.value, ast.Name) and n.func.value.id == "self" \
                    and n.func.attr in METHODS_FOR_ELEMENTS:
                m = METHODS_FOR_ELEMENTS[n.func.attr]
                fparams = func_params(m)[1:]
                for i, a in enumerate(n.args):
                    if is_list_expr(a) and i < len(fparams):
                        if fparams[i] not in list_aliases:
                            list_aliases.add(fparams[i])
                            changed = True
                        if m.name not in pulled:
                            pulled.add(m.name)
                            extra = list(ast.walk(m))
                            nodes.extend(extra)
                            if isinstance(nodes_list, list):
                                nodes_list.extend(extra)
                            changed = True
            if isinstance(n, ast.Assign) and len(n.targets) == 1 and isinstance(n.targets[0], ast.Name):
                t = n.targets[0].id
                if is_list_expr(n.value) and t not in list_aliases:
                    list_aliases.add(t)
                    changed = True
                v = n.value
                if isinstance(v, ast.Call) and isinstance(v.func, ast.Attribute) and v.func.attr == "pop" and is_list_expr(v.func.value):
                    if t not in elems:
                        elems.add(t)
                        changed = True
                if isinstance(v, ast.Subscript) and not isinstance(v.slice, ast.Slice) and is_list_expr(v.value) and t not in elems:
                    elems.add(t)
                    changed = True
            if isinstance(n, (ast.For, ast.comprehension)) and is_list_expr(n.iter):
                for tn in ast.walk(n.target):
                    if isinstance(tn, ast.Name) and tn.id not in elems:
                        elems.add(tn.id)
                        changed = True
    return elems, list_aliases


def list_field_consumption(nodes_list, var, field):
    """Classify uses of var.field: returns (full:bool, partial:[nodes])."""
    full = False
    partial = []
    for n in nodes_list:
        if isinstance(n, ast.Attribute) and isinstance(n.value, ast.Name) and n.value.id == var and n.attr == field:
            par = getattr(n, "_parent", None)
            if isinstance(par, ast.Subscript) and par.value is n:
                if isinstance(par.slice, ast.Slice):
                    sl = par.slice
                    if sl.lower is None and sl.upper is None:
                        full = True  # [:] or [::-1]
                    else:
                        partial.append(par)
                else:
                    partial.append(par)
                continue
            if isinstance(par, (ast.For, ast.comprehension)) and par.iter is n:
                full = True
            elif isinstance(par, ast.Call) and n in par.args:
                full = True  # map(f, xs), zip(a, b), list(xs), len(xs) handled below
                if call_name(par) == "len":
                    full = full  # a length test alone does not consume, but is harmless
            elif isinstance(par, ast.Starred):
                full = True
            else:
                full = True if isinstance(par, (ast.Return, ast.Assign)) else full
    return full, partial


def check_fresh_namespace(ctx, rule: str) -> None:
    prog = ctx.prog
    ctx.rule(rule, "the interpreted engine binds generator variables in its namespace dict; matches() therefore builds that dict anew before every "
                     "evaluation (a name left over from the previous record would make the next any()/all() raise instead of giving Python's answer)")
    rcm = prog.cls("flow.record.selector.RecordContextMatcher")
    mt8 = ctx.anchor_func("flow.record.selector.RecordContextMatcher.matches")
    dyn = []
    for fn in prog.methods_of(rcm).values():
        for n in ast.walk(fn):
            if isinstance(n, ast.Subscript) and isinstance(n.ctx, ast.Store) and norm(n.value) == "self.data" and not isinstance(n.slice, ast.Constant):
                dyn.append(n)
    ctx.floor(rule, "dynamic bindings in the interpreted namespace", len(dyn), 1)
    mcfg8 = CFG(mt8)
    evals8 = [c for c in calls_in(mt8) if norm(c.func) in ("self.eval", "self._eval")]
    ctx.floor(rule, "evaluation calls in matches()", len(evals8), 1)
    fresh = [st for st in walk_no_nested(mt8) if isinstance(st, ast.Assign) and any(norm(t) == "self.data" for t in st.targets)
             and (isinstance(st.value, ast.Dict) or (isinstance(st.value, ast.Call) and call_name(st.value) == "dict"))]
    removed = [n for fn in prog.methods_of(rcm).values() for n in ast.walk(fn)
               if (isinstance(n, ast.Delete) and any(isinstance(t, ast.Subscript) and norm(t.value) == "self.data" for t in n.targets))
               or (isinstance(n, ast.Call) and norm(n.func) in ("self.data.pop", "self.data.clear"))]
    for ev in evals8:
        en = mcfg8.node_of(ev)
        ok8 = any(mcfg8.dominates(mcfg8.node_of(st).id, en.id) for st in fresh) or bool(removed)
        ctx.check(ok8, rule, "matches:fresh-namespace", "matches() evaluates in a namespace dict that is not rebuilt for this record, and nothing removes the generator variables "
                  f"bound by `{norm(dyn[0]._parent)[:50]}`: from the second record on a supported any()/all() expression is refused as overwriting a variable", ev,
                  "self.data = {...} dominates self.eval(...)", key=f"{rule}:matches:namespace-reused")



def run(ctx):
    prog = ctx.prog
    sel = prog.module("flow.record.selector")
    ctx.use(sel)
    ctx.trust("ast.<K>._fields of the running interpreter (the one the library runs on) as the definition of what an "
              "expression node of kind K contains; the reference map from ast operator classes to operator.* functions")
    ev_fn = ctx.anchor_func("flow.record.selector.RecordContextMatcher._eval")
    branches, p_node = eval_branches(ev_fn)
    METHODS_FOR_ELEMENTS.clear()
    METHODS_FOR_ELEMENTS.update({k: v for k, v in prog.methods_of(prog.cls("flow.record.selector.RecordContextMatcher")).items() if k not in ("_eval", "eval", "matches", "__init__")})

    # ------------------------------------------------------------------ R7.1
    ctx.rule("R7.1", "for every handled node kind K, every field in ast.K._fields outside the inert set is read, and every "
                     "list-valued field is consumed entirely (no constant-index partial read)")
    handled = {}
    for kinds, st in branches:
        for k in kinds:
            handled[k] = st
    ctx.floor("R7.1", "node kinds handled by RecordContextMatcher._eval", len(handled), 12)
    for k, st in sorted(handled.items()):
        cls = getattr(ast, k, None)
        if cls is None:
            raise AnalysisError(f"R7.1: ast.{k} does not exist in this interpreter")
        nodes = list(branch_body_nodes(st, p_node))
        reads = field_reads(nodes, p_node)
        readers = [(nodes, p_node)]
        # a kind that is also reached as the element of a parent's list field (comprehension in GeneratorExp.generators)
        # is read partly in its own branch and partly through the parent's element variables
        for (kk, lf), sub in SUBKINDS.items():
            if sub == k and kk in handled:
                pnodes = list(branch_body_nodes(handled[kk], p_node))
                elems, _ = element_vars(pnodes, p_node, lf)
                for v in elems:
                    readers.append((pnodes, v))
                    for f, ns in field_reads(pnodes, v).items():
                        reads.setdefault(f, []).extend(ns)
        for f in cls._fields:
            if f in INERT_FIELDS:
                continue
            construct = f"_eval:{k}.{f}"
            if f not in reads:
                ctx.fail("R7.1", construct, f"field `{f}` of ast.{k} is never read: that part of the expression is silently ignored "
                         "instead of being evaluated or rejected", st, key=f"R7.1:{k}.{f}:unread")
                continue
            if f in LIST_FIELDS:
                full, partial = False, []
                for rn, rv in readers:
                    fu, pa = list_field_consumption(rn, rv, f)
                    full, partial = full or fu, partial + pa
                if not full:
                    ctx.fail("R7.1", construct, f"list field `{f}` of ast.{k} is only read at constant positions "
                             f"({', '.join(norm(p) for p in partial[:2])}): further elements are silently ignored", st,
                             key=f"R7.1:{k}.{f}:partial")
                    continue
            ctx.ok("R7.1", construct, "read" + (" and consumed entirely" if f in LIST_FIELDS else ""), st)
        # sub-kinds reached through list fields
        for (kk, lf), sub in SUBKINDS.items():
            if kk != k:
                continue
            subcls = getattr(ast, sub)
            elems, _aliases = element_vars(nodes, p_node, lf)
            sub_reads = set()
            for v in elems:
                sub_reads |= set(field_reads(nodes, v))
            # the sub-kind may also have its own dispatch branch (ast.comprehension has one)
            if sub in handled:
                sub_reads |= set(field_reads(list(branch_body_nodes(handled[sub])), p_node))
            for f in subcls._fields:
                if f in INERT_FIELDS:
                    continue
                construct = f"_eval:{k}.{lf}[].{f}"
                if f not in sub_reads:
                    ctx.fail("R7.1", construct, f"field `{f}` of ast.{sub} (elements of {k}.{lf}) is never read: that part of the "
                             "expression is silently ignored", st, key=f"R7.1:{sub}.{f}:unread")
                else:
                    ctx.ok("R7.1", construct, f"read through the elements of {k}.{lf}", st)
    bad_kinds = sorted(set(handled) & FORBIDDEN_KINDS)
    ctx.check(not bad_kinds, "R7.1", "_eval:forbidden-kinds", f"the interpreter now evaluates {bad_kinds} (callable / binding creating syntax)",
              ev_fn, "no branch for Lambda/NamedExpr/Starred/comprehension displays", key="R7.1:_eval:forbidden-kinds")

    # ------------------------------------------------------------------ R7.2
    ctx.rule("R7.2", "the dispatch of _eval ends in a raise (no default value for unknown syntax); operator tables are indexed "
                     "with [...] so an unknown operator is a KeyError, not a default")
    cfg = CFG(ev_fn)
    implicit = [p for p, _ in cfg.pred[cfg.exit] if not isinstance(cfg.nodes[p].ast, ast.Return)]
    ctx.check(not implicit, "R7.2", "_eval:fall-through", "a path leaves _eval without `return` (evaluates unknown syntax to None)",
              ev_fn, "every path to the normal exit is an explicit return; the fall-through raises")
    none_returns = [n for n in walk_no_nested(ev_fn) if isinstance(n, ast.Return) and n.value is None]
    ctx.check(not none_returns, "R7.2", "_eval:bare-return", "a bare `return` yields None for some syntax", ev_fn, "no bare return")
    last = ev_fn.body[-1]
    ctx.check(isinstance(last, ast.Raise), "R7.2", "_eval:final-raise", "the last statement of _eval is not a raise", last, "final raise")
    gets = [c for c in calls_in(ev_fn, nested=True) if isinstance(c.func, ast.Attribute) and c.func.attr == "get"
            and dotted(c.func.value) in ("AST_OPERATORS", "AST_COMPARATORS")]
    ctx.check(not gets, "R7.2", "_eval:table-get", "an operator table is read with .get() (unknown operator gets a default)", ev_fn,
              "tables are subscripted")

    # ------------------------------------------------------------------ R7.3
    ctx.rule("R7.3", "each entry of AST_OPERATORS / AST_COMPARATORS is the operator Python assigns to that ast class; the "
                     "membership lambdas call operator.contains(container, item)")
    for tname, ref in (("AST_OPERATORS", REF_OPERATORS), ("AST_COMPARATORS", REF_COMPARATORS)):
        try:
            table = prog.fold(sel, ast.parse(tname).body[0].value)
        except NotConst as e:
            raise AnalysisError(f"R7.3: {tname} does not fold to a constant table ({e})")
        if not isinstance(table, dict):
            raise AnalysisError(f"R7.3: {tname} is not a dict")
        ctx.floor("R7.3", f"entries of {tname}", len(table), 8)
        for k, v in table.items():
            kname = k.name if isinstance(k, Ref) else repr(k)
            construct = f"{tname}[{kname}]"
            if kname in ("ast.In", "ast.NotIn"):
                ok, why = check_membership_entry(prog, sel, v, negated=(kname == "ast.NotIn"))
                ctx.check(ok, "R7.3", construct, why, None, why, key=f"R7.3:{construct}:wrong-operator")
                continue
            want = ref.get(kname)
            if want is None:
                ctx.fail("R7.3", construct, f"{kname} has no Python operator in the reference map", None)
                continue
            got = v.name if isinstance(v, Ref) else repr(v)
            got = ALIASES.get(got, got)
            ctx.check(got == want, "R7.3", construct, f"{kname} is mapped to {got}; Python's meaning is {want}", None,
                      f"{kname} -> {got}", key=f"R7.3:{construct}:wrong-operator")
            ctx.sample({"rule": "R7.3", "entry": construct, "maps_to": got, "reference": want})

    # ------------------------------------------------------------------ R7.4
    ctx.rule("R7.4", "BoolOp: every operand goes through bool() and all are combined; BinOp/UnaryOp: operands in source order; "
                     "List/Tuple displays build list/tuple respectively; Constant returns node.value")
    for k, want in (("List", "list"), ("Tuple", "tuple")):
        st = handled.get(k)
        if st is None:
            continue
        rets = [n for s0 in st.body for n in walk_no_nested(s0) if isinstance(n, ast.Return)]
        for r in rets:
            got = container_kind(r.value)
            ctx.check(got == want, "R7.4", f"_eval:{k}:constructor",
                      f"an ast.{k} display is evaluated to a {got or norm(r.value)}, Python builds a {want}", r,
                      f"builds a {want}", key=f"R7.4:_eval:{k}:builds-{got}")
    st = handled.get("BinOp")
    if st is not None:
        apps = [c for n in branch_body_nodes(st) if isinstance(n, ast.Call) and isinstance(n.func, ast.Subscript)
                and dotted(n.func.value) == "AST_OPERATORS" for c in [n]]
        ctx.floor("R7.4", "operator applications in BinOp", len(apps), 1)
        env = local_defs(st)
        for c in apps:
            a = [origin(env, x, p_node) for x in c.args]
            ok = len(a) == 2 and a[0] == "left" and a[1] == "right" and norm(c.func.slice) == f"type({p_node}.op)"
            ctx.check(ok, "R7.4", "_eval:BinOp:operand-order", f"operator applied to ({a}) indexed by {norm(c.func.slice)}", c,
                      "AST_OPERATORS[type(node.op)](eval(node.left), eval(node.right))")
    st = handled.get("UnaryOp")
    if st is not None:
        apps = [n for n in branch_body_nodes(st) if isinstance(n, ast.Call) and isinstance(n.func, ast.Subscript)
                and dotted(n.func.value) == "AST_OPERATORS"]
        env = local_defs(st)
        for c in apps:
            a = [origin(env, x, p_node) for x in c.args]
            ctx.check(a == ["operand"], "R7.4", "_eval:UnaryOp:operand", f"operator applied to {a}", c, "applied to eval(node.operand)")
    st = handled.get("BoolOp")
    if st is not None:
        nodes = list(branch_body_nodes(st))
        has_bool = any(isinstance(n, ast.Call) and call_name(n) == "bool" for n in nodes)
        loops = [n for n in nodes if isinstance(n, (ast.For, ast.comprehension)) and norm(n.iter) == f"{p_node}.values"]
        # the operator of the table is applied either directly / through a local, or handed to functools.reduce with the values
        table_reads = [n for n in nodes if isinstance(n, ast.Subscript) and dotted(n.value) == "AST_OPERATORS" and norm(n.slice) == f"type({p_node}.op)"]
        combos = [n for n in nodes if isinstance(n, ast.Call) and ((isinstance(n.func, ast.Subscript) and dotted(n.func.value) == "AST_OPERATORS")
                                                                   or call_name(n) in ("functools.reduce", "reduce")
                                                                   or (isinstance(n.func, ast.Name) and any(
                                                                       isinstance(a, ast.Assign) and norm(a.targets[0]) == n.func.id and a.value in table_reads for a in nodes)))]
        early = [n for l in loops if isinstance(l, ast.For) for n in ast.walk(l) if isinstance(n, (ast.Break,))]
        sliced = [n for n in nodes if isinstance(n, ast.Subscript) and norm(n.value) == f"{p_node}.values"]
        ctx.check(has_bool and bool(loops) and bool(combos) and bool(table_reads) and not early and not sliced, "R7.4", "_eval:BoolOp:fold",
                  "BoolOp operands are not all converted with bool() and combined", st, "all values -> bool() -> folded with the table operator")
    st = handled.get("Constant")
    if st is not None:
        rets = [n for s0 in st.body for n in walk_no_nested(s0) if isinstance(n, ast.Return)]
        ctx.check(all(norm(r.value) == f"{p_node}.value" for r in rets) and rets, "R7.4", "_eval:Constant:value",
                  "a constant does not evaluate to its value", st, "returns node.value")

    # ------------------------------------------------------------------ R7.5
    ctx.rule("R7.5", "TypeMatcherInstance defines __eq__ __ne__ __lt__ __le__ __gt__ __ge__ __contains__ and each delegates to "
                     "_op with the matching operator.* function; other dunder-looking names are reported")
    tmi = ctx.anchor_cls("flow.record.selector.TypeMatcherInstance")
    methods = prog.methods_of(tmi)
    for m, want in DUNDER_OPS.items():
        fn = methods.get(m)
        construct = f"TypeMatcherInstance.{m}"
        if fn is None:
            ctx.fail("R7.5", construct, f"{m} is not defined: `Type.<t> {m}` falls back to object defaults / raises TypeError", tmi,
                     key=f"R7.5:TypeMatcherInstance:lacks:{m}")
            continue
        rets = [n for n in walk_no_nested(fn) if isinstance(n, ast.Return)]
        ok = False
        got = None
        if len(rets) == 1 and isinstance(rets[0].value, ast.Call) and norm(rets[0].value.func) == "self._op" and len(rets[0].value.args) == 2:
            r = prog.resolve_expr(sel, rets[0].value.args[0])
            got = r.name if isinstance(r, Ref) else norm(rets[0].value.args[0])
            ok = got == want and norm(rets[0].value.args[1]) == func_params(fn)[1]
        ctx.check(ok, "R7.5", construct, f"does not delegate to self._op({want}, other) (found {got or norm(rets[0].value) if rets else 'no return'}): "
                  "the any-field-matches meaning of the operator is lost", fn, f"self._op({want}, other)",
                  key=f"R7.5:TypeMatcherInstance.{m}:delegation")
    # Type.<t> ranges over EVERY field of that type: a value is left out only when an attribute along the path is missing (the sentinel)
    vfn = prog.methods_of(tmi).get("_values")
    if vfn is None:
        raise AnalysisError("R7.5: TypeMatcherInstance._values not found")
    from .. import logic as _lg7
    from ..cfg import CFG as _CFG7

    vcfg = _CFG7(vfn)
    ys7 = [y for y in ast.walk(vfn) if isinstance(y, ast.Yield) and y.value is not None]
    ctx.floor("R7.5", "yields in TypeMatcherInstance._values", len(ys7), 1)
    for y in ys7:
        yv = norm(y.value)
        nd = vcfg.header_node_for_expr(y) or vcfg.node_of(y)
        prem = _lg7.facts_as_premises(vcfg.facts_at(nd.id))
        extra = []
        for e0, p0 in prem:
            ats = _lg7.atoms(_lg7.formula(e0))
            for a in ats:
                if yv in a and "NONE_OBJECT" not in a and "NoneObject" not in a:
                    extra.append(a)
        ctx.check(not extra, "R7.5", "TypeMatcherInstance._values:skips-only-missing", f"a field value is left out of Type.<t> depending on {sorted(set(extra))}: comparisons that are true for "
                  "that value (e.g. `Type.string == None`, `!=`) then give the wrong answer", y, "a value is skipped only when it is the missing-attribute sentinel",
                  key="R7.5:TypeMatcherInstance._values:extra-skip")
    for cname in ("NoneObject", "TypeMatcherInstance", "TypeMatcher", "WrappedRecord"):
        c = prog.cls(f"flow.record.selector.{cname}")
        for mname in prog.methods_of(c):
            if mname.startswith("__") and mname.endswith("__") and not is_special_name(mname):
                ctx.info("R7.5", f"{cname}.{mname} looks like a special method but is not one the data model dispatches to (dead code)", c)
    # _op: any() semantics over own values and sub-records
    opfn = methods.get("_op")
    if opfn is None:
        raise AnalysisError("R7.5: TypeMatcherInstance._op not found")
    calls = [c for c in calls_in(opfn) if isinstance(c.func, ast.Name) and c.func.id == func_params(opfn)[1]]
    ok = any([norm(a) for a in c.args] == ["v", func_params(opfn)[2]] or len(c.args) == 2 and norm(c.args[1]) == func_params(opfn)[2] for c in calls)
    ctx.check(ok, "R7.5", "TypeMatcherInstance._op:application", "op is not applied as op(value, other)", opfn, "op(value, other)")

    # helper functions decide "equals" with ==, as Python would for the expression they stand for: membership in a HASH container (set /
    # frozenset / dict) asks hash() first - values that compare equal to a string but hash differently (ip addresses) or are unhashable
    # (paths, lists) then give another answer or raise
    wl7 = prog.fold(sel, ast.parse("FUNCTION_WHITELIST").body[0].value)
    n_h = 0
    for ref in wl7:
        if not (isinstance(ref, DefRef) and isinstance(ref.node, ast.FunctionDef)):
            continue
        hf = ref.node
        n_h += 1
        defs7 = {}
        for st in walk_no_nested(hf):
            if isinstance(st, ast.Assign) and len(st.targets) == 1 and isinstance(st.targets[0], ast.Name):
                defs7.setdefault(st.targets[0].id, []).append(st.value)

        def hashy(e, depth=0):
            if isinstance(e, (ast.Set, ast.SetComp, ast.Dict, ast.DictComp)):
                return True
            if isinstance(e, ast.Call) and call_name(e) in ("set", "frozenset", "dict"):
                return True
            if isinstance(e, ast.Name) and depth < 3:
                return any(hashy(v, depth + 1) for v in defs7.get(e.id, []))
            return False

        for cmp_ in [n for n in ast.walk(hf) if isinstance(n, ast.Compare) and len(n.ops) == 1 and isinstance(n.ops[0], (ast.In, ast.NotIn))]:
            if hashy(cmp_.comparators[0]):
                ctx.fail("R7.5", f"{hf.name}:hash-membership", f"`{norm(cmp_)}` decides a match by hashing the field value: values that equal a string without hashing like it "
                         "(net.ipaddress) silently do not match and unhashable values (path, lists) raise, where `==` gives the Python answer", cmp_,
                         key=f"R7.5:{hf.name}:hash-membership")
    ctx.ok("R7.5", "helpers:equality-by-==", f"{n_h} helper functions: no membership test against a hash container", None)

    # ------------------------------------------------------------------ R7.7 the typed matcher keeps its query when it descends
    ctx.rule("R7.7", "a TypeMatcherInstance built for a nested record (first argument is not the matcher's own record) receives every piece of the "
                     "query the constructor takes - type path and attribute chain - from the matcher that builds it")
    tmi = prog.cls("flow.record.selector.TypeMatcherInstance")
    tinit = prog.methods_of(tmi).get("__init__")
    if tinit is None:
        raise AnalysisError("R7.7: TypeMatcherInstance.__init__ not found")
    tparams = func_params(tinit)[1:]
    # which attribute keeps each constructor parameter
    kept = {}
    for st in walk_no_nested(tinit):
        if isinstance(st, ast.Assign) and len(st.targets) == 1 and isinstance(st.targets[0], ast.Attribute) and norm(st.targets[0].value) == func_params(tinit)[0]:
            for nm in ast.walk(st.value):
                if isinstance(nm, ast.Name) and nm.id in tparams and nm.id not in kept:
                    kept[nm.id] = st.targets[0].attr
    n_desc = 0
    for fn in prog.methods_of(tmi).values():
        if fn is tinit or not func_params(fn):
            continue
        me = func_params(fn)[0]
        for c in calls_in(fn):
            r = prog.resolve_expr(sel, c.func)
            if not (isinstance(r, DefRef) and r.node is tmi) or not c.args:
                continue
            if norm(c.args[0]) == f"{me}.{kept.get(tparams[0], '_rec')}":
                continue  # a refinement of the query on the same record (__getattr__), not a descent
            n_desc += 1
            given = {tparams[i]: a for i, a in enumerate(c.args) if i < len(tparams)}
            given.update({k.arg: k.value for k in c.keywords if k.arg})
            for prm in tparams[1:]:
                want = f"{me}.{kept.get(prm, prm)}"
                got = given.get(prm)
                ctx.check(got is not None and norm(got) == want, "R7.7", f"{fn.name}:descent:{prm}", f"the matcher for a nested record is built with {prm}={norm(got) if got is not None else '<default>'}: "
                          f"the {prm} part of the query is lost below the top level, so `Type.x.attr <op> v` compares something else for values inside nested records", c,
                          f"{prm}={want}", key=f"R7.7:TypeMatcherInstance.{fn.name}:descent-drops:{prm}")
    ctx.floor("R7.7", "descents of the typed matcher into nested records", n_desc, 1)

    check_fresh_namespace(ctx, "R7.8")

    # ------------------------------------------------------------------ R7.9 a generator variable lives as long as its generator
    ctx.rule("R7.9", "the interpreted engine refuses a generator variable whose name is already bound in its namespace; it therefore unbinds the variable when "
                     "the generator ends (a `finally` around the loop that binds it), or `any(x == 1 for x in r.a) and any(x == 2 for x in r.b)` - plain Python - "
                     "is refused because the first generator left `x` behind")
    rcm9 = prog.cls("flow.record.selector.RecordContextMatcher")
    binds9 = []
    for fn9 in [f for f in ast.walk(rcm9) if isinstance(f, ast.FunctionDef)]:
        if fn9.name in ("matches", "__init__"):
            continue  # the namespace set-up itself (helper functions by name) is not a generator binding
        for n9 in walk_no_nested(fn9):
            if isinstance(n9, ast.Assign) and any(isinstance(t, ast.Subscript) and norm(t.value) == "self.data" and not isinstance(t.slice, ast.Constant) for t in n9.targets):
                binds9.append((fn9, n9))
    ctx.floor("R7.9", "bindings of generator variables", len(binds9), 1)
    for fn9, b9 in binds9:
        key9 = norm(next(t for t in b9.targets if isinstance(t, ast.Subscript)).slice)
        tr = getattr(b9, "_parent", None)
        cleaned = False
        while tr is not None and tr is not fn9:
            if isinstance(tr, ast.Try) and any(b9 is x for s0 in tr.body for x in ast.walk(s0)):
                for f9 in tr.finalbody:
                    for x in ast.walk(f9):
                        if isinstance(x, ast.Call) and norm(x.func) == "self.data.pop" and x.args and norm(x.args[0]) == key9:
                            cleaned = True
                        if isinstance(x, ast.Delete) and any(isinstance(t, ast.Subscript) and norm(t.value) == "self.data" and norm(t.slice) == key9 for t in x.targets):
                            cleaned = True
            tr = getattr(tr, "_parent", None)
        ctx.check(cleaned, "R7.9", f"{fn9.name}:generator-variable-unbound", f"`{norm(b9)[:50]}` binds the generator variable in the namespace and nothing removes it when the generator "
                  "ends: a later generator expression of the same selector that uses the same variable name is refused (`overwrites existing variable`) where Python evaluates it", b9,
                  f"try: <loop> finally: self.data.pop({key9}, None)", key="R7.9:generator-variable-left-bound")

    # ------------------------------------------------------------------ R7.6 namespace agreement (informational + wiring)
    ctx.rule("R7.6", "the compiled engine evaluates the expression text unchanged with Python's eval in a namespace holding "
                     "the helper functions, `net`, `r` (wrapped record) and `Type`; differences to the interpreted namespace are listed")
    cs_init = ctx.anchor_func("flow.record.selector.CompiledSelector.__init__")
    cm = ctx.anchor_func("flow.record.selector.CompiledSelector.match")
    comp = [c for c in calls_in(cs_init) if call_name(c) == "compile"]
    ctx.floor("R7.6", "compile() in CompiledSelector.__init__", len(comp), 1)
    p_expr = func_params(cs_init)[1]
    for c in comp:
        src = next((k.value for k in c.keywords if k.arg == "source"), c.args[0] if c.args else None)
        mode = next((k.value for k in c.keywords if k.arg == "mode"), c.args[2] if len(c.args) > 2 else None)
        ctx.check(src is not None and norm(src) == p_expr and isinstance(mode, ast.Constant) and mode.value == "eval", "R7.6",
                  "CompiledSelector.__init__:compile", "the compiled engine does not compile the given expression text in eval mode", c,
                  "compile(source=expression, mode='eval')")
    evs = [c for c in calls_in(cm) if call_name(c) == "eval"]
    ctx.check(len(evs) == 1 and norm(evs[0].args[0]) == "self.code", "R7.6", "CompiledSelector.match:eval",
              "match() does not evaluate the compiled expression", cm, "eval(self.code, ns)")
    mt = ctx.anchor_func("flow.record.selector.RecordContextMatcher.matches")
    interp_names = set()
    for d in ast.walk(mt):
        if isinstance(d, ast.Dict):
            interp_names |= {k.value for k in d.keys if isinstance(k, ast.Constant) and isinstance(k.value, str)}
        if isinstance(d, ast.Subscript) and norm(d.value) == "self.data" and isinstance(d.slice, ast.Constant) and isinstance(d.ctx, ast.Store):
            interp_names.add(d.slice.value)
    fw = prog.fold(sel, ast.parse("FUNCTION_WHITELIST").body[0].value)
    helper_names = {r.qualname.split(".")[-1] for r in fw if isinstance(r, DefRef)}
    interp_names |= helper_names
    compiled_names = set(helper_names)
    for n in ast.walk(cs_init):
        if isinstance(n, ast.Subscript) and norm(n.value) == "self.ns" and isinstance(n.slice, ast.Constant) and isinstance(n.ctx, ast.Store):
            compiled_names.add(n.slice.value)
    from ..core import dict_bindings

    if evs and len(evs[0].args) > 1:
        _bases, _binds, _copied = dict_bindings(cm, evs[0].args[1])
        compiled_names |= {k for k in _binds if isinstance(k, str)}
    for must in ("r", "Type") + tuple(sorted(helper_names)):
        ctx.check(must in interp_names and must in compiled_names, "R7.6", f"namespace:{must}",
                  f"`{must}` is not bound in both engines (interpreted={must in interp_names}, compiled={must in compiled_names})", mt,
                  "bound in both engines")
    only_i = sorted(interp_names - compiled_names - {"None", "True", "False", "str", "repr", "any", "all"})
    only_c = sorted(compiled_names - interp_names)
    if only_i:
        ctx.info("R7.6", f"names bound only in the interpreted engine (the compiled one rejects them with NameError): {only_i}", mt)
    if only_c:
        ctx.info("R7.6", f"names bound only in the compiled engine (interpreted resolves them through the field-type tree or rejects): {only_c}", cm)

    # ------------------------------------------------------------------ R7.10 the expression text is compiled as given
    ctx.rule("R7.10", "Selector.__init__ hands the expression to compile() as it was given (only an empty one is replaced): no split/join/replace/strip on the text - "
                      "whitespace inside string literals is part of the expression")
    si10 = ctx.anchor_func("flow.record.selector.Selector.__init__")
    ep10 = func_params(si10)[1]
    comp10 = [c for c in calls_in(si10) if call_name(c) == "compile"]
    ctx.floor("R7.10", "compile() in Selector.__init__", len(comp10), 1)
    textops = [c for c in calls_in(si10) if isinstance(c.func, ast.Attribute) and c.func.attr in ("split", "join", "replace", "strip", "lstrip", "rstrip", "lower", "upper", "splitlines", "translate", "expandtabs", "format", "sub")
               and any(isinstance(n, ast.Name) and n.id == ep10 for n in ast.walk(c))]
    ctx.check(not textops, "R7.10", "Selector.__init__:expression-text", f"the expression text is rewritten with `{norm(textops[0])[:60] if textops else ''}` before it is compiled: string literals "
              "inside it change with it", textops[0] if textops else si10, "compile(expression or 'True', ...)", key="R7.10:Selector.__init__:expression-text-rewritten")

    # ------------------------------------------------------------------ R7.11 a field that is None is a value, not a missing field
    ctx.rule("R7.11", "get_field (the read behind field_equals / field_contains / field_regex) returns getattr(record, name, SENTINEL) as it is: the helpers skip a field only "
                      "when it IS the sentinel, so turning a present-but-None value into the sentinel makes `field_equals(r, ['f'], [None])` false where Python gives true")
    from ..core import expand_aliases, single_assign_aliases  # noqa: F811
    gf11 = ctx.anchor_func("flow.record.selector.get_field")
    rets11 = [r for r in walk_no_nested(gf11) if isinstance(r, ast.Return) and r.value is not None]
    ctx.floor("R7.11", "returns of get_field", len(rets11), 1)
    al11 = single_assign_aliases(gf11)
    for rt in rets11:
        v = expand_aliases(rt.value, al11)
        okv = isinstance(v, ast.Call) and call_name(v) == "getattr" and len(v.args) == 3 and norm(v.args[0]) == func_params(gf11)[0]
        ctx.check(okv, "R7.11", f"get_field:return {norm(rt.value)[:40]}", f"`return {norm(v)[:70]}` is not the plain three-argument getattr on the record: a stored value can be replaced on the way out", rt,
                  "return getattr(r, field, NONE_OBJECT)", key="R7.11:get_field:value-replaced")


    # ------------------------------------------------------------------ R7.12 needle and haystack are case-folded in step
    ctx.rule("R7.12", "field_equals / field_contains: under nocase the field value is lowered, so every needle it is compared with or searched for derives from the "
                      "collection that is lowered under the same flag - never from the caller's raw `strings` on a side path (a pre-built pattern list, a cached copy)")
    n12 = 0
    from .. import logic as _lg12
    from ..cfg import stored_paths as _stored12
    for hq in ("flow.record.selector.field_equals", "flow.record.selector.field_contains"):
        hf = ctx.anchor_func(hq)
        params12 = func_params(hf)
        if len(params12) < 4:
            raise AnalysisError(f"R7.12: {hq} does not have (r, fields, strings, nocase, ..)")
        raw, flag = params12[2], params12[3]
        cfg12 = CFG(hf)
        val12 = lambda a_, flag=flag: True if a_ == flag else None  # noqa: E731
        live12 = _lg12.reachable_assuming(cfg12, cfg12.entry, val12)
        rd12: dict = {}

        def rdefs(name, cfg12=cfg12, rd12=rd12):
            if name not in rd12:
                rd12[name] = cfg12.reaching_defs(name)
            return rd12[name]

        def lowered(e):
            return any(isinstance(c, ast.Call) and (call_name(c) in ("lower", "str.lower") or (isinstance(c.func, ast.Attribute) and c.func.attr in ("lower", "casefold"))) for c in ast.walk(e))

        def branches(e, flag=flag):
            """Sub-expressions of e that are evaluated when the flag is on (conditional expressions on the flag take one arm)."""
            if isinstance(e, ast.IfExp):
                v = _lg12.evaluate3(_lg12.formula(e.test), {flag: True})
                if v is True:
                    return branches(e.body)
                if v is False:
                    return branches(e.orelse)
            return [e]

        def sources(node):
            a_ = node.ast
            if isinstance(a_, (ast.For, ast.AsyncFor)):
                return [a_.iter]
            if isinstance(a_, ast.Assign):
                return [a_.value]
            if isinstance(a_, ast.AugAssign):
                return [a_.value, a_.target]
            if isinstance(a_, ast.AnnAssign) and a_.value is not None:
                return [a_.value]
            return [x.value for x in ast.walk(a_) if isinstance(x, ast.NamedExpr)] if a_ is not None else []

        builders = [(cfg12.node_of(c), c) for c in calls_in(hf) if isinstance(c.func, ast.Attribute) and c.func.attr in ("append", "extend", "add", "insert", "update") and isinstance(c.func.value, ast.Name)]

        def raw_at(expr, nid, seen, cfg12=cfg12, live12=live12, val12=val12, raw=raw, builders=builders):
            for e in branches(expr):
                if lowered(e):
                    continue
                inner = {y.id for c in ast.walk(e) if isinstance(c, ast.comprehension) for y in ast.walk(c.target) if isinstance(y, ast.Name)}
                for x in ast.walk(e):
                    if not isinstance(x, ast.Name) or not isinstance(x.ctx, ast.Load) or x.id in inner or (x.id, nid) in seen:
                        continue
                    seen.add((x.id, nid))
                    for d in rdefs(x.id).get(nid, ()):
                        if d not in live12:
                            continue
                        reach = _lg12.reachable_assuming(cfg12, d, val12, avoid=lambda n_, d=d, name=x.id: n_.id not in (d, nid) and name in _stored12(n_))
                        if nid not in reach:
                            continue
                        if d == cfg12.entry:
                            if x.id == raw:
                                return x
                            continue
                        for src in sources(cfg12.nodes[d]):
                            r0 = raw_at(src, d, seen)
                            if r0 is not None:
                                return r0
                    for bn, bc in builders:
                        if bc.func.value.id == x.id and bn is not None and bn.id in live12:
                            for arg in bc.args:
                                r0 = raw_at(arg, bn.id, seen)
                                if r0 is not None:
                                    return r0
            return None

        hays = set()
        for n in ast.walk(hf):
            if isinstance(n, ast.Assign) and any(isinstance(c, ast.Call) and call_name(c) == "get_field" for c in ast.walk(n.value)):
                hays |= {x.id for t in n.targets for x in ast.walk(t) if isinstance(x, ast.Name)}
        if not hays:
            raise AnalysisError(f"R7.12: {hq}: the variable holding get_field(...) not found")
        grew = True
        while grew:
            grew = False
            for n in ast.walk(hf):
                if isinstance(n, ast.Assign) and any(isinstance(x, ast.Name) and x.id in hays for x in ast.walk(n.value)):
                    for t in n.targets:
                        if isinstance(t, ast.Name) and t.id not in hays:
                            hays.add(t.id)
                            grew = True
        for n in ast.walk(hf):
            needles = []
            if isinstance(n, ast.Compare) and any(isinstance(x, ast.Name) and x.id in hays for x in ast.walk(n)):
                needles = [o for o in [n.left] + n.comparators if not any(isinstance(x, ast.Name) and x.id in hays for x in ast.walk(o))]
            elif isinstance(n, ast.Call) and isinstance(n.func, ast.Attribute) and n.func.attr in ("search", "match", "fullmatch", "findall", "finditer") \
                    and any(isinstance(x, ast.Name) and x.id in hays for a in n.args for x in ast.walk(a)):
                needles = [a for a in n.args if not any(isinstance(x, ast.Name) and x.id in hays for x in ast.walk(a))] + ([n.func.value] if norm(n.func.value) != "re" else [])
            elif isinstance(n, ast.Call) and isinstance(n.func, ast.Name) and n.func.id not in ("lower", "upper", "get_field", "isinstance", "str", "len", "type") \
                    and isinstance(getattr(prog.resolve_expr(sel, n.func), "node", None), ast.FunctionDef) \
                    and any(isinstance(x, ast.Name) and x.id in hays for a in list(n.args) + [k.value for k in n.keywords] for x in ast.walk(a)):
                # the comparison moved into a helper of the module: what the helper is given besides the field value is what it can compare with
                needles = [a for a in list(n.args) + [k.value for k in n.keywords] if not any(isinstance(x, ast.Name) and x.id in hays for x in ast.walk(a))]
            site = cfg12.node_of(n) if needles else None
            for nd in needles:
                if isinstance(nd, ast.Constant) or norm(nd) in ("NONE_OBJECT", "string_types") or site is None or site.id not in live12:
                    continue
                n12 += 1
                bad12 = raw_at(nd, site.id, set())
                ctx.check(bad12 is None, "R7.12", f"{hf.name}:needle:{norm(nd)[:40]}", f"`{norm(n)[:70]}` tests the field value (lowered when {flag} is on) against `{norm(nd)[:40]}`, which on a path "
                          f"with {flag} on derives from the caller's `{raw}` without having been lowered: a needle with an upper-case letter never matches", n,
                          f"needles lowered whenever {flag} is on", key=f"R7.12:{hf.name}:needle-not-folded")
    ctx.floor("R7.12", "needle/haystack tests in field_equals and field_contains", n12, 3)

    # ------------------------------------------------------------------ sibling rules: no state carried from one record to the next
    ctx.import_rule("C10", "R10.2", "R7.13", "the Python meaning of an expression is a function of the record: the interpreted matcher starts every record with fresh data")
    ctx.import_rule("C10", "R10.3", "R7.14", "the Python meaning of an expression is a function of the record: the compiled matcher keeps no per-record attribute between calls")



def is_special_name(name: str) -> bool:
    import operator as _op

    base = set(dir(object)) | set(dir(int)) | set(dir(list)) | set(dir(dict)) | {
        "__getattr__", "__iter__", "__next__", "__call__", "__enter__", "__exit__", "__len__", "__contains__", "__bool__",
        "__slots__", "__del__", "__missing__", "__set_name__", "__get__", "__set__", "__delete__", "__await__", "__aiter__",
        "__anext__", "__index__", "__fspath__", "__bytes__", "__complex__", "__length_hint__", "__instancecheck__",
        "__subclasscheck__", "__class_getitem__", "__post_init__", "__init_subclass__", "__prepare__", "__matmul__",
        "__rmatmul__", "__imatmul__", "__copy__", "__deepcopy__", "__getstate__", "__setstate__", "__reduce__"}
    return name in base


def container_kind(e):
    if isinstance(e, ast.Call):
        cn = call_name(e)
        if cn in ("list", "tuple", "set", "frozenset"):
            return cn
    if isinstance(e, (ast.List, ast.ListComp)):
        return "list"
    if isinstance(e, ast.Tuple):
        return "tuple"
    return None


def local_defs(st: ast.If) -> dict:
    env = {}
    for s0 in st.body:
        for n in ast.walk(s0):
            if isinstance(n, ast.Assign) and len(n.targets) == 1 and isinstance(n.targets[0], ast.Name):
                env[n.targets[0].id] = n.value
    return env


def origin(env, e, p_node):
    """Which field of the node does expression e evaluate? eval(node.F) directly or through a local."""
    if isinstance(e, ast.Name) and e.id in env:
        e = env[e.id]
    if isinstance(e, ast.Call) and norm(e.func) in ("self.eval", "self._eval") and len(e.args) == 1:
        a = e.args[0]
        if isinstance(a, ast.Attribute) and norm(a.value) == p_node:
            return a.attr
    return norm(e)


def check_membership_entry(prog, module, v, negated: bool):
    """The In / NotIn comparator must compute `left in right` (resp. its negation) for ordinary operands."""
    if isinstance(v, Ref):
        return False, f"mapped to {v.name}: operator.contains takes (container, item), the comparator is called as (left, right)"
    if isinstance(v, DefRef) and isinstance(v.node, ast.FunctionDef):
        params = func_params(v.node)
        rets = [n for n in walk_no_nested(v.node) if isinstance(n, ast.Return)]
        if not rets:
            return False, "no return"
        body = rets[-1].value
        mod = v.node._module
    elif isinstance(v, LambdaRef):
        params = [a.arg for a in v.node.args.args]
        body = v.node.body
        mod = v.module
    else:
        return False, f"entry {v!r} is not a function"
    if len(params) != 2:
        return False, "does not take (left, right)"
    # peel the sentinel short-circuit: `False if <isinstance tests> else <ordinary>`
    while isinstance(body, ast.IfExp):
        body = body.orelse
    neg = False
    while True:
        if isinstance(body, ast.UnaryOp) and isinstance(body.op, ast.Not):
            neg = not neg
            body = body.operand
        elif isinstance(body, ast.Compare) and len(body.ops) == 1 and isinstance(body.comparators[0], ast.Constant) \
                and isinstance(body.comparators[0].value, bool) and isinstance(body.ops[0], (ast.Is, ast.Eq, ast.IsNot, ast.NotEq)):
            want_true = body.comparators[0].value
            same = isinstance(body.ops[0], (ast.Is, ast.Eq))
            if want_true != same:
                neg = not neg
            body = body.left
        else:
            break
    if isinstance(body, ast.Compare) and len(body.ops) == 1 and isinstance(body.ops[0], (ast.In, ast.NotIn)):
        item, cont = norm(body.left), norm(body.comparators[0])
        if isinstance(body.ops[0], ast.NotIn):
            neg = not neg
    elif isinstance(body, ast.Call) and len(body.args) == 2:
        r = prog.resolve_expr(mod, body.func)
        if not (isinstance(r, Ref) and r.name == "operator.contains"):
            return False, f"calls {norm(body.func)}, not operator.contains"
        cont, item = norm(body.args[0]), norm(body.args[1])
    else:
        return False, f"body {norm(body)} is not a membership test"
    if not (item == params[0] and cont == params[1]):
        return False, f"tests `{item} in {cont}`; the comparator is called as ({params[0]}=left, {params[1]}=right) so it must test `{params[0]} in {params[1]}`"
    if neg != negated:
        return False, ("computes `in` where `not in` is meant" if negated else "computes `not in` where `in` is meant")
    return True, f"computes `{params[0]} {'not in' if negated else 'in'} {params[1]}`"
