"""C18 - SQLite export keeps every record, independent of batch size."""
from __future__ import annotations

import ast
import re

from ..cfg import CFG
from ..core import ordkey
from .. import logic
from ..core import (AnalysisError, DefRef, NotConst, Ref, call_name, calls_in, dotted, enclosing_conditions, expand_aliases, func_params, get_kw, norm,
                    qualname_of, single_assign_aliases, walk_no_nested)

PROPERTY = "C18"
EXPLANATION = (
    "Decides: (R18.1) in every SQL text handed to execute(), each interpolated identifier is enclosed in double quotes, "
    "interpolated SQL types come from the constant type table, and values are never interpolated (they are bound through ? "
    "placeholders whose number derives from the column tuple); (R18.2) the batch size is read only by the commit-cadence "
    "test (writer) and fetchmany (reader) - it cannot influence SQL text, values or table choice; (R18.3) transaction "
    "typestate: explicit transactions (isolation_level=None), tx_cycle is the only place issuing COMMIT/BEGIN and always ends "
    "with BEGIN, the constructor starts the first transaction, close() commits through flush() before closing and clears the "
    "connection; (R18.4) for an unseen descriptor create-table, add-missing-columns and flush precede the insert, and 'seen' "
    "is keyed by the whole descriptor; (R18.5) type tables: every SQL type the writer can emit, at BOTH emission sites, has "
    "the SQLite column AFFINITY (computed with SQLite's rules) that stores the Python form unchanged - TEXT for the text "
    "fallback - and maps back in the reader to a compatible flow type; timestamps are stored as isoformat(); (R18.6) the "
    "reader enumerates every table (no predicate that can exclude user tables). NOT decided: row counts, value fidelity, "
    "sqlite3's transaction behaviour, DuckDB."
    " Also decided (rules added after the fifth blind round): (R18.7) memoised functions of the SQL adapters do not read the database."
    " Rules added after the sixth blind round: (R18.8 = R15.6 of C15) the 'seen before' set rests on descriptor equality by definition; (R18.9) normalize_fieldname leaves Python keywords alone."
)
RULE_SUMMARY = "instances: SQL execute sites with their slots, reads of batch_size, transaction statements, emitted SQL types with computed affinity"


def sqlite_affinity(decl: str) -> str:
    d = decl.upper()
    if "INT" in d:
        return "INTEGER"
    if "CHAR" in d or "CLOB" in d or "TEXT" in d:
        return "TEXT"
    if "BLOB" in d or d.strip() == "":
        return "BLOB"
    if "REAL" in d or "FLOA" in d or "DOUB" in d:
        return "REAL"
    return "NUMERIC"


# which affinities store the Python value that db_insert_record produces for a flow type without changing it
OK_AFFINITY = {
    "int": {"INTEGER", "NUMERIC"}, "uint16": {"INTEGER", "NUMERIC"}, "uint32": {"INTEGER", "NUMERIC"}, "varint": {"INTEGER", "NUMERIC"},
    "filesize": {"INTEGER", "NUMERIC"}, "boolean": {"INTEGER", "NUMERIC"}, "float": {"REAL", "NUMERIC"}, "bytes": {"BLOB"},
    "datetime": {"TEXT", "NUMERIC", "BLOB"},  # ISO text is not numeric-looking, NUMERIC leaves it alone
}
READER_COMPAT = {"INTEGER": {"varint"}, "BIGINT": {"varint"}, "REAL": {"float"}, "BLOB": {"bytes"}, "TIMESTAMPTZ": {"datetime"}, "TEXT": {"string"}}


def sql_parts(prog, module, e, la, fn):
    """Flatten an SQL expression into [('const', text) | ('slot', source text) | ('typeslot', source text)] using the symbolic text
    structure (f-strings, str.format, concatenation, joins over comprehensions / appended lists, locals); helper functions of the
    package that build the text are entered."""
    from ..strsym import text_structure

    def flat(parts, holder, hmod, depth=0):
        out = []
        for p in parts:
            if p[0] == "lit":
                out.append(("const", p[1]))
            elif p[0] == "repeat":
                out += flat(p[3], holder, hmod, depth)
            elif p[0] == "alt":
                alts = [flat(a, holder, hmod, depth) for a in p[1]]
                if alts and all(a == alts[0] for a in alts):
                    out += alts[0]
                else:
                    out.append(("slot", "alt(" + " | ".join("".join(t for _, t in a) for a in alts) + ")"))
            else:
                txt = p[1]
                if txt.startswith("FIELD_MAP.get(") or txt.startswith("FIELD_MAP["):
                    out.append(("typeslot", txt))
                    continue
                # `['?'] * n` joined: a run of placeholders
                try:
                    node = ast.parse(txt, mode="eval").body
                except SyntaxError:
                    node = None
                if isinstance(node, ast.Call) and isinstance(node.func, ast.Attribute) and node.func.attr == "join" and node.args:
                    j0 = node.args[0]
                    if isinstance(j0, ast.BinOp) and isinstance(j0.op, ast.Mult) and isinstance(j0.left, ast.List) and all(isinstance(x, ast.Constant) and x.value == "?" for x in j0.left.elts):
                        out.append(("const", "?"))
                        continue
                if isinstance(node, ast.Call) and depth < 3:
                    r = prog.resolve_expr(hmod, node.func)
                    if isinstance(r, DefRef) and isinstance(r.node, ast.FunctionDef):
                        rets = [x for x in walk_no_nested(r.node) if isinstance(x, ast.Return) and x.value is not None]
                        if len(rets) == 1:
                            out += flat(text_structure(r.node, rets[0].value, fold=lambda x, m_=r.node._module: prog.fold(m_, x)), r.node, r.node._module, depth + 1)
                            continue
                out.append(("slot", txt))
        return out

    merged = []
    for k, t in flat(text_structure(fn, e, fold=lambda x: prog.fold(module, x)), fn, module):
        if merged and merged[-1][0] == "const" and k == "const":
            merged[-1] = ("const", merged[-1][1] + t)
        else:
            merged.append((k, t))
    return merged


def run(ctx):
    prog = ctx.prog
    sq = prog.module("flow.record.adapter.sqlite")
    ctx.use(sq)
    ctx.trust("SQLite's documented column-affinity rules; names that pass flow.record's validation cannot contain a double quote (C06)")

    # ------------------------------------------------------------------ R18.1
    ctx.rule("R18.1", "every execute(): identifier slots are enclosed in double quotes; type slots come from the constant type table; values go through ? placeholders")
    n_exec = 0
    for fn in [f for f in ast.walk(sq.tree) if isinstance(f, ast.FunctionDef)]:
        la = {norm(st.targets[0]): st.value for st in walk_no_nested(fn) if isinstance(st, ast.Assign) and isinstance(st.targets[0], ast.Name)}
        for c in calls_in(fn):
            if not (isinstance(c.func, ast.Attribute) and c.func.attr in ("execute", "executemany", "executescript") and c.args):
                continue
            n_exec += 1
            arg = c.args[0]
            # loops: `for col_def in column_defs: con.execute(col_def)` -> the appended f-strings
            sources = [arg]
            if isinstance(arg, ast.Name) and arg.id not in la:
                loop = getattr(c, "_parent", None)
                while loop is not None and not isinstance(loop, ast.For):
                    loop = getattr(loop, "_parent", None)
                if loop is not None and norm(loop.target) == arg.id:
                    lst = norm(loop.iter)
                    it = la.get(lst) if isinstance(loop.iter, ast.Name) else loop.iter
                    if isinstance(it, (ast.ListComp, ast.GeneratorExp, ast.SetComp)):
                        sources = [it.elt]
                    elif isinstance(it, (ast.List, ast.Tuple)) and it.elts:
                        sources = list(it.elts)
                    else:
                        sources = [a.args[0] for a in calls_in(fn) if isinstance(a.func, ast.Attribute) and a.func.attr == "append" and norm(a.func.value) == lst and a.args]
                    if not sources:
                        raise AnalysisError(f"R18.1: cannot find what `{lst}` holds in {fn.name}")
            for src in sources:
                parts = sql_parts(prog, sq, src, la, fn)
                text = "".join(t if k == "const" else "\x00" for k, t in parts)
                construct = f"{fn.name}:execute:{text.replace(chr(0), '{}').strip()[:50]}"
                bad = []
                for i, (kind, v) in enumerate(parts):
                    if kind != "slot":
                        continue  # constants, and SQL types taken from the constant type table
                    prev = parts[i - 1][1] if i > 0 and parts[i - 1][0] == "const" else ""
                    nxt = parts[i + 1][1] if i + 1 < len(parts) and parts[i + 1][0] == "const" else ""
                    quoted = prev.endswith('"') and nxt.startswith('"')
                    vt = v if isinstance(v, str) else norm(v)
                    if quoted:
                        continue
                    bad.append(vt)
                ctx.check(not bad, "R18.1", construct, f"{bad} is interpolated into the SQL text without double quotes: a type or field name (or a value) becomes SQL syntax", c,
                          "identifier slots quoted, type slots from the type table", key=f"R18.1:{fn.name}:unquoted-slot:{','.join(bad)[:40]}")
    ctx.floor("R18.1", "execute() sites in the SQLite adapter", n_exec, 8)
    ins = ctx.anchor_func("flow.record.adapter.sqlite.db_insert_record")
    ex = [c for c in calls_in(ins) if isinstance(c.func, ast.Attribute) and c.func.attr == "execute"]
    ctx.check(len(ex) == 1 and len(ex[0].args) == 2, "R18.1", "db_insert_record:values-bound", "values are not passed as bound parameters", ins, "con.execute(sql, values)")
    pis = ctx.anchor_func("flow.record.adapter.sqlite.prepare_insert_sql")
    fparam = func_params(pis)[1] if len(func_params(pis)) > 1 else "field_names"
    # wherever the "?" placeholder is produced (a statement of its own or inside the final expression), it is repeated once per column:
    # ["?"] * len(columns), "?" * len(columns), or one "?" per element of a comprehension over the columns
    ok = False
    for q in [n for n in ast.walk(pis) if isinstance(n, ast.Constant) and n.value == "?"]:
        up = getattr(q, "_parent", None)
        while up is not None and not isinstance(up, (ast.BinOp, ast.ListComp, ast.GeneratorExp, ast.stmt)):
            up = getattr(up, "_parent", None)
        if isinstance(up, ast.BinOp) and isinstance(up.op, ast.Mult) and f"len({fparam})" in (norm(up.left), norm(up.right)):
            ok = True
        if isinstance(up, (ast.ListComp, ast.GeneratorExp)) and len(up.generators) == 1 and norm(up.generators[0].iter) == fparam and not up.generators[0].ifs and up.elt is q:
            ok = True
    ctx.check(ok, "R18.1", "prepare_insert_sql:placeholders", "the number of ? placeholders does not derive from the column tuple", pis, "one '?' per element of the column tuple")
    # the statement executed for a record is prepared from THAT record's table name and slots (not handed in, not remembered per table name)
    icfg8 = CFG(ins)
    recp = func_params(ins)[1] if len(func_params(ins)) > 1 else "record"
    if ex and ex[0].args:
        sarg = ex[0].args[0]
        srcs = [sarg]
        if isinstance(sarg, ast.Name):
            rd8 = icfg8.reaching_defs(sarg.id).get(icfg8.node_of(ex[0]).id, set())
            srcs = [icfg8.nodes[i].ast.value if isinstance(icfg8.nodes[i].ast, ast.Assign) else None for i in rd8]
        good8 = bool(srcs) and all(isinstance(v, ast.Call) and norm(v.func) == "prepare_insert_sql" and len(v.args) == 2 and recp in {x.id for x in ast.walk(v.args[0]) if isinstance(x, ast.Name)}
                                   and recp in {x.id for x in ast.walk(v.args[1]) if isinstance(x, ast.Name)} for v in srcs)
        ctx.check(good8, "R18.1", "db_insert_record:statement-of-this-record", "the INSERT statement is not (only) prepare_insert_sql(<this record's table>, <this record's slots>): a statement "
                  "prepared for another version of the type (same table name, other fields) binds values to the wrong columns or fails", ex[0],
                  "sql = prepare_insert_sql(record._desc.name, record.__slots__)", key="R18.1:db_insert_record:statement-provenance")
    ial = single_assign_aliases(ins)
    rec = func_params(ins)[1] if len(func_params(ins)) > 1 else "record"
    pcall = next((c for c in calls_in(ins) if norm(c.func) == "prepare_insert_sql"), None)
    cols_ok = pcall is not None and len(pcall.args) == 2 and norm(expand_aliases(pcall.args[1], ial)) == f"{rec}.__slots__"
    vals_ok = any(isinstance(c.func, ast.Attribute) and c.func.attr == "values" and norm(expand_aliases(c.func.value, ial)) == f"{rec}._asdict()" for c in calls_in(ins))
    ctx.check(cols_ok and vals_ok, "R18.1", "db_insert_record:column-value-order",
              "columns (record.__slots__) and values (record._asdict().values()) do not come from the same slot order", ins, "both in __slots__ order")

    # ------------------------------------------------------------------ R18.2
    ctx.rule("R18.2", "self.batch_size is read only in `count % batch_size == 0 -> flush()` (writer) and fetchmany(batch_size) (reader)")
    reads = []
    for fn in [f for f in ast.walk(sq.tree) if isinstance(f, ast.FunctionDef)]:
        for n in ast.walk(fn):
            if isinstance(n, ast.Attribute) and n.attr == "batch_size" and isinstance(n.ctx, ast.Load):
                reads.append((fn, n))
    ctx.floor("R18.2", "reads of batch_size", len(reads), 2)
    for fn, n in reads:
        par = getattr(n, "_parent", None)
        ok = False
        if isinstance(par, ast.BinOp) and isinstance(par.op, ast.Mod):
            test = getattr(par, "_parent", None)
            st = getattr(test, "_parent", None)
            # `count % batch_size == 0` and `not count % batch_size` are the same cadence test
            cadence = (isinstance(test, ast.Compare) and len(test.ops) == 1 and isinstance(test.ops[0], ast.Eq) and isinstance(test.comparators[0], ast.Constant)
                       and test.comparators[0].value == 0 and test.left is par) or (isinstance(test, ast.UnaryOp) and isinstance(test.op, ast.Not))
            ok = cadence and isinstance(st, ast.If) and st.test is test and [norm(x) for x in st.body] == ["self.flush()"] and not st.orelse and norm(par.left) == "self.count"
        elif isinstance(par, ast.Call) and isinstance(par.func, ast.Attribute) and par.func.attr == "fetchmany":
            ok = True
        ctx.check(ok, "R18.2", f"{qualname_of(fn).replace('flow.record.adapter.sqlite.', '')}:batch_size@{norm(par)[:40]}",
                  f"batch_size is used in `{norm(par)[:60]}`: the stored content may depend on it", n, "commit cadence / fetch size only", key=f"R18.2:{fn.name}:batch_size-use")

    # ------------------------------------------------------------------ R18.3
    ctx.rule("R18.3", "isolation_level=None; tx_cycle is the only COMMIT/BEGIN site and ends with BEGIN; __init__ starts a transaction; close(): flush (commit) before con.close(), then con=None")
    wi = ctx.anchor_func("flow.record.adapter.sqlite.SqliteWriter.__init__")
    conn = [c for c in calls_in(wi) if call_name(c) == "sqlite3.connect"]
    il = get_kw(conn[0], "isolation_level") if conn else None
    ctx.check(il is not None and isinstance(il, ast.Constant) and il.value is None, "R18.3", "SqliteWriter.__init__:isolation_level",
              "the connection is not opened with isolation_level=None: sqlite3 then manages transactions implicitly and the explicit BEGIN/COMMIT cycle no longer delimits batches",
              wi, "isolation_level=None", key="R18.3:isolation_level")
    ctx.check(any(norm(c.func) == "self.tx_cycle" for c in calls_in(wi)), "R18.3", "SqliteWriter.__init__:begins", "no transaction is started on construction", wi, "self.tx_cycle() in __init__")
    tx_sites = []
    for fn in [f for f in ast.walk(sq.tree) if isinstance(f, ast.FunctionDef)]:
        for c in calls_in(fn):
            if isinstance(c.func, ast.Attribute) and c.func.attr == "execute" and c.args and isinstance(c.args[0], ast.Constant) and isinstance(c.args[0].value, str) \
                    and c.args[0].value.strip().upper().split()[0] in ("COMMIT", "BEGIN", "ROLLBACK", "END", "SAVEPOINT", "RELEASE"):
                tx_sites.append((fn, c, c.args[0].value.strip().upper().split()[0]))
            if isinstance(c.func, ast.Attribute) and c.func.attr in ("commit", "rollback") and "con" in norm(c.func.value):
                tx_sites.append((fn, c, c.func.attr.upper()))
    ctx.check({fn.name for fn, _, _ in tx_sites} == {"tx_cycle"}, "R18.3", "transaction-statements:single-site", f"transaction control is issued in {sorted({fn.name for fn, _, _ in tx_sites})}",
              None, "only tx_cycle issues COMMIT/BEGIN", key="R18.3:transaction-sites")
    tx = ctx.anchor_func("flow.record.adapter.sqlite.SqliteWriter.tx_cycle")
    last = tx.body[-1]
    ends_begin = isinstance(last, ast.Expr) and isinstance(last.value, ast.Call) and last.value.args and isinstance(last.value.args[0], ast.Constant) and \
        str(last.value.args[0].value).strip().upper() == "BEGIN"
    commits = [c for fn, c, k in tx_sites if k == "COMMIT"]
    commit_ok = bool(commits) and enclosing_conditions(commits[0], tx) in ([("self.con.in_transaction", True)], [])
    ctx.check(ends_begin and commit_ok and not [n for n in ast.walk(tx) if isinstance(n, ast.Return)], "R18.3", "tx_cycle:commit-then-begin",
              "tx_cycle does not commit the open transaction and then unconditionally BEGIN a new one", tx, "COMMIT (if in a transaction); BEGIN", key="R18.3:tx_cycle:shape")
    fl = ctx.anchor_func("flow.record.adapter.sqlite.SqliteWriter.flush")
    ctx.check([norm(c.func) for c in calls_in(fl)] == ["self.tx_cycle"], "R18.3", "SqliteWriter.flush", "flush() is not a transaction cycle", fl, "flush -> tx_cycle")
    cl = ctx.anchor_func("flow.record.adapter.sqlite.SqliteWriter.close")
    ccfg = CFG(cl)
    fcall = next((c for c in calls_in(cl) if norm(c.func) in ("self.flush", "self.tx_cycle")), None)
    ccall = next((c for c in calls_in(cl) if norm(c.func) == "self.con.close"), None)
    ok = fcall is not None and ccall is not None and ordkey(fcall) < ordkey(ccall) and enclosing_conditions(fcall, cl) == enclosing_conditions(ccall, cl) == [("self.con", True)]
    cleared = any(isinstance(st, ast.Assign) and norm(st.targets[0]) == "self.con" and isinstance(st.value, ast.Constant) and st.value.value is None for st in walk_no_nested(cl))
    ctx.check(ok and cleared, "R18.3", "SqliteWriter.close:commit-before-close", "close() does not commit (flush) before closing the connection, or does not clear it: the last batch is rolled back",
              cl, "if self.con: flush(); con.close(); self.con = None", key="R18.3:close:commit-before-close")

    # ------------------------------------------------------------------ R18.4
    ctx.rule("R18.4", "write(): for a descriptor not seen before: create table, add missing columns, flush - all before the insert; 'seen' is keyed by the descriptor itself")
    wr = ctx.anchor_func("flow.record.adapter.sqlite.SqliteWriter.write")
    wcfg = CFG(wr)
    wal = single_assign_aliases(wr)
    rparam = func_params(wr)[1] if len(func_params(wr)) > 1 else "r"
    # `record = r` style re-bindings of the parameter are aliases too
    adds = [c for c in calls_in(wr) if isinstance(c.func, ast.Attribute) and c.func.attr == "add" and "descriptors_seen" in norm(c.func.value) and c.args]
    if len(adds) != 1:
        raise AnalysisError(f"R18.4: expected one descriptors_seen.add() in write(), found {len(adds)}")
    add = adds[0]
    seen_set = norm(add.func.value)
    key_e = expand_aliases(add.args[0], wal)
    addn = wcfg.node_of(add)
    prem = [(expand_aliases(e0, wal), p0) for e0, p0 in logic.facts_as_premises(wcfg.facts_at(addn.id))]
    goal = ast.Compare(left=key_e, ops=[ast.NotIn()], comparators=[ast.parse(seen_set, mode="eval").body])
    guarded = logic.implies(prem, goal)
    ctx.check(guarded and norm(key_e) == f"{rparam}._desc", "R18.4", "write:seen-key",
              f"'seen' is keyed by `{norm(key_e)}`{'' if guarded else ' and the new-type handling is not guarded by `key not in seen`'}: a type of the same name with more fields would not trigger ALTER TABLE",
              add, "keyed by record._desc (name and fields), handled when not yet seen", key="R18.4:write:seen-key")
    want = ["create_descriptor_table", "update_descriptor_columns", "self.flush"]
    seq = [add]
    missing = []
    for w in want:
        c = next((c for c in calls_in(wr) if norm(c.func) == w), None)
        if c is None:
            missing.append(w)
        else:
            seq.append(c)
    order_ok = not missing
    if order_ok:
        ids = [wcfg.node_of(c).id for c in seq]
        for a, b in zip(ids, ids[1:]):
            # same control region, in order
            if not (a != b and wcfg.dominates(a, b) and wcfg.postdominates(b, a, normal_only=True)):
                order_ok = False
        # the DDL gets the descriptor that was tested
        for c in seq[1:3]:
            if not (len(c.args) >= 2 and norm(expand_aliases(c.args[1], wal)) == norm(key_e)):
                order_ok = False
    order = [norm(c.func) for c in sorted(seq, key=ordkey)]
    ctx.check(order_ok, "R18.4", "write:new-type-sequence", f"new-type handling is {order}{' (missing: ' + str(missing) + ')' if missing else ''}", add,
              " -> ".join(["self.descriptors_seen.add"] + want), key="R18.4:write:new-type-sequence")
    guard = add
    # update_descriptor_columns compares NAMES: it may stop early only when no column is missing - never on counts or other shortcuts
    udc = ctx.anchor_func("flow.record.adapter.sqlite.update_descriptor_columns")
    ucfg8 = CFG(udc)
    ual8 = single_assign_aliases(udc)
    floops = [n for n in ast.walk(udc) if isinstance(n, (ast.For, ast.comprehension)) and "get_all_fields" in norm(expand_aliases(n.iter, ual8))]
    ctx.floor("R18.4", "loops over the descriptor's fields in update_descriptor_columns", len(floops), 1)
    first_loop = min((ucfg8.node_of(n if isinstance(n, ast.For) else n._parent) for n in floops), key=lambda nd: nd.id, default=None)
    if first_loop is not None:
        early = [nd for nd in ucfg8.stmt_nodes() if isinstance(nd.ast, ast.Return) and not ucfg8.dominates(first_loop.id, nd.id) and nd.id in ucfg8.reachable(ucfg8.entry)]
        ctx.check(not early, "R18.4", "update_descriptor_columns:compares-names", f"update_descriptor_columns can return before it has looked at the field names "
                  f"(`{norm(early[0].ast) if early else ''}` under {[t for t, p0 in enclosing_conditions(early[0].ast, udc)] if early else ''}): a descriptor whose fields were renamed or replaced "
                  "without growing gets no new columns and its records fail to insert", early[0].ast if early else udc, "every field name is compared with the existing columns",
                  key="R18.4:update_descriptor_columns:early-return")
    icall = next((c for c in calls_in(wr) if norm(c.func) == "db_insert_record"), None)
    ctx.check(icall is not None and enclosing_conditions(icall, wr) == [] and (not order_ok or wcfg.node_of(icall).id in wcfg.reachable(wcfg.node_of(seq[-1]).id)), "R18.4", "write:insert-after-ddl",
              "the insert is not unconditionally preceded by the new-type handling", wr, "insert after the (conditional) DDL, unconditional")
    cnt = [st for st in walk_no_nested(wr) if isinstance(st, ast.AugAssign) and norm(st.target) == "self.count"]
    ctx.check(len(cnt) == 1 and norm(cnt[0].value) == "1" and enclosing_conditions(cnt[0], wr) == [], "R18.4", "write:count", "the record counter is not incremented once per record", wr, "count += 1")

    # ------------------------------------------------------------------ R18.5
    ctx.rule("R18.5", "both emission sites use FIELD_MAP with the same default; every emitted SQL type has an affinity that stores the Python form unchanged; the reader maps it back to a compatible type")
    fm = prog.fold(sq, ast.parse("FIELD_MAP").body[0].value)
    rm = prog.fold(sq, ast.parse("SQLITE_FIELD_MAP").body[0].value)
    sites = []
    for fn in (ctx.anchor_func("flow.record.adapter.sqlite.create_descriptor_table"), ctx.anchor_func("flow.record.adapter.sqlite.update_descriptor_columns")):
        gets = [c for c in calls_in(fn) if norm(c.func) == "FIELD_MAP.get"]
        if len(gets) != 1 or len(gets[0].args) != 2:
            raise AnalysisError(f"R18.5: FIELD_MAP.get(<type>, <default>) not found in {fn.name}")
        sites.append((fn, gets[0], prog.fold(sq, gets[0].args[1]), norm(gets[0].args[0])))
    defaults = {d for _, _, d, _ in sites}
    ctx.check(len(defaults) == 1 and all(k.endswith(".typename") for _, _, _, k in sites), "R18.5", "type-emission:sibling-agreement",
              f"the two places that declare columns use different fallbacks {sorted(defaults)}: a column added later gets another declared type than one created with the table", sites[0][1],
              f"both use FIELD_MAP.get(typename, {sorted(defaults)[0]!r})", key="R18.5:type-emission:defaults-differ")
    for fn, g, d, _ in sites:
        aff = sqlite_affinity(d)
        ctx.check(aff == "TEXT", "R18.5", f"{fn.name}:fallback-affinity", f"fallback column type {d!r} has SQLite affinity {aff}: text that looks like a number ('0123', '1e3') is converted on "
                  "insert and read back changed", g, f"{d!r} has TEXT affinity", key=f"R18.5:{fn.name}:fallback-affinity:{d}")
    ctx.floor("R18.5", "entries of FIELD_MAP", len(fm), 6)
    for ft, decl in sorted(fm.items()):
        aff = sqlite_affinity(decl)
        okset = OK_AFFINITY.get(ft)
        if okset is None:
            ctx.fail("R18.5", f"FIELD_MAP[{ft}]", f"flow type {ft} has no reviewed storage form", None, key=f"R18.5:FIELD_MAP:unknown-type:{ft}")
            continue
        ctx.check(aff in okset, "R18.5", f"FIELD_MAP[{ft}]={decl}", f"{decl} has affinity {aff}, which alters the stored form of {ft} values", None, f"affinity {aff}",
                  key=f"R18.5:FIELD_MAP:{ft}:affinity:{aff}")
        back = rm.get(decl, "string")
        ctx.check(back in READER_COMPAT.get(decl, {back}) or (decl in READER_COMPAT and back in READER_COMPAT[decl]), "R18.5", f"reader:{decl}->{back}",
                  f"the reader maps {decl} to {back}", None, f"{decl} -> {back}")
        ctx.sample({"rule": "R18.5", "flow_type": ft, "declared": decl, "affinity": aff, "reader_type": back})
    rt = ctx.anchor_func("flow.record.adapter.sqlite.SqliteReader.read_table")
    g = [c for c in calls_in(rt) if norm(c.func) == "SQLITE_FIELD_MAP.get"]
    ctx.check(bool(g) and len(g[0].args) == 2 and prog.fold(sq, g[0].args[1]) == "string", "R18.5", "reader:default-type", "unknown declared types do not map to string", rt, "default 'string'")

    # ------------------------------------------------------------------ R18.6
    ctx.rule("R18.6", "table enumeration selects every table: WHERE has only type='table' (plus exact-name exclusions); a LIKE with an unescaped `_`/`%` can match user tables")
    tn = ctx.anchor_func("flow.record.adapter.sqlite.SqliteReader.table_names")
    sqls = [c.args[0].value for c in calls_in(tn) if isinstance(c.func, ast.Attribute) and c.func.attr == "execute" and c.args and isinstance(c.args[0], ast.Constant)]
    if len(sqls) != 1:
        raise AnalysisError("R18.6: table enumeration query not found")
    q = " ".join(sqls[0].split())
    m = re.search(r"\bwhere\b(.*)$", q, re.I)
    conj = [x.strip() for x in re.split(r"\band\b", m.group(1), flags=re.I)] if m else []
    bad = []
    for cj in conj:
        cl_ = cj.lower().replace(" ", "")
        if cl_ in ("type='table'", "type=\"table\""):
            continue
        if re.fullmatch(r"name(!=|<>)'[^'%_]*'", cl_) or re.fullmatch(r"namenotin\(('[^']*',?)+\)", cl_):
            continue
        if "like" in cl_:
            pat = re.search(r"like\s*'([^']*)'", cj, re.I)
            esc = re.search(r"escape\s*'(.)'", cj, re.I)
            if pat and esc:
                p = pat.group(1)
                e = esc.group(1)
                unescaped = re.sub(re.escape(e) + r".", "", p)
                if "_" not in unescaped and unescaped.count("%") <= 1 and p.lower().startswith("sqlite" + e + "_"):
                    continue
        bad.append(cj)
    ctx.check(bool(conj) and not bad, "R18.6", "SqliteReader.table_names:query", f"the table enumeration is restricted by {bad}: `_` and `%` are LIKE wildcards (and LIKE is case-insensitive), so "
              "tables of record types whose name matches are silently not read back", tn, f"WHERE {' AND '.join(conj)}", key="R18.6:table_names:extra-predicate")
    itf = ctx.anchor_func("flow.record.adapter.sqlite.SqliteReader.__iter__")
    ital = single_assign_aliases(itf)
    tloops = [n for n in ast.walk(itf) if isinstance(n, ast.For) and norm(expand_aliases(n.iter, ital)) == "self.table_names()"]

    def _loop_of(n):
        q = getattr(n, "_parent", None)
        while q is not None and not isinstance(q, (ast.For, ast.While)):
            q = getattr(q, "_parent", None)
        return q

    cut_short = [n for lp in tloops for n in ast.walk(lp) if (isinstance(n, (ast.Break, ast.Continue)) and _loop_of(n) is lp) or isinstance(n, ast.Return)
                 or (isinstance(n, ast.Break) and _loop_of(n) is not lp)]
    ctx.check(len(tloops) == 1 and not cut_short, "R18.6", "SqliteReader.__iter__:all-tables",
              "__iter__ does not visit every enumerated table", itf, "for table_name in self.table_names()")

    # ------------------------------------------------------------------ R18.7 the database's state is not memoised
    ctx.rule("R18.7", "a memoised function (functools.lru_cache / cache) of the SQL adapters does not read the database: what a table looks like changes with "
                      "every CREATE / ALTER the writer issues, and a cached answer makes the next column evolution add the wrong columns")
    n_memo = 0
    for mname in ("flow.record.adapter.sqlite", "flow.record.adapter.duckdb"):
        m = prog.modules.get(mname)
        if m is None:
            continue
        ctx.use(m)
        for fn in [n for n in ast.walk(m.tree) if isinstance(n, (ast.FunctionDef, ast.AsyncFunctionDef))]:
            decos = [norm(d.func) if isinstance(d, ast.Call) else norm(d) for d in fn.decorator_list]
            if not any(d.split(".")[-1] in ("lru_cache", "cache", "cached_property") for d in decos):
                continue
            n_memo += 1
            reads = [c for c in calls_in(fn) if isinstance(c.func, ast.Attribute) and c.func.attr in ("execute", "executemany", "executescript", "cursor", "fetchall", "fetchone", "fetchmany", "sql")]
            ctx.check(not reads, "R18.7", f"{fn.name}:memoised", f"{fn.name}() is memoised but asks the database (`{norm(reads[0])[:60] if reads else ''}`): after the table has been altered it still "
                      "answers with the columns it saw first, so a later evolution re-adds an existing column (error) and never adds the new one - the records of that layout are lost",
                      reads[0] if reads else fn, "memoised helpers are pure functions of their arguments", key=f"R18.7:{fn.name}:memoised-database-read")
    ctx.floor("R18.7", "memoised functions in the SQL adapters", n_memo, 1)

    # ------------------------------------------------------------------ R18.8 "seen before" is decided by descriptor equality
    # (write() keeps the descriptors it has created / evolved a table for in a set: equality by a lossy identifier skips the evolution of a type whose hash collides)
    from .c15 import check_descriptor_equality
    check_descriptor_equality(ctx, "R18.8")

    # ------------------------------------------------------------------ R18.9 column names that are valid field names come back unchanged
    ctx.rule("R18.9", "normalize_fieldname (applied by the reader to every column name) does not treat Python keywords specially: `from`, `class`, `pass` are valid field names, "
                      "are written as they are, and must be read back as they are")
    nf9 = ctx.anchor_func("flow.record.base.normalize_fieldname")
    kw9 = [n for n in ast.walk(nf9) if (isinstance(n, ast.Attribute) and dotted(n) and dotted(n).startswith("keyword.")) or (isinstance(n, ast.Name) and n.id in ("iskeyword", "kwlist"))]
    ctx.check(not kw9, "R18.9", "normalize_fieldname:keywords", f"normalize_fieldname consults `{norm(kw9[0]) if kw9 else ''}`: a field named like a Python keyword is renamed on the way back", kw9[0] if kw9 else nf9,
              "keywords pass unchanged", key="R18.9:normalize_fieldname:keyword-renamed")



def _is_type_slot(prog, sq, fn, v, la) -> bool:
    """An unquoted slot is acceptable when it is an SQL type taken from FIELD_MAP (or its constant default)."""
    if isinstance(v, ast.Name) and v.id in la:
        val = la[v.id]
        if isinstance(val, ast.Call) and norm(val.func) == "FIELD_MAP.get":
            return True
        if isinstance(val, ast.Subscript) and norm(val.value) == "FIELD_MAP":
            return True
    if isinstance(v, ast.Constant):
        return True
    return False
