"""C20 - Text-oriented writers render every record completely."""
from __future__ import annotations

import ast

from ..cfg import CFG
from .. import logic
from ..core import ordkey  # noqa: E402
from ..core import (expand_aliases, single_assign_aliases, AnalysisError, DefRef, NotConst, Ref, call_name, calls_in, dotted, enclosing_conditions, func_params, get_kw, norm,
                    qualname_of, walk_no_nested)

PROPERTY = "C20"
EXPLANATION = (
    "Decides: (R20.1) encoding discipline - every sink that receives record-derived text tolerates lone surrogates (which "
    "the string type produces by design): .encode() of record text passes errors='surrogateescape', a text-mode file that "
    "receives record text is opened with errors='surrogateescape' unless the producer is ASCII-only (json.dumps default, "
    "repr()); (R20.2) CSV structure - the writer delegates quoting to csv.DictWriter with default quoting, opens with "
    "newline='', writes a header whenever the record's descriptor differs from the previous record's (the comparison with the "
    "previous descriptor dominates writerow and writeheader sits in that branch), header and row come from the same "
    "_asdict(fields, exclude) call; (R20.3) line writer totality - every use of the format string is dominated by its "
    "definition on the paths where the loop body runs, one 'name = value' line per item of the same dict that sized the "
    "format, a numbered block per record; (R20.4) the text writer renders repr(rec) or format_map over ALL fields of the "
    "record with missing keys tolerated, appends one newline and writes the rendering as rendered (no later rewrite of the text); "
    "(R20.5) the CSV reader sniffs the dialect from a block read of the file, not from the header line alone. NOT decided: that a "
    "CSV parser recovers every cell, repr of every field type, what the sniffer concludes from its sample."
    " Rules added after the sixth blind round: (R20.6 = R15.7) a grouped record's flat view reads from the owning member; (R20.7 = R15.6 of C15) the CSV header test rests on descriptor equality by definition."
    " Rules added after the seventh blind round: (R20.8) in normalize_fieldname the character substitution dominates the prefix tests, so the tests see the name that will be written."
)
RULE_SUMMARY = "instances: encode / open sinks, header-branch paths, uses of the line format, text-writer mappings"

TEXT_WRITERS = [
    ("flow.record.adapter.line.LineWriter", "write"), ("flow.record.adapter.text.TextWriter", "write"), ("flow.record.adapter.csvfile.CsvfileWriter", "write"),
    ("flow.record.stream.RecordPrinter", "write"),
]


def run(ctx):
    prog = ctx.prog
    ctx.trust("repr() and json.dumps(ensure_ascii=True) produce ASCII-escaped text for lone surrogates; csv.DictWriter with default (QUOTE_MINIMAL) quoting escapes delimiters, quotes and line breaks")

    # ------------------------------------------------------------------ R20.1
    ctx.rule("R20.1", "record-derived text is encoded with errors='surrogateescape'; text-mode files receiving record text are opened with errors='surrogateescape' "
                      "(unless the producer is ASCII-only)")
    n_sinks = 0
    for q, meth in TEXT_WRITERS:
        cls = ctx.anchor_cls(q)
        m = cls._module
        ctx.use(m)
        short = q.split(".")[-1]
        fn = prog.methods_of(cls).get(meth)
        if fn is None:
            raise AnalysisError(f"R20.1: {q}.{meth} not found")
        for c in calls_in(fn):
            if isinstance(c.func, ast.Attribute) and c.func.attr == "encode":
                recv = c.func.value
                # constant / pure-literal f-strings (e.g. the record counter line) cannot hold surrogates
                derived = _record_derived(recv, fn, prog, m)
                if not derived:
                    continue
                n_sinks += 1
                e = get_kw(c, "errors") or (c.args[1] if len(c.args) > 1 else None)
                ok = False
                if e is not None:
                    try:
                        ok = prog.fold(m, e) == "surrogateescape"
                    except NotConst:
                        ok = False
                ascii_only = isinstance(recv, ast.Call) and call_name(recv) in ("repr", "ascii")
                if isinstance(recv, ast.Name):
                    defs = [st.value for st in walk_no_nested(fn) if isinstance(st, ast.Assign) and norm(st.targets[0]) == recv.id]
                    ascii_only = bool(defs) and all(isinstance(d, ast.Call) and call_name(d) in ("repr", "ascii") for d in defs)
                ctx.check(ok or ascii_only, "R20.1", f"{short}.{meth}:encode({norm(recv)[:30]})", f"`{norm(c)[:70]}` encodes record text without errors='surrogateescape': a string field "
                          "holding undecodable bytes (lone surrogates) makes the writer raise UnicodeEncodeError", c,
                          "surrogateescape" if ok else "ASCII-only producer (repr)", key=f"R20.1:{short}.{meth}:encode-without-surrogateescape")
        # text-mode open() in the constructor
        init = prog.methods_of(cls).get("__init__")
        if init is None:
            continue
        for c in calls_in(init):
            cn = call_name(c)
            if cn in ("open", "io.open"):
                mode = c.args[1] if len(c.args) > 1 else get_kw(c, "mode")
                try:
                    mv = prog.fold(m, mode) if mode is not None else "r"
                except NotConst:
                    mv = None
                if mv is None or "b" in mv or "w" not in mv and "a" not in mv:
                    continue
                n_sinks += 1
                e = get_kw(c, "errors")
                ok = False
                if e is not None:
                    try:
                        ok = prog.fold(m, e) == "surrogateescape"
                    except NotConst:
                        ok = False
                ctx.check(ok, "R20.1", f"{short}.__init__:open(text)", f"`{norm(c)[:70]}` opens a text file for record text without errors='surrogateescape': writing a string with "
                          "undecodable bytes raises UnicodeEncodeError", c, "errors='surrogateescape'", key=f"R20.1:{short}.__init__:text-open-without-surrogateescape")
                if short == "CsvfileWriter":
                    nl = get_kw(c, "newline")
                    ctx.check(nl is not None and isinstance(nl, ast.Constant) and nl.value == "", "R20.2", f"{short}.__init__:newline", "the CSV file is not opened with newline=''", c, "newline=''")
    ctx.floor("R20.1", "text sinks receiving record text", n_sinks, 4)

    # ------------------------------------------------------------------ R20.2 CSV
    ctx.rule("R20.2", "CSV: DictWriter with default quoting; header written whenever the descriptor differs from the previous record's; header and row from the same _asdict call")
    cw = ctx.anchor_func("flow.record.adapter.csvfile.CsvfileWriter.write")
    cm = cw._module
    cfg = CFG(cw)
    r = func_params(cw)[1]
    dw = [c for c in calls_in(cw) if getattr(prog.resolve_expr(cm, c.func), "name", "") == "csv.DictWriter"]
    ctx.floor("R20.2", "csv.DictWriter constructions", len(dw), 1)
    for c in dw:
        bad_kw = [k.arg for k in c.keywords if k.arg in ("quoting", "escapechar", "quotechar", "doublequote", "delimiter", "dialect")]
        ctx.check(not bad_kw, "R20.2", "CsvfileWriter.write:DictWriter-options", f"DictWriter is configured with {bad_kw}: cells may no longer be quoted so that a standard parser recovers them",
                  c, "default dialect and quoting", key="R20.2:CsvfileWriter:quoting-options")
    rowc = [c for c in calls_in(cw) if isinstance(c.func, ast.Attribute) and c.func.attr == "writerow"]
    hdrc = [c for c in calls_in(cw) if isinstance(c.func, ast.Attribute) and c.func.attr == "writeheader"]
    if len(rowc) != 1 or not hdrc:
        raise AnalysisError("R20.2: writerow / writeheader not found")
    # the run-change test: compares the stored previous descriptor with the current record's
    from ..core import expand_aliases as _ea20, single_assign_aliases as _saa20
    al20 = {k: v for k, v in _saa20(cw).items() if isinstance(v, ast.Attribute)}  # `current = self.desc`, `desc = r._desc` read once into a local
    changed = [st for st in walk_no_nested(cw) if isinstance(st, ast.If) and any(
        isinstance(n, ast.Compare) and isinstance(n.ops[0], (ast.NotEq, ast.IsNot)) and {norm(_ea20(n.left, al20)), norm(_ea20(n.comparators[0], al20))} == {"self.desc", f"{r}._desc"}
        for n in ast.walk(st.test))]
    # (a local copy of self.desc stands for the previous descriptor only if it was taken before self.desc is updated)
    for k20, v20 in al20.items():
        if norm(v20) == "self.desc":
            d20 = next(st for st in walk_no_nested(cw) if isinstance(st, ast.Assign) and norm(st.targets[0]) == k20)
            if any(isinstance(st, ast.Assign) and norm(st.targets[0]) == "self.desc" and ordkey(st) < ordkey(d20) for st in walk_no_nested(cw)):
                changed = []
    if not changed:
        ctx.fail("R20.2", "CsvfileWriter.write:run-change-test", "no comparison of the previous record's descriptor with the current one: a header is not written when a run of "
                 "another type starts", cw, key="R20.2:CsvfileWriter:no-run-change-test")
    else:
        ch = changed[0]
        ctx.check(cfg.dominates(cfg.node_of(ch).id, cfg.node_of(rowc[0]).id), "R20.2", "CsvfileWriter.write:test-dominates-row", "a row can be written without the run-change test", cw,
                  "test dominates writerow")
        for h in hdrc:
            conds = enclosing_conditions(h, cw)
            ok = conds == [(norm(ch.test), True)]
            ctx.check(ok, "R20.2", "CsvfileWriter.write:header-on-every-run", f"writeheader() runs only under {conds}: when a record type re-appears after another type its rows follow "
                      "the other type's header and are read under the wrong column names", h, f"header written whenever `{norm(ch.test)}`", key="R20.2:CsvfileWriter:header-not-on-every-run")
        upd = [st for st in ch.body if isinstance(st, ast.Assign) and norm(st.targets[0]) == "self.desc" and norm(_ea20(st.value, al20)) == f"{r}._desc"]
        ctx.check(bool(upd), "R20.2", "CsvfileWriter.write:remember-descriptor", "the previous descriptor is not updated on a run change", ch, "self.desc = r._desc")
        # the writer used for the row is the one created in this branch for the current field set
        wdefs = [cfg.nodes[i].ast for i in cfg.reaching_defs("self.writer")[cfg.node_of(rowc[0]).id] if cfg.nodes[i].ast is not None]
        ok = all(isinstance(d, ast.Assign) and d.value in dw for d in wdefs)
        ctx.check(ok, "R20.2", "CsvfileWriter.write:writer-for-current-fields", f"the DictWriter used for the row is defined by {[norm(d)[:50] for d in wdefs]}", rowc[0],
                  "rows are written with the DictWriter created for the current run")
    rd = [st for st in walk_no_nested(cw) if isinstance(st, ast.Assign) and isinstance(st.value, ast.Call) and isinstance(st.value.func, ast.Attribute) and st.value.func.attr == "_asdict"]
    ok = len(rd) == 1 and norm(rowc[0].args[0]) == norm(rd[0].targets[0]) and all(norm(c.args[1]) in (norm(rd[0].targets[0]), f"list({norm(rd[0].targets[0])})") for c in dw) \
        and norm(get_kw(rd[0].value, "fields") or ast.Constant(None)) == "self.fields" and norm(get_kw(rd[0].value, "exclude") or ast.Constant(None)) == "self.exclude"
    ctx.check(ok, "R20.2", "CsvfileWriter.write:header-and-row-same-dict", "header fieldnames and row do not come from one _asdict(fields=self.fields, exclude=self.exclude) call", cw,
              "one rdict for both")

    # ------------------------------------------------------------------ R20.3 line writer
    ctx.rule("R20.3", "LineWriter: a numbered block header per record; the format string is defined whenever the item loop runs; one line per item of the same dict; verbose adds the type")
    lw = ctx.anchor_func("flow.record.adapter.line.LineWriter.write")
    lcfg = CFG(lw)
    rdict_def = [st for st in walk_no_nested(lw) if isinstance(st, ast.Assign) and isinstance(st.value, ast.Call) and isinstance(st.value.func, ast.Attribute) and st.value.func.attr == "_asdict"]
    if len(rdict_def) != 1:
        raise AnalysisError("R20.3: rdict = rec._asdict(...) not found")
    rdict = norm(rdict_def[0].targets[0])
    lal = {k: v for k, v in single_assign_aliases(lw).items() if k != rdict}

    def one_to_one(name) -> bool:
        """Is the local list `name` built with exactly one element per key of the dict, in order, on every definition?"""
        defs = [st.value for st in walk_no_nested(lw) if isinstance(st, ast.Assign) and len(st.targets) == 1 and norm(st.targets[0]) == name]
        if not defs:
            return False
        for d in defs:
            if norm(d) in (rdict, f"{rdict}.keys()"):
                continue  # iterating the dict itself gives its keys, one each, in order
            if isinstance(d, ast.Call) and call_name(d) in ("list", "tuple") and len(d.args) == 1 and norm(d.args[0]) in (rdict, f"{rdict}.keys()"):
                continue
            if isinstance(d, (ast.ListComp,)) and len(d.generators) == 1 and not d.generators[0].ifs and norm(d.generators[0].iter) in (rdict, f"{rdict}.keys()"):
                continue
            return False
        return True

    loops = []
    for n in walk_no_nested(lw):
        if not isinstance(n, ast.For):
            continue
        it = n.iter
        if norm(expand_aliases(it, lal)) == f"{rdict}.items()" and isinstance(n.target, ast.Tuple) and len(n.target.elts) == 2:
            loops.append(n)
        elif isinstance(it, ast.Call) and call_name(it) == "zip" and len(it.args) == 2 and isinstance(n.target, ast.Tuple) and len(n.target.elts) == 2:
            a0, a1 = it.args
            if norm(a1) == f"{rdict}.values()" and isinstance(a0, ast.Name) and one_to_one(a0.id):
                loops.append(n)
    writes_all = [c for c in calls_in(lw) if isinstance(c.func, ast.Attribute) and c.func.attr == "write"]
    loop = next((lp for lp in loops if any(c in list(ast.walk(lp)) for c in writes_all)), None)
    ctx.check(loop is not None, "R20.3", "LineWriter.write:item-loop", f"no loop over {rdict}.items(): fields are dropped", lw, f"for key, value in {rdict}.items()", key="R20.3:LineWriter:no-item-loop")
    if loop is not None:
        kvar, vvar = [norm(x) for x in loop.target.elts]
        writes = [c for c in ast.walk(loop) if isinstance(c, ast.Call) and isinstance(c.func, ast.Attribute) and c.func.attr == "write"]
        ok = len(writes) == 1 and enclosing_conditions(writes[0], loop) == [] and not [n for n in ast.walk(loop) if isinstance(n, (ast.Break, ast.Continue, ast.Return))]
        if ok:
            used = {n.id for n in ast.walk(writes[0]) if isinstance(n, ast.Name)}
            # the key may be re-labelled inside the loop (key = f"{key} (type)"), also into another local (label = ... key ...)
            for _ in range(3):
                for st in ast.walk(loop):
                    if isinstance(st, ast.Assign) and len(st.targets) == 1 and isinstance(st.targets[0], ast.Name) and st.targets[0].id in used:
                        used |= {n.id for n in ast.walk(st.value) if isinstance(n, ast.Name)}
            ok = vvar in used and kvar in used
        ctx.check(ok, "R20.3", "LineWriter.write:one-line-per-item", "not exactly one unconditional `name = value` line per field", loop, "one write per item")
        # every local the line is built from is defined whenever the loop body runs (the body runs only for a non-empty dict)
        if writes:
            wnode = lcfg.node_of(writes[0]).id
            params = set(func_params(lw))
            local_names = {n.id for n in ast.walk(writes[0]) if isinstance(n, ast.Name) and isinstance(n.ctx, ast.Load)} - params - {kvar, vvar}
            stored_any = {t.id for st in ast.walk(lw) if isinstance(st, (ast.Assign, ast.AugAssign, ast.For)) for t in ast.walk(st.targets[0] if isinstance(st, ast.Assign) else st.target)
                          if isinstance(t, ast.Name)}
            from ..cfg import stored_paths

            for nm in sorted(local_names & stored_any):
                def blocked(u, v, cond, nm=nm):
                    nd = lcfg.nodes[u]
                    if nd.ast is not None and nm in stored_paths(nd):
                        return True
                    if cond is not None:
                        f = logic.formula(cond[0])
                        val = logic.evaluate3(f, {rdict: True, f"len({rdict})": True})
                        if val is not None and val != cond[1]:
                            return True
                    return False

                undefined_reach = wnode in lcfg.reachable_avoiding_edges(lcfg.entry, blocked)
                ctx.check(not undefined_reach, "R20.3", f"LineWriter.write:{nm}-defined", f"`{nm}` may be undefined when the item loop runs (it is not assigned on every path on which {rdict} is non-empty)",
                          writes[0], f"defined whenever {rdict} is non-empty, i.e. whenever the loop body runs", key="R20.3:LineWriter:fmt-possibly-undefined")
    # an empty selection is a valid input (fields=/exclude= can leave nothing): aggregates that raise on an empty iterable need a default or a non-emptiness guard
    for c in calls_in(lw):
        if call_name(c) in ("max", "min") and len(c.args) == 1 and get_kw(c, "default") is None and rdict in {n.id for n in ast.walk(c.args[0]) if isinstance(n, ast.Name)}:
            nd = lcfg.header_node_for_expr(c) or lcfg.node_of(c)
            guarded = logic.implies(logic.facts_as_premises(lcfg.facts_at(nd.id)), logic.parse(rdict)) or logic.implies(logic.facts_as_premises(lcfg.facts_at(nd.id)), logic.parse(f"len({rdict}) > 0"))
            ctx.check(guarded, "R20.3", f"LineWriter.write:{call_name(c)}-of-selection", f"`{norm(c)[:60]}` raises ValueError when the field selection leaves nothing to print and is not guarded by `if {rdict}:`",
                      c, f"evaluated only when {rdict} is non-empty", key=f"R20.3:LineWriter:{call_name(c)}-on-empty-selection")

    def _mentions_count(c):
        a = c.args[0] if c.args else None
        while isinstance(a, ast.Call) and isinstance(a.func, ast.Attribute) and a.func.attr == "encode":
            a = a.func.value
        return a is not None and any(isinstance(n, ast.Attribute) and norm(n) == "self.count" for n in ast.walk(a))

    hdr = [c for c in calls_in(lw) if isinstance(c.func, ast.Attribute) and c.func.attr == "write" and _mentions_count(c)]
    inc = [st for st in walk_no_nested(lw) if isinstance(st, ast.AugAssign) and norm(st.target) == "self.count"]
    ctx.check(len(hdr) == 1 and len(inc) == 1 and lcfg.dominates(lcfg.node_of(inc[0]).id, lcfg.node_of(hdr[0]).id) and lcfg.dominates(lcfg.node_of(hdr[0]).id, lcfg.exit)
              and enclosing_conditions(hdr[0], lw) == [], "R20.3", "LineWriter.write:block-header",
              "no numbered block header per record", lw, "--[ RECORD n ]-- per record")
    ctx.check(norm(get_kw(rdict_def[0].value, "fields") or ast.Constant(None)) == "self.fields" and norm(get_kw(rdict_def[0].value, "exclude") or ast.Constant(None)) == "self.exclude", "R20.3",
              "LineWriter.write:selection", "fields/exclude options are not applied through _asdict", lw, "_asdict(fields=self.fields, exclude=self.exclude)")

    # ------------------------------------------------------------------ R20.4 text writer
    ctx.rule("R20.4", "TextWriter: format_map(DefaultMissing(rec._asdict())) over ALL fields, or repr(rec); one newline appended; Record.__repr__ iterates the descriptor's fields")
    tw = ctx.anchor_func("flow.record.adapter.text.TextWriter.write")
    rec = func_params(tw)[1]
    fm = [c for c in calls_in(tw) if isinstance(c.func, ast.Attribute) and c.func.attr in ("format_map", "format")]
    ctx.floor("R20.4", "template applications in TextWriter.write", len(fm), 1)
    for c in fm:
        ok = c.func.attr == "format_map" and len(c.args) == 1 and isinstance(c.args[0], ast.Call) and norm(c.args[0].func) == "DefaultMissing" \
            and len(c.args[0].args) == 1 and norm(c.args[0].args[0]) == f"{rec}._asdict()"
        ctx.check(ok, "R20.4", "TextWriter.write:template-mapping", f"the template is applied to `{norm(c.args[0])[:60] if c.args else ''}`, not to DefaultMissing({rec}._asdict()): a field the "
                  "template reaches through attribute/index access or a nested format spec is not supplied and rendering fails or prints the placeholder", c,
                  "all fields supplied, missing keys tolerated", key="R20.4:TextWriter:template-mapping-restricted")
    dm = ctx.anchor_func("flow.record.adapter.text.DefaultMissing.__missing__")
    ctx.check(not [n for n in ast.walk(dm) if isinstance(n, ast.Raise)], "R20.4", "DefaultMissing.__missing__", "a missing key raises", dm, "returns the placeholder")
    other = [c for c in calls_in(tw) if call_name(c) == "repr" and len(c.args) == 1 and norm(c.args[0]) == rec]
    ctx.check(bool(other), "R20.4", "TextWriter.write:repr", "without a template the record's repr is not used", tw, "buf = repr(rec)")
    wcalls = [c for c in calls_in(tw) if isinstance(c.func, ast.Attribute) and c.func.attr == "write"]
    tal = single_assign_aliases(tw)
    warg = expand_aliases(wcalls[0].args[0], tal) if len(wcalls) == 1 and wcalls[0].args else None
    nl_ok = isinstance(warg, ast.BinOp) and isinstance(warg.op, ast.Add) and isinstance(warg.right, ast.Constant) and warg.right.value == b"\n" \
        and not (isinstance(warg.left, ast.BinOp) and isinstance(warg.left.right, ast.Constant))
    ctx.check(len(wcalls) == 1 and nl_ok and enclosing_conditions(wcalls[0], tw) == [], "R20.4", "TextWriter.write:newline",
              "the rendering is not written once followed by one newline", tw, "buf + b'\\n'")
    # "exactly the template applied to the fields": what is written is the rendering itself - every definition of the text that reaches the
    # write is the format_map(...) result or repr(rec); a later rewrite of the rendered text (escape expansion, stripping) changes field values
    if len(wcalls) == 1 and wcalls[0].args:
        tcfg = CFG(tw)
        wn = tcfg.node_of(wcalls[0])
        tw_locals = {n.id for n in ast.walk(tw) if isinstance(n, ast.Name) and isinstance(n.ctx, ast.Store)}
        written = [n for n in ast.walk(wcalls[0].args[0]) if isinstance(n, ast.Name) and n.id in tw_locals and n.id not in (rec, "self")]
        for nm in written:
            for d in tcfg.reaching_defs(nm.id).get(wn.id, set()):
                da = tcfg.nodes[d].ast
                v = da.value if isinstance(da, ast.Assign) and len(da.targets) == 1 and isinstance(da.targets[0], ast.Name) else None
                def _rendering(x):
                    if isinstance(x, ast.IfExp):
                        return _rendering(x.body) and _rendering(x.orelse)
                    return (isinstance(x, ast.Call) and isinstance(x.func, ast.Attribute) and x.func.attr == "format_map") or \
                        (isinstance(x, ast.Call) and call_name(x) == "repr" and len(x.args) == 1 and norm(x.args[0]) == rec)

                pure = v is not None and _rendering(v)
                ctx.check(pure, "R20.4", f"TextWriter.write:text-written:{norm(da)[:40] if da is not None else nm.id}", f"the text that is written is (re)defined by `{norm(da)[:70] if da is not None else '?'}` "
                          "after rendering: characters that come from field values are rewritten together with the template's own", da if da is not None else tw,
                          "buf = template.format_map(...) | repr(rec), written as it is", key="R20.4:TextWriter.write:rendering-rewritten")
    # ------------------------------------------------------------------ R20.5 the CSV dialect is sniffed from rows, not from the header alone
    ctx.rule("R20.5", "CsvfileReader sniffs the dialect from a block read of the file (fp.read(n)): a sample that is only the header line contains no data rows, "
                      "and the delimiter is then guessed from letter frequencies in the field names")
    cri = ctx.anchor_func("flow.record.adapter.csvfile.CsvfileReader.__init__")
    ccfg = CFG(cri)
    sniffs = [c for c in calls_in(cri) if isinstance(c.func, ast.Attribute) and c.func.attr == "sniff" and c.args]
    ctx.floor("R20.5", "dialect sniffing sites", len(sniffs), 1)
    for sc in sniffs:
        a0 = sc.args[0]
        srcs = [a0]
        if isinstance(a0, ast.Name):
            srcs = []
            for d in ccfg.reaching_defs(a0.id).get(ccfg.node_of(sc).id, set()):
                da = ccfg.nodes[d].ast
                srcs.append(da.value if isinstance(da, ast.Assign) and len(da.targets) == 1 else None)
        block = bool(srcs) and all(v is not None and isinstance(v, ast.Call) and isinstance(v.func, ast.Attribute) and v.func.attr == "read" for v in srcs)
        ctx.check(block, "R20.5", "CsvfileReader.__init__:sniff-sample", f"the dialect is sniffed from {[norm(v)[:40] if v is not None else '?' for v in srcs]}, not from a block of the file: with the "
                  "header line alone a `|`- or tab-separated file whose field names repeat a letter more often than the separator is read with that letter as delimiter", sc,
                  "csv.Sniffer().sniff(self.fp.read(n))", key="R20.5:CsvfileReader:sniff-sample-not-a-block")
    rr = ctx.anchor_func("flow.record.base.Record.__repr__")
    # some loop / comprehension over self._desc.fields whose element reads getattr(self, <loop variable>)
    rok = False
    for g in [n for n in ast.walk(rr) if isinstance(n, (ast.comprehension, ast.For))]:
        if norm(g.iter) in ("self._desc.fields", "self._desc.fields.keys()", "self._desc.get_all_fields()", "self.__slots__") and isinstance(g.target, ast.Name) and not getattr(g, "ifs", []):
            scope = getattr(g, "_parent", None) if isinstance(g, ast.comprehension) else g
            rok |= any(isinstance(c, ast.Call) and call_name(c) == "getattr" and len(c.args) >= 2 and norm(c.args[0]) == "self" and norm(c.args[1]) == g.target.id for c in ast.walk(scope))
    ctx.check(rok, "R20.4", "Record.__repr__", "repr does not list every declared field", rr, "k=v for k in self._desc.fields")

    # ------------------------------------------------------------------ R20.6 what the text writers are handed for a grouped record
    ctx.rule("R20.6", "the CSV, line and text writers render rec._asdict(): for a grouped record that dict takes every value from the member that owns the field "
                      "(first member wins, the group's own attributes do not shadow fields)")
    from .c15 import check_grouped_values
    check_grouped_values(ctx, "R20.6")

    # ------------------------------------------------------------------ R20.7 the CSV header follows descriptor equality
    # (CsvfileWriter writes a new header when `self.desc != r._desc`: equality by a lossy identifier keeps the old header for a different field list)
    from .c15 import check_descriptor_equality
    check_descriptor_equality(ctx, "R20.7")

    # ------------------------------------------------------------------ R20.8 column names are cleaned before they are judged
    ctx.rule("R20.8", "normalize_fieldname (applied by the CSV reader to every header cell) replaces the characters a field name cannot contain BEFORE it decides "
                      "whether the name needs the `x_` prefix: a header that starts with one of those characters becomes `_name` only after the test, is then taken for a "
                      "reserved field by the reader and the whole column disappears")
    nf8 = ctx.anchor_func("flow.record.base.normalize_fieldname")
    cfg8 = CFG(nf8)
    subs8 = [c for c in calls_in(nf8) if (call_name(c) or "").endswith(("re.sub", ".sub", ".replace", ".translate"))]
    tests8 = [c for c in calls_in(nf8) if isinstance(c.func, ast.Attribute) and c.func.attr in ("startswith", "isdecimal", "isdigit")]
    ctx.floor("R20.8", "character substitutions in normalize_fieldname", len(subs8), 1)
    ctx.floor("R20.8", "prefix tests in normalize_fieldname", len(tests8), 1)
    for t8 in tests8:
        tn = cfg8.header_node_for_expr(t8) or cfg8.node_of(t8)
        ok8 = any(cfg8.dominates(cfg8.node_of(s8).id, tn.id) and cfg8.node_of(s8).id != tn.id for s8 in subs8)
        ctx.check(ok8, "R20.8", f"normalize_fieldname:{norm(t8)[:30]}", f"`{norm(t8)}` is evaluated on a path on which the character substitution has not run yet", t8,
                  "substitution dominates the prefix tests", key="R20.8:normalize_fieldname:test-before-substitution")



def _record_derived(recv, fn, prog=None, module=None) -> bool:
    """Could the text being encoded contain record values?  Text composed only of literals and the writer's own attributes
    (e.g. the record counter line) cannot."""
    from ..core import copy_ast
    from ..strsym import text_structure

    e = copy_ast(recv)
    if prog is not None:
        # module-level template constants: RECORD_HEADER.format(...) -> "<text>".format(...)
        for n in ast.walk(e):
            if isinstance(n, ast.Call) and isinstance(n.func, ast.Attribute) and n.func.attr == "format" and isinstance(n.func.value, ast.Name):
                try:
                    v = prog.fold(module, n.func.value)
                    if isinstance(v, str):
                        n.func.value = ast.Constant(value=v)
                except NotConst:
                    pass

    def derived(parts):
        for p in parts:
            if p[0] == "var" and not (p[1].startswith("self.") and "(" not in p[1]):
                return True
            if p[0] == "repeat":
                return True
            if p[0] == "alt" and any(derived(a) for a in p[1]):
                return True
        return False

    return derived(text_structure(fn, e))
