"""C03 - Every record is decoded with the descriptor it was written with."""
from __future__ import annotations

import ast
import re

from ..cfg import CFG
from ..core import copy_ast as _copy_ast
from ..core import (AnalysisError, DefRef, NotConst, Ref, RegexConst, call_name, calls_in, dotted, enclosing_class,
                    enclosing_function, expand_aliases, func_params, get_kw, norm, qualname_of, single_assign_aliases, walk_no_nested)
from .packer_common import pack_branches, unpack_branches

PROPERTY = "C03"
EXPLANATION = (
    "Decides: (R3.1) the 'already emitted' registry of each packer is a per-instance container created in __init__ (not a "
    "class attribute, module global, default argument or cache), and every writer creates its own packer in its own __init__; "
    "(R3.2) the registry only grows; (R3.3) emit-before-use: in pack_obj, for the record branch and for EVERY member "
    "descriptor of the grouped branch, the not-yet-emitted test and the notifying register() dominate the statement that packs "
    "the record, register(notify) reaches the on_descriptor event on all paths, each owning writer registered a handler that "
    "writes the descriptor frame, and the writer packs (which may emit descriptors) before it writes the record's own frame; "
    "(R3.4) the registry key (name, hash) is an injective encoding of the field list - decided on the hash input's structure; "
    "(R3.5) readers register every descriptor frame unconditionally before decoding later frames. NOT decided: contents of "
    "long interleaved histories (follows from R3.1-R3.5 under the assumption that msgpack calls the default hook depth-first)."
    " Rules added after the sixth blind round: (R3.7) JsonfileReader obtains every object through JsonRecordPacker.unpack, which passes object_hook=self.unpack_obj (records nested in record fields are decoded)."
    " Rules added after the seventh blind round: (R3.8) GroupedRecord.__init__ appends a member and its descriptor as a pair; R3.3 finds the JSON line writer also when it was folded into write() and the descriptor handler."
)
RULE_SUMMARY = "instances: registry sites, guard/register pairs, handler chains, reader branches; non-trivial = dominance / call-chain resolved"

PACKERS = ["flow.record.packer.RecordPacker", "flow.record.jsonpacker.JsonRecordPacker"]
MUTATORS_SHRINK = {"pop", "popitem", "clear", "remove", "discard"}


def fresh_container(e) -> bool:
    return isinstance(e, (ast.Dict, ast.Set, ast.List)) and not getattr(e, "keys", None) and not getattr(e, "elts", None) or \
        (isinstance(e, ast.Call) and call_name(e) in ("dict", "set", "OrderedDict", "collections.OrderedDict", "list") and not e.args and not e.keywords)


def check_lookup_by_identifier(ctx, rule):
    prog = ctx.prog
    # ------------------------------------------------------------------ R3.6 lookup by the whole identifier
    ctx.rule(rule, "the binary decoder resolves a record's descriptor only by the identifier carried in the record frame (name AND hash): no fallback to a lookup by name")
    uo = ctx.anchor_func("flow.record.packer.RecordPacker.unpack_obj")
    ucfg6 = CFG(uo)
    finals = [c for c in calls_in(uo) if isinstance(c.func, ast.Attribute) and c.func.attr == "_unpack" and isinstance(c.func.value, ast.Attribute) and c.func.value.attr == "recordType"]
    ctx.floor(rule, "record constructions in unpack_obj", len(finals), 1)

    def lookup_key(v):
        if isinstance(v, ast.Call) and isinstance(v.func, ast.Attribute) and v.func.attr == "get" and norm(v.func.value) == "self.descriptors" and v.args:
            return v.args[0]
        if isinstance(v, ast.Subscript) and norm(v.value) == "self.descriptors":
            return v.slice
        return None

    def sources(name, at, depth=0):
        """Expressions that define `name` at node `at`, followed through plain copies."""
        out = []
        for i in ucfg6.reaching_defs(name).get(at, set()):
            d = ucfg6.nodes[i].ast
            if d is None:
                continue
            v = None
            if isinstance(d, ast.Assign):
                t0 = d.targets[0]
                if isinstance(t0, (ast.Tuple, ast.List)) and isinstance(d.value, (ast.Tuple, ast.List)) and len(t0.elts) == len(d.value.elts):
                    v = next((b for a, b in zip(t0.elts, d.value.elts) if isinstance(a, ast.Name) and a.id == name), None)
                else:
                    v = d.value
            if isinstance(v, ast.Name) and depth < 5:
                out += sources(v.id, i, depth + 1) or [(d, v)]
            else:
                out.append((d, v))
        return out

    for fc in finals:
        recv = fc.func.value.value
        at = (ucfg6.header_node_for_expr(fc) or ucfg6.node_of(fc)).id
        srcs = sources(recv.id, at) if isinstance(recv, ast.Name) else [(fc, recv)]
        for d, v in srcs:
            key = lookup_key(v) if v is not None else None
            whole = key is not None and not (isinstance(key, ast.Subscript) or (isinstance(key, ast.Attribute) and key.attr in ("name",)))
            ctx.check(whole, rule, f"unpack_obj:descriptor-lookup:{norm(v)[:50] if v is not None else norm(d)[:50]}",
                      f"the descriptor for a record is taken from `{norm(v) if v is not None else norm(d)}`: a lookup by anything less than the identifier of the frame (e.g. the type name) decodes "
                      "the record with another version of the type", d, "self.descriptors[<identifier of the frame>]", key=f"{rule}:unpack_obj:lookup-not-by-identifier")


def run(ctx):
    prog = ctx.prog
    ctx.trust("msgpack / json.dumps invoke the default= hook for a nested object before the enclosing frame is returned (depth-first)")
    ctx.trust("utils.EventHandler.__call__ invokes every registered handler (checked structurally below)")

    # ------------------------------------------------------------------ R3.1 / R3.2
    ctx.rule("R3.1", "the descriptor registry consulted by the 'already emitted?' guards is an instance attribute initialised to a fresh "
                     "container in the packer's __init__; owning writers create their packer in their own __init__")
    ctx.rule("R3.2", "the registry is grow-only outside __init__ (no del / pop / clear / re-assignment)")
    guards_total = 0
    for pq in PACKERS:
        cls = ctx.anchor_cls(pq)
        pname = pq.split(".")[-1]
        methods = prog.methods_of(cls)
        # the registry attribute: the container tested with `<x>.identifier not in self.<reg>`
        regs = set()
        for fn in methods.values():
            for n in ast.walk(fn):
                if isinstance(n, ast.Compare) and len(n.ops) == 1 and isinstance(n.ops[0], (ast.NotIn, ast.In)) and norm(n.left).endswith(".identifier") \
                        and dotted(n.comparators[0]) and dotted(n.comparators[0]).startswith("self."):
                    regs.add(dotted(n.comparators[0]))
                    guards_total += 1
        # the registry proper is the container register() stores `<container>[desc.identifier] = desc` into
        regfn = methods.get("register")
        stored = set()
        if regfn is not None:
            for n in ast.walk(regfn):
                if isinstance(n, ast.Subscript) and isinstance(n.ctx, ast.Store) and norm(n.slice).endswith(".identifier") and dotted(n.value):
                    stored.add(dotted(n.value))
        if len(stored) == 1:
            reg = next(iter(stored))
            for extra in sorted(regs - stored):
                ctx.info("R3.1", f"{pname} also consults {extra} in an identifier membership test (additional memo besides the registry {reg})", cls)
        elif len(regs) == 1:
            reg = regs.pop()
        else:
            raise AnalysisError(f"R3.1: cannot identify the descriptor registry of {pname} (candidates {sorted(regs)})")
        attr = reg.split(".", 1)[1]
        init = methods.get("__init__")
        inits = [st for st in walk_no_nested(init) if isinstance(st, ast.Assign) and any(norm(t) == reg for t in st.targets)] if init else []
        class_level = [st for st in cls.body if isinstance(st, (ast.Assign, ast.AnnAssign)) and any(
            isinstance(t, ast.Name) and t.id == attr for t in (st.targets if isinstance(st, ast.Assign) else [st.target]))]
        ok = len(inits) == 1 and fresh_container(inits[0].value) and not [c for c in class_level if not (isinstance(getattr(c, "value", None), ast.Constant) and c.value.value is None)]
        # a class-level container that __init__ does not shadow is shared between instances
        shared = [c for c in class_level if getattr(c, "value", None) is not None and not isinstance(c.value, ast.Constant)]
        ctx.check(ok and not shared, "R3.1", f"{pname}.{attr}:per-instance",
                  (f"{attr} is a class-level container shared by all packers: what one writer emitted suppresses what another must emit"
                   if shared or not inits else f"{attr} is initialised from {norm(inits[0].value)}, not from a fresh container"), inits[0] if inits else cls,
                  f"self.{attr} = {{}} in __init__", key=f"R3.1:{pname}.{attr}:shared-registry")
        # default-argument / cache capture
        if init:
            mutable_defaults = [d for d in init.args.defaults + init.args.kw_defaults if isinstance(d, (ast.Dict, ast.List, ast.Set))]
            ctx.check(not mutable_defaults, "R3.1", f"{pname}.__init__:defaults", "mutable default argument in the packer constructor", init, "no mutable defaults")
        for fn in methods.values():
            cached = [d for d in fn.decorator_list if "cache" in norm(d)]
            if fn.name in ("register", "pack_obj", "pack"):
                ctx.check(not cached, "R3.1", f"{pname}.{fn.name}:not-cached", f"{fn.name} is memoised ({[norm(d) for d in cached]}): a second writer's descriptor would be "
                          "swallowed by the cache", fn, "not memoised")
        # R3.2
        bad = []
        for fn in methods.values():
            for n in ast.walk(fn):
                if fn.name != "__init__" and isinstance(n, ast.Assign) and any(norm(t) == reg for t in n.targets):
                    bad.append(n)
                if isinstance(n, ast.Delete) and any(reg in norm(t) for t in n.targets):
                    bad.append(n)
                if isinstance(n, ast.Call) and isinstance(n.func, ast.Attribute) and n.func.attr in MUTATORS_SHRINK and dotted(n.func.value) == reg:
                    bad.append(n)
        ctx.check(not bad, "R3.2", f"{pname}.{attr}:grow-only", f"the registry shrinks / is replaced: {norm(bad[0]) if bad else ''}", bad[0] if bad else cls, "grow-only")
    ctx.floor("R3.1", "'already emitted' guards over the registries", guards_total, 4)

    # owning writers
    owners = 0
    for m in prog.modules.values():
        for cls in [n for n in ast.walk(m.tree) if isinstance(n, ast.ClassDef)]:
            for fn in prog.methods_of(cls).values():
                for st in walk_no_nested(fn):
                    if isinstance(st, ast.Assign) and isinstance(st.value, ast.Call):
                        r = prog.resolve_expr(m, st.value.func)
                        if isinstance(r, DefRef) and r.qualname in PACKERS and any(norm(t).startswith("self.") for t in st.targets):
                            owners += 1
                            ctx.use(m)
                            ctx.check(fn.name == "__init__", "R3.1", f"{qualname_of(cls).replace('flow.record.', '')}:packer-created-in-init",
                                      f"the packer is created in {fn.name}", st, "own packer created in __init__")
                    # packers shared through class attributes / module globals
            for st in cls.body:
                if isinstance(st, ast.Assign) and isinstance(st.value, ast.Call):
                    r = prog.resolve_expr(m, st.value.func)
                    if isinstance(r, DefRef) and r.qualname in PACKERS:
                        ctx.fail("R3.1", f"{qualname_of(cls).replace('flow.record.', '')}:class-level-packer", "a packer instance is shared at class level", st,
                                 key=f"R3.1:{qualname_of(cls)}:class-level-packer")
        for st in m.tree.body:
            if isinstance(st, ast.Assign) and isinstance(st.value, ast.Call):
                r = prog.resolve_expr(m, st.value.func)
                if isinstance(r, DefRef) and r.qualname in PACKERS:
                    ctx.fail("R3.1", f"{m.modname}:module-level-packer", "a packer instance is shared at module level", st, key=f"R3.1:{m.modname}:module-level-packer")
    ctx.floor("R3.1", "writers/readers owning a packer", owners, 5)

    # ------------------------------------------------------------------ R3.3 emit-before-use
    ctx.rule("R3.3", "in every pack_obj: the not-yet-registered test followed by register(desc, notify=True) dominates the statement that packs a "
                     "record, for the record's own descriptor and for every member descriptor of a grouped record; register(notify) reaches "
                     "on_descriptor(desc); writers handle the event by writing the descriptor; the writer packs before writing the frame")
    for pq in PACKERS:
        cls = prog.cls(pq)
        pname = pq.split(".")[-1]
        pack_obj = prog.methods_of(cls).get("pack_obj")
        reg_fn = prog.methods_of(cls).get("register")
        if pack_obj is None or reg_fn is None:
            raise AnalysisError(f"R3.3: {pname} lacks pack_obj/register")
        cfg = CFG(pack_obj)
        obj = func_params(pack_obj)[1]
        pal = single_assign_aliases(pack_obj)

        pcfg3 = CFG(pack_obj)

        def X(e):
            # a name with several definitions in the function (`desc` is also the variable of the member loop): the one definition that
            # reaches this use, if it is a plain assignment, is what the name stands for here
            import copy as _copy
            repl = {}
            for nm in [x for x in ast.walk(e) if isinstance(x, ast.Name) and isinstance(x.ctx, ast.Load) and x.id not in pal]:
                un = pcfg3.header_node_for_expr(nm) or pcfg3.node_of(nm)
                defs_ = pcfg3.reaching_defs(nm.id).get(un.id, set()) if un is not None else set()
                if len(defs_) == 1:
                    dnode = pcfg3.nodes[next(iter(defs_))].ast
                    if isinstance(dnode, ast.Assign) and len(dnode.targets) == 1 and norm(dnode.targets[0]) == nm.id:
                        repl[nm.id] = dnode.value
            if repl:
                class _R(ast.NodeTransformer):
                    def visit_Name(self, n):
                        return _copy_ast(repl[n.id]) if isinstance(n.ctx, ast.Load) and n.id in repl else n
                e = _R().visit(_copy_ast(e))
            return norm(expand_aliases(e, pal))
        # branches on Record / GroupedRecord
        branches = []
        for st in ast.walk(pack_obj):
            if isinstance(st, ast.If) and isinstance(st.test, ast.Call) and call_name(st.test) == "isinstance" and norm(st.test.args[0]) == obj:
                r = prog.resolve_expr(pack_obj._module, st.test.args[1])
                if isinstance(r, DefRef) and r.qualname in ("flow.record.base.Record", "flow.record.base.GroupedRecord"):
                    branches.append((r.qualname.split(".")[-1], st))
        if not branches:
            raise AnalysisError(f"R3.3: {pname}.pack_obj has no Record branch")
        for kind, st in branches:
            # the statement that produces the packed form of the record (first use of obj's data after the guards)
            uses = [n for s0 in st.body for n in ast.walk(s0) if isinstance(n, ast.Call) and isinstance(n.func, ast.Attribute)
                    and n.func.attr in ("_pack", "_asdict", "_packdict") and norm(n.func.value) == obj]
            if not uses:
                raise AnalysisError(f"R3.3: {pname}.pack_obj/{kind}: packing statement not found")
            use_node = cfg.node_of(uses[0])
            regs = [c for s0 in st.body for c in ast.walk(s0) if isinstance(c, ast.Call) and norm(c.func) == "self.register"]
            construct = f"{pname}.pack_obj:{kind}"
            if not regs:
                ctx.fail("R3.3", f"{construct}:register", "no register() call in this branch: the descriptor is never emitted", st, key=f"R3.3:{construct}:no-register")
                continue
            for rc in regs:
                notify = rc.args[1] if len(rc.args) > 1 else get_kw(rc, "notify")
                nv = None
                try:
                    nv = prog.fold(pack_obj._module, notify) if notify is not None else False
                except NotConst:
                    nv = None
                ctx.check(nv is True, "R3.3", f"{construct}:register-notifies", f"register() is called with notify={norm(notify) if notify is not None else 'default False'}: the "
                          "descriptor is recorded as emitted but never written", rc, "register(desc, True)", key=f"R3.3:{construct}:register-without-notify")
                # shape: `if <d>.identifier not in self.descriptors: self.register(<d>, True)` possibly inside `for <d> in obj.descriptors`
                gif = getattr(enclosing_stmt_of(rc), "_parent", None)
                guard_ok = isinstance(gif, ast.If) and isinstance(gif.test, ast.Compare) and isinstance(gif.test.ops[0], ast.NotIn) \
                    and X(gif.test.left) == X(rc.args[0]) + ".identifier" and not gif.orelse
                ctx.check(guard_ok, "R3.3", f"{construct}:guard-shape", f"register is guarded by `{norm(gif.test) if isinstance(gif, ast.If) else norm(gif)}`, not by "
                          "`<descriptor>.identifier not in <registry>` of the same descriptor", rc, "guard tests the identifier of the descriptor it registers",
                          key=f"R3.3:{construct}:guard-mismatch")
                # the guard (or the loop around it) must dominate the packing statement: nothing else may skip it
                anchor = gif if isinstance(gif, ast.If) else enclosing_stmt_of(rc)
                loop = getattr(anchor, "_parent", None)
                dom_node = cfg.node_of(loop) if isinstance(loop, ast.For) else cfg.node_of(anchor)
                dom = cfg.dominates(dom_node.id, use_node.id)
                ctx.check(dom, "R3.3", f"{construct}:guard-dominates-pack",
                          "a path reaches the statement that packs the record without having passed the not-yet-emitted test for its descriptor(s): "
                          "a descriptor can stay un-emitted", uses[0], "emit-if-new dominates packing", key=f"R3.3:{construct}:pack-without-emit-check")
                if isinstance(loop, ast.For):
                    full = X(loop.iter) in (f"{obj}.descriptors",) and norm(loop.target) == norm(rc.args[0])
                    early = [n for n in ast.walk(loop) if isinstance(n, (ast.Break, ast.Continue, ast.Return))]
                    # the loop itself must not be conditional inside the branch
                    cond_parents = []
                    p = getattr(loop, "_parent", None)
                    while p is not None and p is not st:
                        if isinstance(p, (ast.If, ast.Try, ast.While, ast.For)):
                            cond_parents.append(p)
                        p = getattr(p, "_parent", None)
                    cond_txt = (norm(cond_parents[0].test) if cond_parents and hasattr(cond_parents[0], "test") else "a condition")
                    ctx.check(full and not early and not cond_parents, "R3.3", f"{construct}:every-member-descriptor",
                              ("the member loop does not cover every descriptor of the grouped record" if not full or early else
                               f"the member-descriptor loop only runs under `{cond_txt}`: "
                               "a later grouped record with a different member type is packed without its descriptor being emitted"),
                              loop, "loop over obj.descriptors, unconditional, no early exit", key=f"R3.3:{construct}:member-loop-conditional")
                elif kind == "GroupedRecord":
                    ctx.fail("R3.3", f"{construct}:every-member-descriptor", "member descriptors are not registered in a loop over obj.descriptors", rc,
                             key=f"R3.3:{construct}:no-member-loop")
                else:
                    ctx.check(X(rc.args[0]) == f"{obj}._desc", "R3.3", f"{construct}:own-descriptor", f"registers {X(rc.args[0])}, not the record's descriptor", rc,
                              "registers obj._desc")
        # register(notify) reaches on_descriptor on all paths after storing
        rcfg = CFG(reg_fn)
        ev_calls = [c for c in calls_in(reg_fn) if norm(c.func) == "self.on_descriptor"]
        stores = [n for n in rcfg.stmt_nodes() if isinstance(n.ast, ast.Assign) and any("identifier" in norm(t) and "descriptors" in norm(t) for t in n.ast.targets)]
        ctx.check(bool(ev_calls) and bool(stores), "R3.3", f"{pname}.register:event", "register does not store the identifier and raise the on_descriptor event", reg_fn,
                  "stores descriptors[identifier] and calls on_descriptor(desc)")
        if ev_calls:
            node = rcfg.node_of(ev_calls[0])
            facts = {(t, p) for t, p, _ in rcfg.facts_at(node.id)}
            allowed = {"notify and self.on_descriptor", "notify", "self.on_descriptor", "not isinstance(desc, RecordDescriptor)", "isinstance(desc, RecordDescriptor)",
                       "desc.identifier in self.descriptors", "desc.identifier not in self.descriptors"}
            extra = sorted(t for t, p in facts if t not in allowed)
            ctx.check(not extra, "R3.3", f"{pname}.register:event-unconditional", f"the event is only raised when {extra}", ev_calls[0],
                      "raised whenever notify is set (and the descriptor was not known)")
            p_desc = func_params(reg_fn)[1]
            ctx.check([norm(a) for a in ev_calls[0].args] == [p_desc], "R3.3", f"{pname}.register:event-argument", "the event does not carry the registered descriptor", ev_calls[0],
                      f"on_descriptor({p_desc})")
    # EventHandler model
    eh = ctx.anchor_func("flow.record.utils.EventHandler.__call__")
    loops = [n for n in walk_no_nested(eh) if isinstance(n, ast.For) and norm(n.iter) == "self.handlers"]
    ctx.check(bool(loops) and not [n for n in ast.walk(eh) if isinstance(n, (ast.Break, ast.Return, ast.Try))], "R3.3", "EventHandler.__call__:all-handlers",
              "not every handler is invoked", eh, "every registered handler is called")
    # writers: handler registration and what the handler does
    handlers = 0
    for wq, packer_attr in (("flow.record.stream.RecordStreamWriter", "self.packer"), ("flow.record.adapter.jsonfile.JsonfileWriter", "self.packer")):
        wcls = ctx.anchor_cls(wq)
        wname = wq.split(".")[-1]
        init = prog.methods_of(wcls)["__init__"]
        adds = [c for c in calls_in(init) if norm(c.func) == f"{packer_attr}.on_descriptor.add_handler"]
        if not adds:
            ctx.fail("R3.3", f"{wname}:handler-registered", "the writer does not subscribe to its packer's on_descriptor event: descriptors are never written", init,
                     key=f"R3.3:{wname}:no-handler")
            continue
        hname = adds[0].args[0].attr if isinstance(adds[0].args[0], ast.Attribute) else None
        h = prog.methods_of(wcls).get(hname)
        handlers += 1
        if h is None:
            raise AnalysisError(f"R3.3: handler {hname} of {wname} not found")
        p = func_params(h)[1]
        writes = [c for c in calls_in(h) if isinstance(c.func, ast.Attribute) and c.func.attr in ("write", "_write") and norm(c.func.value) == "self"
                  and [norm(a) for a in c.args] == [p]]
        if not writes:
            # the private line writer folded into the handler: self.fp.write(<derived from self.packer.pack(p)>)
            packed = {norm(st.targets[0]) for st in walk_no_nested(h) if isinstance(st, ast.Assign) and len(st.targets) == 1 and isinstance(st.value, ast.Call)
                      and norm(st.value.func) == "self.packer.pack" and [norm(a) for a in st.value.args] == [p]}
            writes = [c for c in calls_in(h) if isinstance(c.func, ast.Attribute) and c.func.attr == "write" and norm(c.func.value) == "self.fp" and c.args
                      and any((isinstance(n, ast.Name) and n.id in packed) or (isinstance(n, ast.Call) and norm(n.func) == "self.packer.pack" and [norm(a) for a in n.args] == [p])
                              for n in ast.walk(c.args[0]))]
        ctx.check(bool(writes) and not [n for n in ast.walk(h) if isinstance(n, (ast.If, ast.Try, ast.Return))], "R3.3", f"{wname}.{hname}:writes-descriptor",
                  "the handler does not unconditionally write the descriptor it receives", h, f"{norm(writes[0]) if writes else ''}")
        if wname == "JsonfileWriter":
            # registration is conditional on the descriptors option only
            node = CFG(init).node_of(adds[0])
            facts = {t for t, pol, _ in CFG(init).facts_at(node.id) if pol}
            ctx.check(facts <= {"self.descriptors"}, "R3.3", f"{wname}:handler-registration-condition", f"handler registration depends on {sorted(facts)}", adds[0],
                      "registered whenever descriptors are enabled")
    ctx.floor("R3.3", "writers subscribing to on_descriptor", handlers, 2)
    # writer: pack (may emit descriptors) precedes the record's own frame
    jmeths = prog.methods_of(ctx.anchor_cls("flow.record.adapter.jsonfile.JsonfileWriter"))
    jwrite = "_write" if "_write" in jmeths else "write"  # the private line writer may have been folded into write()
    for wq, meth in (("flow.record.stream.RecordStreamWriter", "write"), ("flow.record.adapter.jsonfile.JsonfileWriter", jwrite)):
        fn = ctx.anchor_func(f"{wq}.{meth}")
        wcfg = CFG(fn)
        packs = [c for c in calls_in(fn) if norm(c.func) == "self.packer.pack"]
        fpw = [c for c in calls_in(fn) if isinstance(c.func, ast.Attribute) and c.func.attr == "write" and norm(c.func.value) == "self.fp"]
        def before(pk, w):
            # an argument of the write call is evaluated before the write happens
            if any(pk in list(ast.walk(a)) for a in w.args):
                return True
            return wcfg.dominates(wcfg.node_of(pk).id, wcfg.node_of(w).id) and wcfg.node_of(pk).id != wcfg.node_of(w).id

        ok = bool(packs) and bool(fpw) and all(before(packs[0], w) for w in fpw)
        ctx.check(ok, "R3.3", f"{wq.split('.')[-1]}.{meth}:pack-before-frame", "the record's frame can be written before pack() (which emits new descriptors) has run", fn,
                  "pack() dominates every fp.write of the frame")

    # the member-descriptor collection of a grouped record is walked EVERY time the object is packed (by every writer): it must be a
    # container, not a one-shot iterator
    gcls = prog.cls("flow.record.base.GroupedRecord")
    ctx.use(gcls._module)
    n_gd = 0
    for fn0 in prog.methods_of(gcls).values():
        for st in ast.walk(fn0):
            if isinstance(st, ast.Assign) and any(norm(t) == "self.descriptors" for t in st.targets):
                n_gd += 1
                v = st.value
                one_shot = isinstance(v, ast.GeneratorExp) or (isinstance(v, ast.Call) and call_name(v) in ("map", "filter", "zip", "iter", "reversed", "enumerate", "itertools.chain"))
                ctx.check(not one_shot, "R3.3", "GroupedRecord.descriptors:re-iterable", f"self.descriptors = `{norm(v)[:60]}` is a one-shot iterator: the first packer that packs the grouped "
                          "record exhausts it, a second writer given the same object emits no member descriptors and its stream cannot be decoded", st, "a list / tuple",
                          key="R3.3:GroupedRecord.descriptors:one-shot-iterator")
    ctx.floor("R3.3", "assignments of GroupedRecord.descriptors", n_gd, 1)

    check_lookup_by_identifier(ctx, "R3.6")

    # ------------------------------------------------------------------ R3.4 key injectivity
    ctx.rule("R3.4", "the identifier (name, hash) distinguishes same-name descriptors only through the hash input, which must be an injective "
                     "encoding of the field list: adjacent variable-length parts need a separator outside the alphabets of field and type names")
    ch = ctx.anchor_func("flow.record.base.RecordDescriptor.calc_descriptor_hash")
    from .c02 import hash_input_order

    p_name, p_fields = func_params(ch)[0], func_params(ch)[1]
    hcalls = [c for c in calls_in(ch) if isinstance(prog.resolve_expr(ch._module, c.func), Ref) and prog.resolve_expr(ch._module, c.func).name.startswith("hashlib.") and c.args]
    if len(hcalls) != 1:
        raise AnalysisError("R3.4: hash input expression not found")
    order = hash_input_order(ch, hcalls[0].args[0], p_name, p_fields)
    # alphabets: field names [A-Za-z0-9_], type names [A-Za-z0-9_.] + "[]"
    seps_ok = True
    var_parts = [o for o in order if o in ("name", "field.name", "field.type")]
    literal_between = [o for o in order if o.startswith("literal:") or o.startswith("separator:")]
    def sep_valid(o):
        txt = o.split(":", 1)[1]
        try:
            val = ast.literal_eval(txt)
        except Exception:
            return False
        return isinstance(val, str) and val != "" and not re.search(r"[A-Za-z0-9_.\[\]/]", val)
    n_needed = max(0, len(var_parts) - 1) + 1  # between parts of one field and between fields
    injective = len([o for o in literal_between if sep_valid(o)]) >= 2
    ctx.check(injective, "R3.4", "calc_descriptor_hash:injective-encoding",
              f"the hash input concatenates {order} without separators: [('stringlist','a'),('string','b')] and [('string','a'),('string','listb')] under one "
              "name produce the same text, hence the same identifier; the second descriptor is never emitted and its records are decoded with the first", ch,
              "variable-length parts are separated by characters outside the name alphabets", key="R3.4:calc_descriptor_hash:not-injective")

    # ------------------------------------------------------------------ R3.5 readers
    ctx.rule("R3.5", "readers register every descriptor frame, unconditionally, before the next frame is decoded")
    it = ctx.anchor_func("flow.record.stream.RecordStreamReader.__iter__")
    icfg = CFG(it)
    regs = [c for c in calls_in(it) if isinstance(c.func, ast.Attribute) and c.func.attr == "register" and "packer" in norm(c.func.value)]
    ctx.floor("R3.5", "register calls in RecordStreamReader.__iter__", len(regs), 1)
    for rc in regs:
        node = icfg.node_of(rc)
        facts = {(t, p) for t, p, _ in icfg.facts_at(node.id)}
        arg = norm(rc.args[0])
        allowed = {f"isinstance({arg}, RecordDescriptor)", "not self.closed", "self.closed", f"{arg} == RECORDSTREAM_MAGIC", f"{arg} != RECORDSTREAM_MAGIC"}
        extra = sorted(t for t, p in facts if t not in allowed)
        ctx.check((f"isinstance({arg}, RecordDescriptor)", True) in facts and not extra, "R3.5", "RecordStreamReader.__iter__:register-unconditional",
                  f"a descriptor frame is only registered when {extra}: a later definition (e.g. same name, other fields) is dropped and its records cannot be "
                  "decoded", rc, "every descriptor frame is registered", key="R3.5:RecordStreamReader.__iter__:conditional-register")
    # the reader's register must not dedupe by name
    rp_reg = prog.func("flow.record.packer.RecordPacker.register")
    early = [n for n in walk_no_nested(rp_reg) if isinstance(n, ast.Return)]
    for e in early:
        rc = CFG(rp_reg)
        facts = {t for t, p, _ in rc.facts_at(rc.node_of(e).id) if p}
        bad = [t for t in facts if ".name in " in t]
        ctx.check(not bad, "R3.5", "RecordPacker.register:no-name-dedupe", f"register returns early when {bad}", e, "no early return keyed by the bare name")
    ju = ctx.anchor_func("flow.record.jsonpacker.JsonRecordPacker.unpack")
    jregs = [c for c in calls_in(ju) if norm(c.func) == "self.register"]
    ok = False
    if jregs:
        jc = CFG(ju)
        facts = {(t, p) for t, p, _ in jc.facts_at(jc.node_of(jregs[0]).id)}
        ok = (f"isinstance({norm(jregs[0].args[0])}, RecordDescriptor)", True) in facts and len([f for f in facts if f[1]]) == 1
    ctx.check(ok, "R3.5", "JsonRecordPacker.unpack:register", "a decoded descriptor line is not registered unconditionally", ju, "registers every descriptor line")
    jreg = prog.func("flow.record.jsonpacker.JsonRecordPacker.register")
    jrc = CFG(jreg)
    for e in [n for n in walk_no_nested(jreg) if isinstance(n, ast.Return)]:
        facts = {t for t, p, _ in jrc.facts_at(jrc.node_of(e).id) if p}
        ok = all("identifier in" in t or t.startswith("not isinstance") or t.startswith("isinstance(") for t in facts)
        ctx.check(ok, "R3.5", "JsonRecordPacker.register:dedupe-by-identifier", f"register returns early when {sorted(facts)}", e, "early return only for a known identifier")




    # ------------------------------------------------------------------ R3.7 nested records are decoded by the hook
    ctx.rule("R3.7", "JsonfileReader obtains every object through JsonRecordPacker.unpack (json.loads with object_hook, applied depth-first): a reader that "
                     "parses the line itself and converts only the top level leaves records nested in record / record[] fields as plain dicts without descriptor")
    jri = ctx.anchor_func("flow.record.adapter.jsonfile.JsonfileReader.__iter__")
    direct = [c for c in calls_in(jri) if isinstance(c.func, ast.Attribute) and c.func.attr == "unpack_obj"]
    via = [c for c in calls_in(jri) if isinstance(c.func, ast.Attribute) and c.func.attr == "unpack" and "packer" in norm(c.func.value)]
    ctx.check(bool(via) and not direct, "R3.7", "JsonfileReader.__iter__:decodes-through-hook", "the reader calls unpack_obj on an already parsed line (top level only) instead of "
              "packer.unpack(line)", direct[0] if direct else jri, "obj = self.packer.unpack(line)", key="R3.7:JsonfileReader:top-level-only-decoding")
    jpu = ctx.anchor_func("flow.record.jsonpacker.JsonRecordPacker.unpack")
    loads = [c for c in calls_in(jpu) if call_name(c) in ("json.loads", "json.load")]
    hook = bool(loads) and all(any(k.arg == "object_hook" and norm(k.value) == "self.unpack_obj" for k in c.keywords) for c in loads)
    ctx.check(hook, "R3.7", "JsonRecordPacker.unpack:object_hook", "json.loads is not given object_hook=self.unpack_obj", jpu, "json.loads(d, object_hook=self.unpack_obj)",
              key="R3.7:JsonRecordPacker.unpack:no-hook")

    # ------------------------------------------------------------------ R3.8 a grouped record lists the descriptor of every member
    ctx.rule("R3.8", "GroupedRecord.__init__ appends a member's descriptor to self.descriptors wherever it appends the member to self.records, under no further "
                     "condition: the packer emits descriptor frames from that list, and a member whose descriptor is left out (same type name as an earlier member, "
                     "other fields) is written without its definition")
    gi8 = ctx.anchor_func("flow.record.base.GroupedRecord.__init__")
    gcfg8 = CFG(gi8)
    rec_apps = [c for c in calls_in(gi8) if norm(c.func) == "self.records.append" and len(c.args) == 1]
    desc_apps = [c for c in calls_in(gi8) if norm(c.func) == "self.descriptors.append" and len(c.args) == 1]
    ctx.floor("R3.8", "member appends in GroupedRecord.__init__", len(rec_apps), 1)
    for ra in rec_apps:
        member = norm(ra.args[0])
        rn = gcfg8.node_of(ra)
        partner = [d for d in desc_apps if norm(d.args[0]) == f"{member}._desc"]
        ok8 = False
        for d in partner:
            dn = gcfg8.node_of(d)
            # same control context: each is executed exactly when the other is
            ok8 |= (gcfg8.dominates(rn.id, dn.id) and gcfg8.postdominates(dn.id, rn.id, normal_only=True)) or (gcfg8.dominates(dn.id, rn.id) and gcfg8.postdominates(rn.id, dn.id, normal_only=True))
        ctx.check(ok8, "R3.8", f"GroupedRecord.__init__:descriptor-of:{member}", f"`{norm(ra)}` is not always accompanied by `self.descriptors.append({member}._desc)`", ra,
                  "records and descriptors are appended together", key="R3.8:GroupedRecord.__init__:member-without-descriptor")



def enclosing_stmt_of(node):
    n = node
    while n is not None and not isinstance(n, ast.stmt):
        n = getattr(n, "_parent", None)
    return n
