"""C16 - rdump output is the specified slice of the filtered input."""
from __future__ import annotations

import ast

from ..cfg import CFG
from ..core import (AnalysisError, DefRef, NotConst, Ref, call_name, calls_in, dotted, enclosing_conditions, func_params, get_kw, norm,
                    qualname_of, walk_no_nested)

PROPERTY = "C16"
EXPLANATION = (
    "Most of C16 (skip/count arithmetic over all inputs, option interaction, equality of outputs across writers) is value-"
    "level and NOT decided. Decided structurally: (R16.1) per-source isolation in record_stream - opening a source, iterating "
    "it and closing it all happen inside a try, within the loop over sources, whose handlers include a catch-all that neither "
    "re-raises nor leaves the loop, records are yielded as they are read; (R16.2) in main every record of the sliced iterator "
    "reaches record_writer.write (directly or once per element of the timestamp expansion) unless --list, with no "
    "continue/break in between; the iterator is islice(record_stream(sources, selector), skip, skip+count) - filter first, "
    "then slice - and the field rewriter is applied after slicing; (R16.3) the writer is finalised in a finally that covers "
    "the loop; (R16.4) the field rewriter derives the projected descriptor from the record's OWN descriptor on every call (no "
    "cache keyed more coarsely), changes only the named fields, and metadata overrides are applied only when given. This check "
    "gives the weakest assurance of the set."
    " Also decided (rules added after the fifth blind round): (R16.6) the --split part suffix never truncates the part number; (R16.7) with -n the interpreted engine's namespace is rebuilt for every record."
    " Rules added after the sixth blind round: (R16.8 = R15.2 of C15) the timestamp expansion reads the original record; (R16.9 = R20.2 of C20) the CSV writer writes a header per run of a record type."
    " Rules added after the seventh blind round: (R16.10 = R5.9 of C05) the generated constructor / decoder of keyword-named descriptors never truth-tests a generic field value, so falsy values pass through rdump unchanged."
    " Taken over at the end of the session: (R16.11 = R10.2 of C10) the matcher starts every record with fresh data."
)
RULE_SUMMARY = "instances: source-handling call sites with their handlers, loop paths to the writer, slice arguments, rewriter definitions"


def covering_try(node, stop):
    """Try statements (innermost first) whose BODY contains node, up to `stop`."""
    out = []
    child = node
    n = getattr(node, "_parent", None)
    while n is not None and n is not stop:
        if isinstance(n, ast.Try) and any(child is x for x in n.body):
            out.append(n)
        child = n
        n = getattr(n, "_parent", None)
    return out


def handler_names(h):
    if h.type is None:
        return [None]
    return [dotted(e) for e in (h.type.elts if isinstance(h.type, ast.Tuple) else [h.type])]


def run(ctx):
    prog = ctx.prog
    stream_m = prog.module("flow.record.stream")
    rd = prog.module("flow.record.tools.rdump")
    ctx.use(stream_m, rd)

    # ------------------------------------------------------------------ R16.1
    ctx.rule("R16.1", "record_stream: RecordReader(src), the iteration over it and close() are inside a try (within the source loop) that has a catch-all handler which "
                      "falls through / continues; KeyboardInterrupt may propagate; records are yielded while reading")
    rs = ctx.anchor_func("flow.record.stream.record_stream")
    loop = next((n for n in walk_no_nested(rs) if isinstance(n, ast.For) and norm(n.iter) == func_params(rs)[0]), None)
    if loop is None:
        raise AnalysisError("R16.1: loop over sources not found")
    risky = []
    for c in ast.walk(loop):
        if isinstance(c, ast.Call):
            r = prog.resolve_expr(stream_m, c.func)
            if isinstance(r, DefRef) and r.qualname.endswith("RecordReader"):
                risky.append(("open", c))
            if isinstance(c.func, ast.Attribute) and c.func.attr == "close":
                risky.append(("close", c))
        if isinstance(c, ast.For) and c is not loop:
            risky.append(("iterate", c))
    ctx.floor("R16.1", "source-handling sites in record_stream", len(risky), 3)
    for kind, node in risky:
        tries = covering_try(node, loop)
        ok = False
        why = "it is not inside a try within the source loop"
        for t in tries:
            catch_all = [h for h in t.handlers if any(n in (None, "Exception", "BaseException") for n in handler_names(h))]
            if not catch_all:
                why = f"the enclosing try only handles {[handler_names(h) for h in t.handlers]}: any other error raised while {kind}ing a source escapes the generator " \
                      "and the remaining sources are never read"
                continue
            bad = [n for h in catch_all for n in ast.walk(h) if isinstance(n, (ast.Raise, ast.Break, ast.Return))]
            if bad:
                why = "the catch-all handler re-raises / leaves the loop"
                continue
            ok = True
            break
        ctx.check(ok, "R16.1", f"record_stream:{kind}:{norm(node)[:40]}", f"{kind} of a source: {why}", node, "covered by a catch-all handler that lets the loop continue",
                  key=f"R16.1:record_stream:{kind}:not-isolated")
    # other handlers in the loop must not end the loop either (except KeyboardInterrupt)
    for t in [n for n in ast.walk(loop) if isinstance(n, ast.Try)]:
        for h in t.handlers:
            names = handler_names(h)
            leaves = [n for n in ast.walk(h) if isinstance(n, (ast.Raise, ast.Break, ast.Return))]
            if names == ["KeyboardInterrupt"]:
                continue
            ctx.check(not leaves, "R16.1", f"record_stream:handler:{names}", f"the handler for {names} ends the whole stream (raise/break/return): later sources are not read", h,
                      "handler lets the loop continue", key=f"R16.1:record_stream:handler-leaves:{names}")
    ys = [y for y in ast.walk(loop) if isinstance(y, (ast.Yield, ast.YieldFrom))]
    accum = [c for c in ast.walk(rs) if isinstance(c, ast.Call) and isinstance(c.func, ast.Attribute) and c.func.attr in ("append", "extend")]
    ctx.check(bool(ys) and not accum, "R16.1", "record_stream:streams", "records are buffered per source instead of being yielded while reading (a failing source loses its prefix)", rs,
              "yield inside the per-source iteration")
    sel_pass = [c for k, c in risky if k == "open"]
    ctx.check(bool(sel_pass) and norm(get_kw(sel_pass[0], "selector") or ast.Constant(None)) == func_params(rs)[1], "R16.1", "record_stream:selector-forwarded",
              "the selector is not forwarded to the reader", rs, "RecordReader(src, selector=selector)")

    # ------------------------------------------------------------------ R16.2
    ctx.rule("R16.2", "main: iterator = islice(record_stream(args.src, selector), args.skip, args.skip + args.count | None); each record reaches record_writer.write unless --list; "
                      "rewriter after slicing; no continue/break in the record loop")
    main = ctx.anchor_func("flow.record.tools.rdump.main")
    isl = [c for c in calls_in(main) if call_name(c) in ("islice", "itertools.islice")]
    if len(isl) != 1:
        raise AnalysisError("R16.2: islice(...) not found in main")
    c = isl[0]
    src_ok = isinstance(c.args[0], ast.Call) and getattr(prog.resolve_expr(rd, c.args[0].func), "qualname", "").endswith("record_stream") \
        and norm(c.args[0].args[0]) == "args.src" and len(c.args[0].args) > 1 and norm(c.args[0].args[1]) == "selector"
    ctx.check(src_ok, "R16.2", "main:islice:source", "the slice is not taken over record_stream(args.src, selector) (filtering must precede skip/count)", c,
              "islice(record_stream(args.src, selector), ...)", key="R16.2:main:slice-source")
    start = norm(c.args[1]) if len(c.args) > 1 else None
    stop = c.args[2] if len(c.args) > 2 else None
    stop_ok = False
    shown = norm(stop) if stop is not None else None

    def is_sum(e):
        return isinstance(e, ast.BinOp) and isinstance(e.op, ast.Add) and {norm(e.left), norm(e.right)} == {"args.count", "args.skip"}

    def is_none(e):
        return isinstance(e, ast.Constant) and e.value is None

    if isinstance(stop, ast.Name):
        stop_name = stop.id
        defs = [st for st in walk_no_nested(main) if isinstance(st, ast.Assign) and norm(st.targets[0]) == stop_name]
        if len(defs) == 1:
            stop = defs[0].value
            shown = norm(stop)
        elif len(defs) == 2:
            conds = [enclosing_conditions(d, main) for d in defs]
            by = {}
            for d, cs in zip(defs, conds):
                if cs and cs[-1][0] == "args.count":
                    by[cs[-1][1]] = d.value
            stop_ok = set(by) == {True, False} and is_sum(by[True]) and is_none(by[False])
            shown = f"{norm(by.get(True)) if True in by else '?'} if args.count else {norm(by.get(False)) if False in by else '?'}"
    if isinstance(stop, ast.IfExp):
        stop_ok = norm(stop.test) == "args.count" and is_none(stop.orelse) and is_sum(stop.body)
    ctx.check(start == "args.skip" and stop_ok, "R16.2", "main:islice:bounds", f"slice bounds are ({start}, {shown}); expected (skip, skip+count or None)", c,
              "islice(..., args.skip, args.count + args.skip if args.count else None)", key="R16.2:main:slice-bounds")
    sel = [st for st in walk_no_nested(main) if isinstance(st, ast.Assign) and norm(st.targets[0]) == "selector"]
    ctx.check(len(sel) == 1 and "make_selector(args.selector" in norm(sel[0].value) and "not args.no_compile" in norm(sel[0].value), "R16.2", "main:selector",
              "the selector is not make_selector(args.selector, not args.no_compile)", main, "selector from -s, compiled unless -n")
    it_var = norm(c._parent.targets[0]) if isinstance(getattr(c, "_parent", None), ast.Assign) else None
    rloop = next((n for n in ast.walk(main) if isinstance(n, ast.For) and (c in list(ast.walk(n.iter)) or (
        it_var is not None and any(isinstance(x, ast.Name) and x.id == it_var for x in ast.walk(n.iter))))), None)
    if rloop is None:
        raise AnalysisError("R16.2: record loop not found in main")
    jumps = [n for n in ast.walk(rloop) if isinstance(n, (ast.Break, ast.Return)) and not _in_nested_loop(n, rloop)]
    # a `continue` drops a record only if it can be reached, without --list, on a path that has not passed a write (or the loop over the
    # record's timestamp expansions, which writes each of them)
    from .. import logic as _lg16
    mcfg = CFG(main)
    wr_nodes = set()
    for w_ in [w0 for w0 in ast.walk(rloop) if isinstance(w0, ast.Call) and norm(w0.func) == "record_writer.write"]:
        nd_ = mcfg.node_of(w_)
        if nd_ is not None:
            wr_nodes.add(nd_.id)
        lp_ = _enclosing_for(w_, rloop)
        if lp_ is not None and lp_ is not rloop and mcfg.node_of(lp_) is not None:
            wr_nodes.add(mcfg.node_of(lp_).id)
    first_ = mcfg.node_of(rloop.body[0])
    reach_ = _lg16.reachable_assuming(mcfg, first_.id, lambda a: False if a == "args.list" else None, avoid=lambda nd: nd.id in wr_nodes) if first_ is not None else set()
    jumps += [n for n in ast.walk(rloop) if isinstance(n, ast.Continue) and not _in_nested_loop(n, rloop) and (mcfg.node_of(n) is None or mcfg.node_of(n).id in reach_)]
    ctx.check(not jumps, "R16.2", "main:loop:no-skips", f"the record loop contains a {type(jumps[0]).__name__ if jumps else ''} that a selected record can reach before it was written: selected "
              "records can be dropped", rloop, "no break/return; continue only after the record was written or listed")
    writes = [w for w in ast.walk(rloop) if isinstance(w, ast.Call) and norm(w.func) == "record_writer.write"]
    ctx.floor("R16.2", "record_writer.write sites in the loop", len(writes), 2)
    rec_var = None
    tgt = rloop.target
    if isinstance(tgt, ast.Tuple):
        rec_var = norm(tgt.elts[-1])
    else:
        rec_var = norm(tgt)
    for w in writes:
        conds = [c0 for c0 in enclosing_conditions(w, rloop)]
        allowed = {("args.list", False), ("args.multi_timestamp", True), ("args.multi_timestamp", False)}
        extra = [c0 for c0 in conds if c0 not in allowed]
        ctx.check(not extra, "R16.2", f"main:write:{norm(w)[:40]}", f"the write is conditional on {extra}", w, f"reached for every record unless --list ({conds})",
                  key="R16.2:main:conditional-write")
    direct = [w for w in writes if norm(w.args[0]) == rec_var]
    expanded = [w for w in writes if isinstance(getattr(_enclosing_for(w, rloop), "iter", None), ast.Call) and
                "iter_timestamped_records" in norm(_enclosing_for(w, rloop).iter) and norm(_enclosing_for(w, rloop).iter.args[0]) == rec_var]
    ctx.check(len(direct) == 1 and len(expanded) == 1, "R16.2", "main:write:operands", "the loop does not write the record itself / each element of iter_timestamped_records(rec)", rloop,
              "write(rec) or write(each timestamp expansion of rec)")
    # `rewrite = record_field_rewriter.rewrite if record_field_rewriter else None` bound before the loop is the rewriter's method where there is a
    # rewriter and falsy where there is none: calling it under its own truth is calling record_field_rewriter.rewrite under record_field_rewriter
    from ..core import single_assign_aliases as _saa16
    rw_alias = {k for k, v in _saa16(main).items() if isinstance(v, ast.IfExp) and norm(v.test) == "record_field_rewriter" and norm(v.body) == "record_field_rewriter.rewrite"
                and isinstance(v.orelse, ast.Constant) and not v.orelse.value}
    rew = [a for a in ast.walk(rloop) if isinstance(a, ast.Assign) and norm(a.targets[0]) == rec_var and isinstance(a.value, ast.Call)
           and (norm(a.value.func) == "record_field_rewriter.rewrite" or norm(a.value.func) in rw_alias)]
    ctx.check(len(rew) == 1 and len(rew[0].value.args) == 1 and norm(rew[0].value.args[0]) == rec_var
              and enclosing_conditions(rew[0], rloop) in [[("record_field_rewriter", True)]] + [[(k, True)] for k in rw_alias if norm(rew[0].value.func) == k], "R16.2", "main:rewrite-after-slice",
              "projection is not applied to each sliced record (rec = rewriter.rewrite(rec))", rloop, "rewriter applied inside the loop over the sliced iterator")
    for attr, opt in (("_source", "args.record_source"), ("_classification", "args.record_classification")):
        sets = [a for a in ast.walk(rloop) if isinstance(a, ast.Assign) and norm(a.targets[0]) == f"{rec_var}.{attr}"]
        ok = len(sets) == 1 and norm(sets[0].value) == opt and enclosing_conditions(sets[0], rloop) == [(f"{opt} is not None", True)]
        ctx.check(ok, "R16.2", f"main:override:{attr}", f"{attr} is not overridden exactly when {opt} is given", rloop, f"{rec_var}.{attr} = {opt} only if given")

    # ------------------------------------------------------------------ R16.3
    ctx.rule("R16.3", "the writer is finalised (record_writer.__exit__ / close) in a finally whose try covers the record loop")
    tr = [t for t in ast.walk(main) if isinstance(t, ast.Try) and t.finalbody and rloop in list(ast.walk(ast.Module(body=t.body, type_ignores=[])))]
    fin = bool(tr) and any(isinstance(c0, ast.Call) and norm(c0.func) in ("record_writer.__exit__", "record_writer.close") for s0 in tr[0].finalbody for c0 in ast.walk(s0))
    ctx.check(fin, "R16.3", "main:finalise-writer", "the output writer is not flushed/closed on all exits of the record loop", main, "finally: record_writer.__exit__()")
    if tr:
        created_inside = any(isinstance(a, ast.Assign) and norm(a.targets[0]) == "record_writer" for s0 in tr[0].body for a in ast.walk(s0))
        if created_inside:
            ctx.info("R16.3", "RecordWriter(uri) is created inside the try: if it raises, the finally raises UnboundLocalError and masks the cause (an error either way)", tr[0])

    # ------------------------------------------------------------------ R16.4 rewriter
    ctx.rule("R16.4", "RecordFieldRewriter.rewrite: the projected descriptor used for a record is the result of record_descriptor_for_fields(record._desc, ...) of the same "
                      "call; identity when no option is set; new variables take precedence over original values")
    rw = ctx.anchor_func("flow.record.stream.RecordFieldRewriter.rewrite")
    cfg = CFG(rw)
    rec = func_params(rw)[1]
    uses = [c0 for c0 in calls_in(rw) if isinstance(c0.func, ast.Attribute) and c0.func.attr == "init_from_dict" and isinstance(c0.func.value, ast.Name)]
    ctx.floor("R16.4", "record constructions in rewrite()", len(uses), 1)
    for u in uses:
        dvar = u.func.value.id
        rdefs = [cfg.nodes[i].ast for i in cfg.reaching_defs(dvar)[cfg.node_of(u).id] if cfg.nodes[i].ast is not None]
        good = bool(rdefs) and all(isinstance(d, ast.Assign) and isinstance(d.value, ast.Call) and norm(d.value.func) == "self.record_descriptor_for_fields"
                                   and d.value.args and norm(d.value.args[0]) == f"{rec}._desc" for d in rdefs)
        ctx.check(good, "R16.4", f"rewrite:{dvar}", f"the descriptor used to rebuild the record is defined by {[norm(d)[:70] for d in rdefs]}: it need not be the projection of THIS record's "
                  "descriptor (e.g. a cache keyed by the type name serves another descriptor's projection to same-named types with different fields)", u,
                  "descriptor = self.record_descriptor_for_fields(record._desc, ...)", key="R16.4:rewrite:descriptor-not-from-own-desc")
        arg = u.args[0]
        ok = isinstance(arg, ast.Call) and (call_name(arg) or "").endswith("ChainMap") and len(arg.args) == 2 and norm(arg.args[1]) == f"{rec}._asdict()"
        ctx.check(ok, "R16.4", "rewrite:values", "values are not taken from ChainMap(new variables, record._asdict())", u, "ChainMap(local_dict, record._asdict())")
    first = next((st for st in rw.body if not (isinstance(st, ast.Expr) and isinstance(st.value, ast.Constant) and isinstance(st.value.value, str))), rw.body[0])
    from ..logic import equivalent, parse

    ident = isinstance(first, ast.If) and isinstance(first.body[-1], ast.Return) and norm(first.body[-1].value) == rec and \
        equivalent(first.test, parse("not self.fields and not self.exclude and not self.expression"))
    ctx.check(ident, "R16.4", "rewrite:identity", "rewrite() is not the identity when no fields/exclude/expression are set", rw, "returns the record unchanged")
    rdf = ctx.anchor_func("flow.record.stream.RecordFieldRewriter.record_descriptor_for_fields")
    keyed = func_params(rdf)[1:]
    ctx.check(keyed[:1] == ["descriptor"] and any("lru_cache" in norm(n) for n in ast.walk(prog.func("flow.record.stream.RecordFieldRewriter.__init__"))), "R16.4",
              "record_descriptor_for_fields:cache-key", "the descriptor cache is not keyed by the descriptor object", rdf, "lru_cache keyed by (descriptor, fields, exclude, new_fields)")
    # names that hold the exclusion list: the parameter and locals computed from it (`excluded = exclude or ()`)
    eparam = keyed[2] if len(keyed) > 2 else "exclude"
    derived = {eparam}
    grew = True
    while grew:
        grew = False
        for st in walk_no_nested(rdf):
            if isinstance(st, ast.Assign) and len(st.targets) == 1 and isinstance(st.targets[0], ast.Name) and st.targets[0].id not in derived \
                    and {x.id for x in ast.walk(st.value) if isinstance(x, ast.Name)} & derived and not any(isinstance(x, ast.Call) for x in ast.walk(st.value)):
                derived.add(st.targets[0].id)
                grew = True
    excl = [n for n in ast.walk(rdf) if isinstance(n, ast.Compare) and isinstance(n.ops[0], (ast.In, ast.NotIn)) and norm(n.comparators[0]) in derived]
    ctx.check(len(excl) >= 2, "R16.4", "record_descriptor_for_fields:exclude", "excluded fields are not removed in both the fields and the no-fields path", rdf, "exclude honoured on both paths")

    # ------------------------------------------------------------------ R16.6 / R16.7 the parts of rdump that live in other modules
    # --split hands the slice to SplitWriter: a part name that can repeat overwrites an earlier part of the output
    from .c17 import check_split_suffix
    check_split_suffix(ctx, "R16.6")
    # -n evaluates with the interpreted engine, one matcher for the whole stream: state left over from one record must not decide the next
    from .c07 import check_fresh_namespace
    check_fresh_namespace(ctx, "R16.7")

    # ------------------------------------------------------------------ rules of sibling properties that rdump's contract rests on
    ctx.import_rule("C15", "R15.2", "R16.8", "--multi-timestamp expands each record with iter_timestamped_records: every expansion reads the ORIGINAL record")
    ctx.import_rule("C20", "R20.2", "R16.9", "-m csv / -w csvfile: the same records come out whatever the writer - the CSV writer starts a new header whenever the record type changes")
    ctx.import_rule("C10", "R10.2", "R16.11", "rdump applies one selector object to every record of the stream: the matcher starts every record with fresh data, so a record is selected for what it holds and not for what came before it")

    # ------------------------------------------------------------------ R16.10 (shared rule) records with keyword-named fields keep their falsy values
    from .c05 import check_generated_value_tests as _cgv16
    _cgv16(ctx, "R16.10")



def _in_nested_loop(node, outer):
    n = getattr(node, "_parent", None)
    while n is not None and n is not outer:
        if isinstance(n, (ast.For, ast.While)):
            return isinstance(node, (ast.Continue, ast.Break))
        n = getattr(n, "_parent", None)
    return False


def _enclosing_for(node, outer):
    n = getattr(node, "_parent", None)
    while n is not None and n is not outer:
        if isinstance(n, ast.For):
            return n
        n = getattr(n, "_parent", None)
    return None
