"""C08 - Comparisons on a field the record lacks are false and never raise."""
from __future__ import annotations

import ast

from ..cfg import CFG
from ..core import (AnalysisError, DefRef, LambdaRef, NotConst, Ref, call_name, calls_in, dotted, func_params, norm,
                    qualname_of, walk_no_nested)
from ..dispatch import (FALSE, NOTIMPL, OPS, TRUE, UNKNOWN, VALUE, ForeignEval, Raise, binary_compare, feasible_nodes, is_raise,
                        membership)

PROPERTY = "C08"
EXPLANATION = (
    "Exhaustive static dispatch table: for every comparison operator (== != < <= > >= in, not in) x position of the missing "
    "operand x kind of the other operand (8 builtin kinds + every concrete whitelisted field-type class) x engine, the "
    "outcome of the comparison is COMPUTED from the source: the missing operand is the sentinel returned by the 3-argument "
    "getattr (R8.1); the sentinel's special methods are read from its class body (R8.2); the other operand's methods are "
    "abstractly evaluated on a foreign operand (isinstance tests false, converting calls may raise unless caught); Python's "
    "binary-operator dispatch (method, reflected method, defaults) and the interpreted engine's operator table / lambdas are "
    "applied (R8.3). A cell whose outcome is not False is a violation keyed engine/op/position/kind. Also: BinOp guard "
    "(R8.4) and helper functions skipping missing fields (R8.5). NOT decided: stream-level consequences beyond 'match "
    "never raises', helper behaviour on present-but-None values."
    " Also decided (rule added after the fifth blind round): (R8.7) arithmetic / bit operators on a missing field give the sentinel again in both engines - "
    "the sentinel class defines every binary operator method, its reflected twin and the unary ones, each returning the sentinel, and the interpreted BinOp "
    "guard returns the sentinel rather than False - so a comparison with the result is false and does not raise."
    " Rules added after the sixth blind round: (R8.8 = R14.5 of C14) the descriptor of a descriptor-less JSON line derives from that line alone."
    " Rules added after the seventh blind round: (R8.9) the sentinel class is instantiated exactly once in the whole package - the helpers recognise a missing field by identity, so a second instance left behind by a module split is a missing field no helper recognises; decided before every other rule, which are not evaluated when it fails."
)
RULE_SUMMARY = ("the table is enumerated exhaustively (ops x positions x kinds x engines); a cell is non-trivial when its "
                "outcome required evaluating a source method or a lambda body; distinct = distinct cells")

BUILTIN_KINDS = ["int", "float", "bool", "str", "bytes", "NoneType", "list", "tuple"]
OPERATOR_FUNCS = {"operator.eq": "==", "operator.ne": "!=", "operator.lt": "<", "operator.le": "<=", "operator.gt": ">",
                  "operator.ge": ">="}
AST_OF_OP = {"==": "ast.Eq", "!=": "ast.NotEq", "<": "ast.Lt", "<=": "ast.LtE", ">": "ast.Gt", ">=": "ast.GtE",
             "in": "ast.In", "not in": "ast.NotIn"}


def fmt(o):
    return f"raises {o[1]}" if is_raise(o) else str(o)


def find_sentinel(ctx):
    """Sentinel = class of the module-level instance used as the getattr default in WrappedRecord.__getattr__."""
    prog = ctx.prog
    ga = ctx.anchor_func("flow.record.selector.WrappedRecord.__getattr__")
    sel = ga._module
    sent_name = None
    for c in calls_in(ga):
        if call_name(c) == "getattr" and len(c.args) == 3:
            sent_name = dotted(c.args[2])
    if sent_name is None:
        raise AnalysisError("R8.1: WrappedRecord.__getattr__ has no 3-argument getattr - the sentinel cannot be identified")
    r = prog.resolve_global(sel, sent_name)
    if not (isinstance(r, tuple) and r[0] == "value" and isinstance(r[1], ast.Call)):
        raise AnalysisError(f"R8.1: {sent_name} is not a module-level instance")
    cls = prog.resolve_expr(r[2], r[1].func)
    if not (isinstance(cls, DefRef) and isinstance(cls.node, ast.ClassDef)):
        raise AnalysisError(f"R8.1: cannot resolve the class of {sent_name}")
    return sent_name, cls


def is_sentinel_getattr(call, obj_text, name_text, sent_name) -> bool:
    return (isinstance(call, ast.Call) and call_name(call) == "getattr" and len(call.args) == 3 and not call.keywords
            and norm(call.args[0]) == obj_text and norm(call.args[1]) == name_text and dotted(call.args[2]) == sent_name)


def concrete_field_kinds(ctx):
    """Concrete classes whose instances can be a field value: for each whitelist entry the class it names; when the
    class's __new__ dispatches to subclasses (path, command) the subclasses are the kinds."""
    prog = ctx.prog
    wl = prog.fold(prog.module("flow.record.whitelist"), ast.parse("WHITELIST").body[0].value)
    kinds = {}
    for entry in wl:
        ns, _, clsname = entry.rpartition(".")
        modname = "flow.record.fieldtypes" + (("." + ns) if ns else "")
        m = prog.module(modname)
        r = prog.resolve_global(m, clsname)
        if not (isinstance(r, DefRef) and isinstance(r.node, ast.ClassDef)):
            raise AnalysisError(f"whitelist entry {entry} does not resolve to a class")
        ctx.use(r.node._module)
        new = prog.methods_of(r.node).get("__new__")
        subs = prog.subclasses(r.node)
        dispatches = False
        if new is not None:
            clsparam = (func_params(new) or ["cls"])[0]
            # the class to instantiate is re-bound (in any form of assignment): the base class itself is never the kind of a value
            dispatches = any(isinstance(n, ast.Name) and n.id == clsparam and isinstance(n.ctx, ast.Store) for n in ast.walk(new)) or any(
                isinstance(n, ast.Call) and isinstance(n.func, ast.Attribute) and n.func.attr == "__new__" and n.args and norm(n.args[0]) != clsparam for n in ast.walk(new))
        if dispatches and subs:
            for s in subs:
                kinds.setdefault(qualname_of(s), DefRef(qualname_of(s), s))
        elif new is not None and not dispatches and _returns_argument(new):
            # pass-through types (record, dynamic): values are instances of other classes; `record` holds Record instances
            if clsname == "record":
                rec = prog.cls("flow.record.base.Record")
                kinds.setdefault("flow.record.base.Record", DefRef("flow.record.base.Record", rec))
            continue
        else:
            kinds.setdefault(r.qualname, r)
    # every whitelisted type also exists in list form T[]: instances of (a copy of) typedlist
    tl = prog.cls("flow.record.fieldtypes.typedlist")
    kinds.setdefault("flow.record.fieldtypes.typedlist", DefRef("flow.record.fieldtypes.typedlist", tl))
    return kinds


def _returns_argument(new: ast.FunctionDef) -> bool:
    params = func_params(new)
    rets = [n for n in walk_no_nested(new) if isinstance(n, ast.Return)]
    return bool(rets) and all(isinstance(r.value, ast.Name) and r.value.id in params[1:] or
                              (isinstance(r.value, ast.Call)) for r in rets) and any(
        isinstance(r.value, ast.Name) and r.value.id in params[1:] for r in rets)


class LambdaEval:
    """Evaluate the In/NotIn lambdas of AST_COMPARATORS with one parameter bound to the sentinel."""

    def __init__(self, ev, sent_ref, sent_out, other_ref):
        self.ev, self.sent_ref, self.sent_out, self.other_ref = ev, sent_ref, sent_out, other_ref

    def run(self, lam: LambdaRef, left_is_sentinel: bool):
        params = [a.arg for a in lam.node.args.args]
        if len(params) != 2:
            raise AnalysisError("comparator lambda does not take two parameters")
        self.bind = {params[0]: "S" if left_is_sentinel else "O", params[1]: "O" if left_is_sentinel else "S"}
        self.module = lam.module
        return self.val(lam.node.body)

    def run_function(self, fn, left_is_sentinel: bool):
        params = func_params(fn)
        if len(params) != 2:
            raise AnalysisError("comparator function does not take two parameters")
        self.bind = {params[0]: "S" if left_is_sentinel else "O", params[1]: "O" if left_is_sentinel else "S"}
        self.module = fn._module
        return self.block(fn.body)

    def block(self, stmts):
        for st in stmts:
            if isinstance(st, ast.Expr) and isinstance(st.value, ast.Constant):
                continue  # docstring
            if isinstance(st, ast.Return):
                return self.val(st.value) if st.value is not None else VALUE
            if isinstance(st, ast.If):
                t = self.truth(st.test)
                if is_raise(t):
                    return t
                if t is True:
                    r = self.block(st.body)
                elif t is False:
                    r = self.block(st.orelse)
                else:
                    a, b = self.block(st.body), self.block(st.orelse)
                    r = a if a == b else UNKNOWN
                if r is not None:
                    return r
                continue
            raise AnalysisError(f"comparator function statement {type(st).__name__} not modelled")
        return None

    def ref_of(self, name):
        return self.sent_ref if self.bind[name] == "S" else self.other_ref

    def truth(self, e):
        if isinstance(e, ast.BoolOp):
            vals = [self.truth(v) for v in e.values]
            for v in vals:
                if is_raise(v):
                    return v
            if isinstance(e.op, ast.Or):
                return True if any(v is True for v in vals) else (False if all(v is False for v in vals) else None)
            return False if any(v is False for v in vals) else (True if all(v is True for v in vals) else None)
        if isinstance(e, ast.UnaryOp) and isinstance(e.op, ast.Not):
            t = self.truth(e.operand)
            return t if (t is None or is_raise(t)) else (not t)
        if isinstance(e, ast.Call) and call_name(e) == "isinstance" and isinstance(e.args[0], ast.Name) and e.args[0].id in self.bind:
            r = self.ev.prog.resolve_expr(self.module, e.args[1])
            is_sent_cls = isinstance(r, DefRef) and r.node is self.sent_ref.node
            if self.bind[e.args[0].id] == "S":
                return True if is_sent_cls else None
            return False if is_sent_cls else None
        if isinstance(e, ast.Compare) and len(e.ops) == 1 and isinstance(e.ops[0], (ast.Is, ast.IsNot)) and \
                isinstance(e.left, ast.Name) and e.left.id in self.bind:
            r = self.ev.prog.resolve_global(self.module, dotted(e.comparators[0]) or "")
            if isinstance(r, tuple) and isinstance(r[1], ast.Call):
                c = self.ev.prog.resolve_expr(r[2], r[1].func)
                if isinstance(c, DefRef) and c.node is self.sent_ref.node:
                    hit = self.bind[e.left.id] == "S"
                    return hit if isinstance(e.ops[0], ast.Is) else (not hit)
            return None
        o = self.val(e)
        if is_raise(o):
            return o
        return {TRUE: True, FALSE: False}.get(o)

    def val(self, e):
        if isinstance(e, ast.Constant):
            return TRUE if e.value is True else (FALSE if e.value is False else VALUE)
        if isinstance(e, ast.IfExp):
            t = self.truth(e.test)
            if is_raise(t):
                return t
            if t is True:
                return self.val(e.body)
            if t is False:
                return self.val(e.orelse)
            a, b = self.val(e.body), self.val(e.orelse)
            return a if a == b else UNKNOWN
        if isinstance(e, ast.Call):
            r = self.ev.prog.resolve_expr(self.module, e.func)
            if isinstance(r, Ref) and r.name == "operator.contains" and len(e.args) == 2 and all(
                    isinstance(a, ast.Name) and a.id in self.bind for a in e.args):
                container, item = e.args[0].id, e.args[1].id
                return membership(self.ev, self.ref_of(item), self.ref_of(container), self.sent_ref, self.sent_out, False)
            if isinstance(r, Ref) and r.name in OPERATOR_FUNCS and len(e.args) == 2:
                return binary_compare(self.ev, OPERATOR_FUNCS[r.name], self.ref_of(e.args[0].id), self.ref_of(e.args[1].id),
                                      self.sent_ref, self.sent_out)
            raise AnalysisError(f"comparator lambda calls {norm(e.func)} - not modelled")
        if isinstance(e, ast.Compare) and len(e.ops) == 1 and isinstance(e.ops[0], (ast.Is, ast.IsNot)) and \
                isinstance(e.comparators[0], ast.Constant) and isinstance(e.comparators[0].value, bool):
            inner = self.val(e.left)
            if is_raise(inner):
                return inner
            want = e.comparators[0].value
            if inner in (TRUE, FALSE):
                same = (inner == TRUE) == want
                return TRUE if (same == isinstance(e.ops[0], ast.Is)) else FALSE
            return UNKNOWN
        if isinstance(e, ast.UnaryOp) and isinstance(e.op, ast.Not):
            inner = self.val(e.operand)
            return inner if is_raise(inner) else {TRUE: FALSE, FALSE: TRUE}.get(inner, UNKNOWN)
        if isinstance(e, ast.Compare) and len(e.ops) == 1 and isinstance(e.ops[0], (ast.In, ast.NotIn)) and \
                isinstance(e.left, ast.Name) and isinstance(e.comparators[0], ast.Name) and e.left.id in self.bind and e.comparators[0].id in self.bind:
            return membership(self.ev, self.ref_of(e.left.id), self.ref_of(e.comparators[0].id), self.sent_ref, self.sent_out, isinstance(e.ops[0], ast.NotIn))
        if isinstance(e, ast.BoolOp):
            t = self.truth(e)
            return t if is_raise(t) else {True: TRUE, False: FALSE}.get(t, UNKNOWN)
        raise AnalysisError(f"comparator lambda expression {norm(e)} not modelled")


def run(ctx):
    prog = ctx.prog
    sel = prog.module("flow.record.selector")
    ctx.use(sel)
    ctx.trust("CPython data model: binary comparison dispatch (method, reflected method, identity defaults, inherited "
              "__ne__ inverting __eq__), `in` -> __contains__ / element-wise ==, builtin types return NotImplemented for "
              "operands of unrelated classes; str/bytes.__contains__ and iteration of non-iterables raise TypeError; "
              "ipaddress.ip_address/ip_network raise ValueError and socket.inet_aton raises TypeError for foreign objects")

    # ------------------------------------------------------------------ R8.9 one sentinel object
    # the helpers recognise a missing field by IDENTITY (`value is NONE_OBJECT`): there can be only one object of the sentinel class in
    # the package, wherever the class lives. Decided before anything else - with two sentinels no other statement about them holds.
    ctx.rule("R8.9", "the sentinel class is instantiated exactly once in the whole package: helpers test `is NONE_OBJECT`, so a second instance (a copy of the "
                     "line left behind when the class moves to another module) is a missing field that no helper recognises")
    inst = []
    for mname, m in sorted(prog.modules.items()):
        for c in ast.walk(m.tree):
            if isinstance(c, ast.Call) and not c.args and not c.keywords and isinstance(c.func, (ast.Name, ast.Attribute)) and norm(c.func).split(".")[-1] == "NoneObject":
                ctx.use(m)
                inst.append((mname, c))
    ctx.floor("R8.9", "instantiations of the sentinel class in the package", len(inst), 1)
    ctx.check(len(inst) == 1, "R8.9", "NoneObject():instances", f"the sentinel class is instantiated {len(inst)} times ({', '.join(f'{mn}:{c.lineno}' for mn, c in inst)}): values "
              "obtained through one instance fail the `is NONE_OBJECT` tests written against the other - field_regex & co. then run on the sentinel and raise", inst[-1][1] if inst else sel.tree,
              "one NONE_OBJECT = NoneObject() for the package", key="R8.9:NoneObject:instantiated-more-than-once")
    if len(inst) != 1:
        return

    # ------------------------------------------------------------------ R8.1
    ctx.rule("R8.1", "both engines obtain a missing field through getattr(<record>, <name>, SENTINEL) on every path")
    sent_name, sent_ref = find_sentinel(ctx)
    ga = prog.func("flow.record.selector.WrappedRecord.__getattr__")
    k = func_params(ga)[1]
    rets = [n for n in walk_no_nested(ga) if isinstance(n, ast.Return)]
    ctx.floor("R8.1", "return statements in WrappedRecord.__getattr__", len(rets), 1)
    from ..core import expand_aliases, single_assign_aliases

    ga_al = single_assign_aliases(ga)
    for r in rets:
        rv = expand_aliases(r.value, ga_al) if r.value is not None else None
        ctx.check(is_sentinel_getattr(rv, "self.record", k, sent_name), "R8.1", "WrappedRecord.__getattr__:return",
                  f"returns {norm(r.value) if r.value else None} - not the value of the wrapped record's attribute with the sentinel "
                  "as default (a present field may be reported missing, or a missing one may raise)", r,
                  f"getattr(self.record, {k}, {sent_name})", key=f"R8.1:WrappedRecord.__getattr__:return:{norm(r.value) if r.value else 'None'}")
    # WrappedRecord must wrap the record it is given
    wi = ctx.anchor_func("flow.record.selector.WrappedRecord.__init__")
    p_rec = func_params(wi)[1]
    stores = [st for st in walk_no_nested(wi) if isinstance(st, ast.Assign) and any(norm(t) == "self.record" for t in st.targets)]
    ctx.check(len(stores) == 1 and norm(stores[0].value) == p_rec, "R8.1", "WrappedRecord.__init__:record",
              "self.record is not the constructor argument", wi, "self.record = <argument>")
    # compiled engine binds r to WrappedRecord(record)
    cm = ctx.anchor_func("flow.record.selector.CompiledSelector.match")
    p = func_params(cm)[1]
    from ..core import dict_bindings

    ok = False
    evs = [c for c in calls_in(cm) if call_name(c) == "eval" and len(c.args) > 1]
    if evs:
        _bases, binds, _copied = dict_bindings(cm, evs[0].args[1])
        vv = binds.get("r")
        if vv is not None:
            vv = expand_aliases(vv, single_assign_aliases(cm))
        if isinstance(vv, ast.Call):
            rr = prog.resolve_expr(sel, vv.func)
            ok = isinstance(rr, DefRef) and rr.qualname.endswith("WrappedRecord") and bool(vv.args) and norm(vv.args[0]) == p
    ctx.check(ok, "R8.1", "CompiledSelector.match:r-binding", "`r` is not bound to WrappedRecord(record)", cm, "r = WrappedRecord(record)")
    # interpreted engine: Attribute branch
    ev_fn = ctx.anchor_func("flow.record.selector.RecordContextMatcher._eval")
    attr_branch = None
    for st in ast.walk(ev_fn):
        if isinstance(st, ast.If) and isinstance(st.test, ast.Call) and call_name(st.test) == "isinstance" and \
                norm(st.test.args[1]) == "ast.Attribute":
            attr_branch = st
    if attr_branch is None:
        raise AnalysisError("R8.1: Attribute branch of RecordContextMatcher._eval not found")
    arets = [n for s0 in attr_branch.body for n in walk_no_nested(s0) if isinstance(n, ast.Return)]
    ctx.floor("R8.1", "returns in the interpreted Attribute branch", len(arets), 1)
    ev_al = single_assign_aliases(ev_fn)
    for r in arets:
        rv = expand_aliases(r.value, {k2: v2 for k2, v2 in ev_al.items() if not isinstance(v2, ast.Call)}) if r.value is not None else None
        good = isinstance(rv, ast.Call) and call_name(rv) == "getattr" and len(rv.args) == 3 and \
            dotted(rv.args[2]) == sent_name and norm(rv.args[1]) == "node.attr"
        ctx.check(good, "R8.1", "RecordContextMatcher._eval:Attribute:return",
                  f"returns {norm(r.value)} instead of getattr(obj, node.attr, {sent_name})", r, norm(r.value))

    # ------------------------------------------------------------------ R8.6 attribute hooks of record classes
    ctx.rule("R8.6", "getattr(record, name, SENTINEL) substitutes the sentinel only for AttributeError: every __getattr__ of a record class raises nothing else "
                     "for an unknown name (explicit raises are AttributeError; a mapping is indexed with the name only under an `in` test or a KeyError handler)")
    basem = prog.module("flow.record.base")
    rec_cls = prog.cls("flow.record.base.Record")
    hooks = []
    for c in [rec_cls] + prog.subclasses(rec_cls):
        fnh = prog.methods_of(c).get("__getattr__")
        if fnh is not None:
            hooks.append((c, fnh))
    ctx.floor("R8.6", "__getattr__ hooks on record classes", len(hooks), 1)
    for c, fnh in hooks:
        ctx.use(c._module)
        hname = func_params(fnh)[1]
        hcfg = CFG(fnh)
        q = qualname_of(fnh).replace("flow.record.", "")
        for rz in [n for n in walk_no_nested(fnh) if isinstance(n, ast.Raise)]:
            if rz.exc is None:
                continue
            ex = rz.exc.func if isinstance(rz.exc, ast.Call) else rz.exc
            r_ = prog.resolve_expr(c._module, ex)
            okr = isinstance(r_, Ref) and r_.name in ("builtins.AttributeError", "AttributeError")
            ctx.check(okr, "R8.6", f"{q}:raise {norm(ex)}", f"an unknown attribute raises {norm(ex)}, which getattr(record, name, default) does not turn into the default: "
                      "a selector on a field the record lacks raises instead of not matching", rz, "raises AttributeError", key=f"R8.6:{q}:raises:{norm(ex)}")
        for sub in [n for n in ast.walk(fnh) if isinstance(n, ast.Subscript) and isinstance(n.ctx, ast.Load) and hname in {x.id for x in ast.walk(n.slice) if isinstance(x, ast.Name)}]:
            nd = hcfg.header_node_for_expr(sub) or hcfg.node_of(sub)
            from .. import logic as _lg

            guarded = _lg.implies(_lg.facts_as_premises(hcfg.facts_at(nd.id)), ast.Compare(left=sub.slice, ops=[ast.In()], comparators=[sub.value]))
            tr = getattr(sub, "_parent", None)
            handled = False
            child = sub
            while tr is not None and tr is not fnh:
                if isinstance(tr, ast.Try) and any(child is b for b in tr.body):
                    for h in tr.handlers:
                        names = [norm(x) for x in (h.type.elts if isinstance(h.type, ast.Tuple) else [h.type])] if h.type is not None else ["BaseException"]
                        if any(nm in ("KeyError", "LookupError", "Exception", "BaseException") for nm in names):
                            handled = True
                child = tr
                tr = getattr(tr, "_parent", None)
            ctx.check(guarded or handled, "R8.6", f"{q}:index {norm(sub)[:40]}", f"`{norm(sub)}` raises KeyError for an unknown name (no `in` test, no KeyError handler): "
                      "getattr(record, name, default) lets it through, so a selector on a field this record lacks raises instead of not matching", sub,
                      "indexed only for known names", key=f"R8.6:{q}:unguarded-index")

    # ------------------------------------------------------------------ R8.2
    ctx.rule("R8.2", "the sentinel class defines __eq__ __ne__ __lt__ __le__ __gt__ __ge__ __contains__ and every return "
                     "in them is the constant False")
    ev = ForeignEval(prog, sent_ref.node)
    sent_out = {}
    for m in ("__eq__", "__ne__", "__lt__", "__le__", "__gt__", "__ge__", "__contains__"):
        found = ev.lookup(sent_ref, m)
        if found[0] != "src":
            ctx.fail("R8.2", f"{sent_ref.qualname.split('.')[-1]}.{m}", f"the sentinel class does not define {m}; Python falls back to "
                     "the other operand / the object default", sent_ref.node, key=f"R8.2:sentinel-lacks:{m}")
            continue
        fn = found[1]
        o = ev.eval_function(fn, sent_ref, foreign_params=func_params(fn)[1:2])
        sent_out[m] = o
        ctx.check(o == FALSE, "R8.2", f"{sent_ref.qualname.split('.')[-1]}.{m}", f"returns {fmt(o)} instead of False", fn,
                  "every return is the constant False", key=f"R8.2:sentinel:{m}:{fmt(o)}")
    if ev.lookup(sent_ref, "__iter__")[0] == "src":
        sent_out["__iter__"] = VALUE

    # ------------------------------------------------------------------ the table
    ctx.rule("R8.T", "every cell engine x op x position x kind evaluates to False (computed by static dispatch)")
    kinds: dict = {k: Ref(f"builtins.{k}") for k in BUILTIN_KINDS}
    fkinds = concrete_field_kinds(ctx)
    ctx.floor("R8.T", "concrete field-type kinds", len(fkinds), 20)
    for q, r in sorted(fkinds.items()):
        kinds[q.replace("flow.record.fieldtypes.", "").replace("flow.record.base.", "")] = r
    comparators = prog.fold(sel, ast.parse("AST_COMPARATORS").body[0].value)
    if not isinstance(comparators, dict):
        raise AnalysisError("AST_COMPARATORS does not fold to a dict")
    comp_by_ast = {k.name: v for k, v in comparators.items() if isinstance(k, Ref)}
    cells = 0
    nontrivial = 0
    non_false = []
    table_sample = []
    outcomes = {}
    for kind, kref in kinds.items():
        for op in list(OPS) + ["in", "not in"]:
            for pos in ("left", "right"):  # position of the MISSING operand
                lref, rref = (sent_ref, kref) if pos == "left" else (kref, sent_ref)
                # compiled engine: plain Python semantics
                if op in OPS:
                    oc = binary_compare(ev, op, lref, rref, sent_ref, sent_out)
                else:
                    oc = membership(ev, lref, rref, sent_ref, sent_out, negate=(op == "not in"))
                # interpreted engine: AST_COMPARATORS[...]
                entry = comp_by_ast.get(AST_OF_OP[op])
                if entry is None:
                    oi = Raise("KeyError")
                elif isinstance(entry, Ref) and entry.name in OPERATOR_FUNCS:
                    oi = binary_compare(ev, OPERATOR_FUNCS[entry.name], lref, rref, sent_ref, sent_out)
                elif isinstance(entry, LambdaRef):
                    oi = LambdaEval(ev, sent_ref, sent_out, kref).run(entry, left_is_sentinel=(pos == "left"))
                elif isinstance(entry, DefRef) and isinstance(entry.node, ast.FunctionDef):
                    oi = LambdaEval(ev, sent_ref, sent_out, kref).run_function(entry.node, left_is_sentinel=(pos == "left"))
                    if oi is None:
                        oi = VALUE
                else:
                    raise AnalysisError(f"comparator for {op} is {entry!r} - not modelled")
                for engine, o in (("compiled", oc), ("interpreted", oi)):
                    cells += 1
                    if isinstance(kref, DefRef) or op in ("in", "not in"):
                        nontrivial += 1
                    construct = f"{engine}/{op}/{pos}/{kind}"
                    outcomes[construct] = fmt(o)
                    expr = f"r.missing {op} <{kind}>" if pos == "left" else f"<{kind}> {op} r.missing"
                    if o == FALSE:
                        ctx.ok("R8.T", construct, f"{expr} -> False")
                    else:
                        non_false.append(construct)
                        ctx.fail("R8.T", construct, f"{expr} evaluates to {fmt(o)} in the {engine} engine, not False", sent_ref.node,
                                 key=f"R8.T:{construct}")
                    if len(table_sample) < 16 and (o != FALSE or cells % 97 == 0):
                        table_sample.append({"cell": construct, "expression": expr, "outcome": fmt(o)})
    ctx.extra["table"] = {"cells": cells, "kinds": list(kinds), "non_false_cells": len(non_false),
                          "cells_requiring_source_evaluation": nontrivial,
                          "outcomes": outcomes}
    for s in table_sample:
        ctx.sample(s)
    ctx.floor("R8.T", "table cells", cells, 8 * 2 * 2 * 28)

    # ------------------------------------------------------------------ R8.4 BinOp guard
    ctx.rule("R8.4", "in the interpreted BinOp branch the operator is applied only when neither operand is the sentinel")
    binop = None
    for st in ast.walk(ev_fn):
        if isinstance(st, ast.If) and isinstance(st.test, ast.Call) and call_name(st.test) == "isinstance" and \
                norm(st.test.args[1]) == "ast.BinOp":
            binop = st
    if binop is None:
        raise AnalysisError("R8.4: BinOp branch not found")
    cfg = CFG(ev_fn)
    applied = [c for s0 in binop.body for c in ast.walk(s0) if isinstance(c, ast.Call) and (
        (isinstance(c.func, ast.Subscript) and norm(c.func.value) == "AST_OPERATORS") or
        (isinstance(c.func, ast.Name) and any(isinstance(a, ast.Assign) and norm(a.targets[0]) == c.func.id and isinstance(a.value, ast.Subscript)
                                               and norm(a.value.value) == "AST_OPERATORS" for s1 in binop.body for a in ast.walk(s1))))]
    ctx.floor("R8.4", "operator applications in the BinOp branch", len(applied), 1)
    sent_cls_name = sent_ref.qualname.split(".")[-1]
    first = cfg.node_of(binop.body[0])
    for c in applied:
        node = cfg.node_of(c)
        operands = [a.id for a in c.args if isinstance(a, ast.Name)]
        reach = []
        for opnd in operands:
            # the operand variable holds the sentinel from its definition onwards: start right after it is assigned
            defs = [n for n in cfg.stmt_nodes() if isinstance(n.ast, ast.Assign) and any(norm(t) == opnd for t in n.ast.targets) and n.ast in [x for s1 in binop.body for x in ast.walk(s1)]]
            start_id = defs[-1].id if defs else first.id
            feas = feasible_nodes(ev, cfg, ev_fn, start_id, {opnd: "FOREIGN"})
            if node.id in feas:
                reach.append(opnd)
        ctx.check(len(operands) == len(c.args) and not reach, "R8.4", "RecordContextMatcher._eval:BinOp:apply",
                  f"the operator application is reachable when {reach or 'an operand'} is the sentinel: an arithmetic/bit operator applied to a missing field raises TypeError "
                  "instead of evaluating to False", c, f"not reachable with {operands} being a {sent_cls_name}")

    # ------------------------------------------------------------------ R8.7 arithmetic on a missing field
    ctx.rule("R8.7", "a comparison whose operand is computed from a missing field (`r.missing % 2 == 0`, `r.missing & 4 == 4`) is false and does not raise: the "
                     "sentinel class defines every binary arithmetic / bit operator method with its reflected twin and the unary ones, each returning the sentinel "
                     "itself (the compiled engine is plain Python: without them the operator raises TypeError, which ends the source in record_stream); the "
                     "interpreted BinOp guard returns the sentinel too (a `False` there compares EQUAL to 0)")
    arith = []
    for stem in ("add", "sub", "mul", "truediv", "floordiv", "mod", "pow", "lshift", "rshift", "and", "or", "xor"):
        arith += [f"__{stem}__", f"__r{stem}__"]
    arith += ["__neg__", "__pos__", "__invert__"]
    n_ar = 0
    for m in arith:
        found = ev.lookup(sent_ref, m)
        if found[0] != "src":
            ctx.fail("R8.7", f"{sent_cls_name}.{m}", f"the sentinel class does not define {m}: in the compiled engine `r.missing {m.strip('_')} x` raises TypeError (the rest of the "
                     "source is dropped by record_stream) instead of making the enclosing comparison false", sent_ref.node, key="R8.7:sentinel-lacks-arithmetic")
            continue
        fn7 = found[1]
        n_ar += 1
        me7 = func_params(fn7)[0] if func_params(fn7) else None
        rets7 = [r for r in walk_no_nested(fn7) if isinstance(r, ast.Return)]
        ctx.check(bool(rets7) and all(r.value is not None and norm(r.value) in (me7, sent_name) for r in rets7), "R8.7", f"{sent_cls_name}.{m}",
                  f"{m} of the sentinel returns {[norm(r.value) if r.value is not None else None for r in rets7]}, not the sentinel", fn7, "returns the sentinel itself",
                  key=f"R8.7:{sent_cls_name}.{m}:not-absorbing")
    # the interpreted guard: what is returned when an operand is the sentinel
    gcfg7 = cfg
    for rn7 in [n for n in gcfg7.stmt_nodes() if isinstance(n.ast, ast.Return) and any(n.ast is x for s0 in binop.body for x in ast.walk(s0))]:
        facts7 = [(t, p) for t, p, _ in gcfg7.facts_at(rn7.id)]
        under_sentinel = any(p and sent_cls_name in t and "isinstance" in t for t, p in facts7)
        if not under_sentinel:
            continue
        v7 = rn7.ast.value
        ok7 = v7 is not None and (norm(v7) == sent_name or (isinstance(v7, ast.Name) and any(p and f"isinstance({v7.id}, {sent_cls_name})" == t for t, p in facts7)))
        ctx.check(ok7, "R8.7", "RecordContextMatcher._eval:BinOp:guard-value", f"with a missing operand the interpreted BinOp yields `{norm(v7) if v7 is not None else None}`: a constant such as "
                  "False takes part in the enclosing comparison as a number (`r.missing % 2 == 0` is True for a record that lacks the field)", rn7.ast,
                  f"returns {sent_name}", key="R8.7:_eval:BinOp:guard-returns-value")

    # ------------------------------------------------------------------ R8.5 helpers skip missing fields
    ctx.rule("R8.5", "helper functions that loop over field names read the field with the sentinel default and skip it "
                     "(`is SENTINEL: continue`) before any use")
    wl = prog.fold(sel, ast.parse("FUNCTION_WHITELIST").body[0].value)
    looping = 0
    for ref in wl:
        if not (isinstance(ref, DefRef) and isinstance(ref.node, ast.FunctionDef)):
            continue
        fn = ref.node
        params = func_params(fn)
        for loop in [n for n in walk_no_nested(fn) if isinstance(n, ast.For)]:
            if not (isinstance(loop.iter, ast.Name) and loop.iter.id in params and isinstance(loop.target, ast.Name)):
                continue
            fld = loop.target.id
            # the statement reading the field
            reads = [st for st in loop.body if isinstance(st, ast.Assign) and isinstance(st.value, ast.Call)
                     and any(isinstance(a, ast.Name) and a.id == fld for a in st.value.args)]
            if not reads:
                continue
            looping += 1
            rd = reads[0]
            var = rd.targets[0].id if isinstance(rd.targets[0], ast.Name) else None
            call = rd.value
            good_read = False
            if call_name(call) == "getattr" and len(call.args) == 3 and dotted(call.args[2]) == sent_name:
                good_read = True
            else:
                r = prog.resolve_expr(sel, call.func)
                if isinstance(r, DefRef) and isinstance(r.node, ast.FunctionDef):
                    hrets = [n for n in walk_no_nested(r.node) if isinstance(n, ast.Return)]
                    hp = func_params(r.node)
                    good_read = bool(hrets) and all(
                        isinstance(h.value, ast.Call) and call_name(h.value) == "getattr" and len(h.value.args) == 3
                        and dotted(h.value.args[2]) == sent_name and norm(h.value.args[0]) == hp[0] for h in hrets)
            ctx.check(good_read, "R8.5", f"{fn.name}:field-read", f"{norm(call)} does not default to the sentinel", rd,
                      f"{norm(call)} yields {sent_name} for a missing field")
            fcfg = CFG(fn)
            rd_node = fcfg.node_of(rd)
            uses = [n for st in loop.body[loop.body.index(rd) + 1:] for n in ast.walk(st) if isinstance(n, ast.Name) and n.id == var and isinstance(n.ctx, ast.Load)]
            # a test on the variable that only decides whether it is the sentinel is not a "use"
            feas = feasible_nodes(ev, fcfg, fn, rd_node.id, {var: "FOREIGN"}, stop_at=lambda nd: nd.id == rd_node.id)
            bad = []
            for u in uses:
                hn = fcfg.header_node_for_expr(u) or fcfg.node_of(u)
                if hn.id not in feas:
                    continue
                # inside a test node: allowed if the whole test has a definite value under the sentinel (it is the skip test itself)
                if hn.kind == "test":
                    t = ev.truth(hn.ast.test, {var: "FOREIGN"}, fn, None, 0)
                    if t in (True, False):
                        continue
                bad.append(u)
            ctx.check(not bad, "R8.5", f"{fn.name}:skip-missing",
                      f"{var} is used at line {bad[0].lineno if bad else 0} on a path that a missing field (the sentinel) can take: the field is not skipped", bad[0] if bad else rd,
                      f"none of the {len(uses)} uses of {var} is reachable when it holds {sent_name}", key=f"R8.5:{fn.name}:missing-field-not-skipped")
            # ... and a missing field skips only THAT field: under the sentinel, control comes back to the loop header (next field) -
            # it neither leaves the loop nor returns
            header = fcfg.node_of(loop)
            feas2 = feasible_nodes(ev, fcfg, fn, rd_node.id, {var: "FOREIGN"}, stop_at=lambda nd, h=header.id: nd.id == h)
            leaves = []
            for nid in feas2:
                nd = fcfg.nodes[nid]
                if nid in (header.id, rd_node.id):
                    continue
                inside = False
                q = nd.ast
                while q is not None:
                    if q is loop:
                        inside = True
                        break
                    q = getattr(q, "_parent", None)
                if not inside or isinstance(nd.ast, ast.Return) or nid in (fcfg.exit,):
                    leaves.append(nd)
            ctx.check(not leaves, "R8.5", f"{fn.name}:missing-field-skips-one", f"when `{var}` is the sentinel, control leaves the loop over the field names "
                      f"({'return' if any(isinstance(n.ast, ast.Return) for n in leaves) else 'break / fall out'}): the remaining fields are never tested, so a record lacking the FIRST "
                      "listed field cannot match on a later one", leaves[0].ast if leaves and leaves[0].ast is not None else rd,
                      "a missing field continues with the next field", key=f"R8.5:{fn.name}:missing-field-ends-loop")
    ctx.floor("R8.5", "helper functions looping over field names", looping, 3)

    # ------------------------------------------------------------------ R8.8 (sibling rule) a plain JSON line has the fields of THAT line
    ctx.import_rule("C14", "R14.5", "R8.8", "whether a field is missing is decided per record: the descriptor of a descriptor-less JSON line derives from that line alone")

