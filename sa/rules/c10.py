"""C10 - Reading with a selector equals filtering afterwards; matching is pure."""
from __future__ import annotations

import ast
import itertools

from ..cfg import CFG, stored_paths
from ..core import (AnalysisError, DefRef, NotConst, Ref, call_name, calls_in, dotted, enclosing_function, func_params, get_kw,
                    norm, qualname_of, walk_no_nested)

PROPERTY = "C10"
EXPLANATION = (
    "Decides: (R10.1) sibling agreement over all reader classes - a reader that accepts a selector normalises it with "
    "make_selector (or delegates to a reader that does) and every record-yielding `yield X` in __iter__ is reached only when "
    "the branch facts imply `no selector or selector.match(X)` for the same X (propositional check over the facts, so the "
    "if/continue and nested-if idioms are all accepted), with X not re-assigned in between; (R10.2) the matcher's per-match "
    "state is re-created at the top of matches() and the compiled engine copies its namespace per match; (R10.3) matching "
    "writes no persistent state outside the reviewed per-selector caches (no module-level / class-level containers are "
    "written on the match path) and never stores into the record; (R10.4) make_selector passes an already built selector "
    "object through unchanged and changes engine only when force_compiled asks for it. Readers whose third-party dependency "
    "is not installed here are analysed too but reported as info. NOT decided: equality of yielded values with and without "
    "selector beyond 'same object X'; determinism of helper functions."
    " Rules added after the sixth blind round: (R10.5) readers call make_selector(selector) without forcing an engine; (R10.6) CompiledSelector.match and WrappedRecord keep no state between records."
    " After the seventh blind round the scope of R10.3 was extended to the memoised methods of RecordDescriptor (getfields & co.)."
)
RULE_SUMMARY = "instances: (reader, yield) pairs, state attributes, persistent-store sites, make_selector branches; non-trivial = branch facts / reachability computed"

UNCONFIRMABLE = {"flow.record.adapter.elastic", "flow.record.adapter.mongo", "flow.record.adapter.xlsx", "flow.record.adapter.splunk",
                 "flow.record.adapter.broker", "flow.record.adapter.duckdb"}
EXEMPT_READERS = {
    "flow.record.adapter.broker.BrokerReader": "filtering is delegated to the remote subscription (selector text is sent to the broker)",
    "flow.record.adapter.archive.ArchiveReader": "constructor raises NotImplementedError (writer-only adapter)",
    "flow.record.adapter.splunk.SplunkReader": "constructor raises NotImplementedError (writer-only adapter)",
}
# reviewed persistent state written on the match path: attribute -> reason
ALLOWED_PERSISTENT = {
    ("flow.record.selector.Selector", "matcher"): "caches the RecordContextMatcher object, whose per-record state is rebuilt in matches() (R10.2)",
}


def implies_guard(facts, xs: str) -> bool:
    """Do the branch facts imply  (not S) or M  where S = 'a selector is set', M = 'selector.match(xs)'?  Decided as a
    propositional implication over the atoms of the facts (truth table), after mapping the equivalent spellings of S and M."""
    from ..logic import implies, parse

    def canon(text):
        return (text.replace("self.selector is not None", "self.selector").replace("self.selector is None", "(not self.selector)")
                .replace(f"{xs} in self.selector", f"self.selector.match({xs})"))

    prem = []
    for text, pol, _e in facts:
        if "self.selector" not in text:
            continue
        try:
            prem.append((parse(canon(text)), pol))
        except SyntaxError:
            continue
    if not any(f"self.selector.match({xs})" in canon(t) for t, _, _ in facts):
        return False
    return implies(prem, parse(f"not self.selector or self.selector.match({xs})"))


def facts_with_exprs(cfg: CFG, node_id: int):
    """facts_at, but each fact carries a parsed expression (re-parsed from its normalised text)."""
    out = []
    for text, pol, _ in cfg.facts_at(node_id):
        try:
            out.append((text, pol, ast.parse(text, mode="eval").body))
        except SyntaxError:
            continue
    return out


def run(ctx):
    prog = ctx.prog
    sel = prog.module("flow.record.selector")
    ctx.use(sel)
    thorough = ctx.tier == "thorough"

    # ------------------------------------------------------------------ R10.1
    ctx.rule("R10.1", "every reader that accepts a selector stores make_selector(selector) (or delegates) and guards every record yield with "
                      "`not self.selector or self.selector.match(X)` for the yielded X")
    ar = ctx.anchor_cls("flow.record.adapter.AbstractReader")
    readers = prog.subclasses(ar) + [prog.cls("flow.record.stream.RecordStreamReader")]
    ctx.floor("R10.1", "reader classes", len(readers), 10)
    guarded = 0
    for cls in readers:
        q = qualname_of(cls)
        short = q.replace("flow.record.", "")
        ctx.use(cls._module)
        armed = cls._module.modname not in UNCONFIRMABLE

        def report(ok, construct, msg_fail, node, detail_ok, key):
            if armed:
                ctx.check(ok, "R10.1", construct, msg_fail, node, detail_ok, key=key)
            elif not ok:
                ctx.info("R10.1", f"{construct}: {msg_fail} (module's dependency is not installed here; not raised)", node)
            else:
                ctx.ok("R10.1", construct, detail_ok + " [info-only module]", node)

        if q in EXEMPT_READERS:
            ctx.info("R10.1", f"{short}: exempt - {EXEMPT_READERS[q]}", cls)
            init = prog.methods_of(cls).get("__init__")
            if "raises NotImplementedError" in EXEMPT_READERS[q]:
                ok = init is not None and any(isinstance(n, ast.Raise) for n in init.body)
                ctx.check(ok, "R10.1", f"{short}:exemption-still-valid", "the exemption reason no longer holds (constructor does not raise)", cls, "constructor raises")
            continue
        init = prog.class_attr(cls, "__init__")
        it = prog.class_attr(cls, "__iter__")
        if not (isinstance(init, DefRef) and isinstance(it, DefRef)):
            raise AnalysisError(f"R10.1: {short} lacks __init__/__iter__")
        init_fn, it_fn = init.node, it.node
        accepts = "selector" in func_params(init_fn)
        if not accepts:
            report(False, f"{short}:accepts-selector", "the reader does not accept a selector (RecordReader(..., selector=...) passes one)", init_fn, "", f"R10.1:{short}:no-selector")
            continue
        stores = [st for st in walk_no_nested(init_fn) if isinstance(st, ast.Assign) and any(norm(t) == "self.selector" for t in st.targets)]
        delegated = [c for c in calls_in(init_fn) if get_kw(c, "selector") is not None and norm(get_kw(c, "selector")) == "selector"]
        if stores:
            v = stores[0].value
            normalised = isinstance(v, ast.Call) and isinstance(prog.resolve_expr(cls._module, v.func), DefRef) and \
                prog.resolve_expr(cls._module, v.func).qualname == "flow.record.selector.make_selector" and v.args and norm(v.args[0]) == "selector"
            report(normalised, f"{short}:selector-normalised", f"self.selector = {norm(v)}: a selector given as text is not turned into a selector object", stores[0],
                   "self.selector = make_selector(selector)", f"R10.1:{short}:selector-not-normalised")
        elif delegated:
            r = prog.resolve_expr(cls._module, delegated[0].func)
            ok = isinstance(r, DefRef) and isinstance(r.node, ast.ClassDef) and r.node in readers
            report(ok, f"{short}:selector-delegated", "selector is passed to something that is not an analysed reader", delegated[0], f"delegates to {getattr(r, 'qualname', '?')}",
                   f"R10.1:{short}:bad-delegation")
            # __iter__ must iterate the delegate
            continue
        else:
            report(False, f"{short}:selector-stored", "the selector argument is dropped: records are never filtered", init_fn, "", f"R10.1:{short}:selector-dropped")
            continue
        if it_fn._module.modname not in (cls._module.modname,) and not prog.methods_of(cls).get("__iter__"):
            # inherited __iter__ (DuckdbReader): analysed at the defining class
            ctx.ok("R10.1", f"{short}:inherits-iter", f"inherits __iter__ from {qualname_of(it_fn).rsplit('.', 1)[0]}", cls)
            continue
        cfg = CFG(it_fn)
        yields = [n for n in walk_no_nested(it_fn) if isinstance(n, (ast.Yield, ast.YieldFrom))]
        if not yields:
            report(False, f"{short}:yields", "__iter__ is not a generator: cannot establish per-record filtering", it_fn, "", f"R10.1:{short}:no-yield")
            continue
        for y in yields:
            if isinstance(y, ast.YieldFrom) or y.value is None or not isinstance(y.value, ast.Name):
                report(False, f"{short}:yield@{norm(y)[:40]}", f"`{norm(y)}` yields without a per-record selector test", y, "", f"R10.1:{short}:unfiltered-yield:{norm(y)[:30]}")
                continue
            xs = y.value.id
            node = cfg.header_node_for_expr(y) or cfg.node_of(y)
            facts = facts_with_exprs(cfg, node.id)
            ok = implies_guard(facts, xs)
            guarded += 1 if ok else 0
            report(ok, f"{short}:yield {xs}", f"`yield {xs}` is reachable without `not self.selector or self.selector.match({xs})` holding: records that do not match "
                   "are yielded (or the test was made on another object)", y, f"facts imply: no selector or selector.match({xs})", f"R10.1:{short}:unguarded-yield:{xs}")
    ctx.floor("R10.1", "guarded record yields", guarded, 6)

    # ------------------------------------------------------------------ R10.2
    ctx.rule("R10.2", "attributes of the matcher written during evaluation are (re)assigned unconditionally at the top of matches() before the first eval; "
                      "self.data is a fresh dict per match; CompiledSelector.match works on a copy of self.ns")
    rcm = ctx.anchor_cls("flow.record.selector.RecordContextMatcher")
    matches = ctx.anchor_func("flow.record.selector.RecordContextMatcher.matches")
    mcfg = CFG(matches)
    first_eval = None
    for c in calls_in(matches):
        if norm(c.func) in ("self.eval", "self._eval"):
            first_eval = c
            break
    if first_eval is None:
        raise AnalysisError("R10.2: matches() does not call self.eval")
    fe = mcfg.node_of(first_eval)
    reset = set()
    for n in mcfg.stmt_nodes():
        if isinstance(n.ast, ast.Assign) and mcfg.dominates(n.id, fe.id) and n.id != fe.id:
            for t in n.ast.targets:
                d = dotted(t)
                if d and d.startswith("self.") and d.count(".") == 1:
                    reset.add(d)
    written = {}
    for fn in [f for f in ast.walk(rcm) if isinstance(f, ast.FunctionDef) and f.name not in ("__init__", "matches")]:
        for n in ast.walk(fn):
            if isinstance(n, ast.Attribute) and isinstance(n.ctx, ast.Store) and dotted(n) and dotted(n).startswith("self.") and dotted(n).count(".") == 1:
                written.setdefault(dotted(n), fn)
            if isinstance(n, ast.Subscript) and isinstance(n.ctx, ast.Store) and dotted(n.value) and dotted(n.value).startswith("self."):
                written.setdefault(dotted(n.value), fn)
            if isinstance(n, ast.Call) and isinstance(n.func, ast.Attribute) and n.func.attr in ("append", "update", "add", "extend", "setdefault", "insert") \
                    and dotted(n.func.value) and dotted(n.func.value).startswith("self.") and dotted(n.func.value).count(".") == 1:
                written.setdefault(dotted(n.func.value), fn)
    ctx.floor("R10.2", "matcher attributes written during evaluation", len(written), 2)
    for attr, fn in sorted(written.items()):
        ctx.check(attr in reset, "R10.2", f"RecordContextMatcher:{attr}", f"{attr} is modified during evaluation ({fn.name}) but not re-created at the top of matches(): "
                  "state of one record's match (e.g. generator variables) leaks into the next", fn, "re-assigned in matches() before the first eval",
                  key=f"R10.2:RecordContextMatcher:{attr}:not-reset")
    data_assign = [n.ast for n in mcfg.stmt_nodes() if isinstance(n.ast, ast.Assign) and any(norm(t) == "self.data" for t in n.ast.targets)]
    fresh = bool(data_assign) and all(isinstance(a.value, (ast.Dict, ast.DictComp)) or (isinstance(a.value, ast.Call) and call_name(a.value) in ("dict",)) or
                                      (isinstance(a.value, ast.Call) and isinstance(a.value.func, ast.Attribute) and a.value.func.attr == "copy") for a in data_assign)
    ctx.check(fresh, "R10.2", "RecordContextMatcher.matches:fresh-data", "self.data is not a fresh dict per match", matches, "self.data = {...} per match")
    cm = ctx.anchor_func("flow.record.selector.CompiledSelector.match")
    ns_stores = []
    csel = prog.cls("flow.record.selector.CompiledSelector")
    for fn in prog.methods_of(csel).values():
        if fn.name == "__init__":
            continue
        for n in ast.walk(fn):
            if isinstance(n, ast.Subscript) and isinstance(n.ctx, ast.Store) and dotted(n.value) == "self.ns":
                ns_stores.append(n)
            if isinstance(n, ast.Call) and isinstance(n.func, ast.Attribute) and n.func.attr in ("update", "setdefault", "pop", "clear") and dotted(n.func.value) == "self.ns":
                ns_stores.append(n)
            if isinstance(n, ast.Attribute) and isinstance(n.ctx, ast.Store) and dotted(n) == "self.ns":
                ns_stores.append(n)
    from ..core import dict_bindings

    evs = [c for c in calls_in(cm) if call_name(c) == "eval" and len(c.args) > 1]
    copies = False
    if evs:
        bases, _binds, copied = dict_bindings(cm, evs[0].args[1])
        copies = copied and any(dotted(b) == "self.ns" for b in bases)
    ctx.check(not ns_stores and bool(copies), "R10.2", "CompiledSelector.match:namespace-copy", "the compiled engine updates its shared namespace in place", cm,
              "ns = self.ns.copy() per match; self.ns never written outside __init__")

    # ------------------------------------------------------------------ R10.3 persistent writes on the match path
    ctx.rule("R10.3", "code on the match path writes no module-level or class-level container and no attribute other than the matcher's per-match state "
                      "and the reviewed per-selector caches; the record is never stored into")
    module_containers = {name for name, recs in sel.symbols.items() if any(r[0] == "assign" and isinstance(r[1], (ast.Dict, ast.List, ast.Set, ast.Call)) for r in recs)}
    n_scanned = 0
    # (the selector module, and the descriptor methods the matchers call for every record: Type.<t>, fields(...))
    base10 = prog.module("flow.record.base")
    module_containers |= {name for name, recs in base10.symbols.items() if any(r[0] == "assign" and isinstance(r[1], (ast.Dict, ast.List, ast.Set)) for r in recs)}
    rd10 = prog.cls("flow.record.base.RecordDescriptor")
    on_path = [f for f in ast.walk(sel.tree) if isinstance(f, ast.FunctionDef)] + [f for f in prog.methods_of(rd10).values() if f.name in ("getfields", "get_all_fields", "get_field_tuples", "fields")]
    for fn in on_path:
        owner = getattr(fn, "_parent", None)
        if fn.name == "__init__":
            continue
        n_scanned += 1
        fq = qualname_of(fn).replace("flow.record.selector.", "")
        declared_global = {g for n in ast.walk(fn) if isinstance(n, ast.Global) for g in n.names}
        local = set(func_params(fn)) | {t.id for n in ast.walk(fn) if isinstance(n, (ast.Assign, ast.For, ast.comprehension, ast.With))
                                        for t in ast.walk(n.targets[0] if isinstance(n, ast.Assign) else getattr(n, "target", n)) if isinstance(t, ast.Name) and isinstance(t.ctx, ast.Store)}
        for n in ast.walk(fn):
            tgt = None
            if isinstance(n, ast.Subscript) and isinstance(n.ctx, (ast.Store, ast.Del)) and isinstance(n.value, ast.Name):
                tgt = n.value.id
            elif isinstance(n, ast.Call) and isinstance(n.func, ast.Attribute) and isinstance(n.func.value, ast.Name) and \
                    n.func.attr in ("append", "update", "add", "extend", "setdefault", "insert", "pop", "clear", "remove"):
                tgt = n.func.value.id
            elif isinstance(n, ast.Name) and isinstance(n.ctx, ast.Store) and n.id in declared_global:
                tgt = n.id
            if tgt is not None and tgt in module_containers and (tgt not in local or tgt in declared_global):
                ctx.fail("R10.3", f"{fq}:writes-module-state:{tgt}", f"{fq} writes the module-level container `{tgt}` while matching: the result for one record can "
                         "depend on which records were matched before (e.g. a cache keyed more coarsely than what it caches)", n,
                         key=f"R10.3:{fq}:module-state:{tgt}")
            if isinstance(n, ast.Attribute) and isinstance(n.ctx, ast.Store) and isinstance(owner, ast.ClassDef):
                root = n.value
                while isinstance(root, ast.Attribute):
                    root = root.value
                if isinstance(root, ast.Name) and root.id in ("cls",) or (isinstance(n.value, ast.Attribute) and n.value.attr == "__class__") or \
                        (isinstance(n.value, ast.Call) and call_name(n.value) == "type"):
                    ctx.fail("R10.3", f"{fq}:writes-class-state:{n.attr}", f"{fq} stores class-level state `{norm(n)}` while matching", n, key=f"R10.3:{fq}:class-state:{n.attr}")
                if isinstance(n.value, ast.Name) and n.value.id == "self" and owner.name in ("Selector", "CompiledSelector", "WrappedRecord", "TypeMatcher", "TypeMatcherInstance"):
                    key = (qualname_of(owner), n.attr)
                    ctx.check(key in ALLOWED_PERSISTENT, "R10.3", f"{fq}:persistent-attribute:{n.attr}", f"{fq} stores self.{n.attr} on a long-lived object during matching "
                              "(not a reviewed cache)", n, ALLOWED_PERSISTENT.get(key, ""), key=f"R10.3:{fq}:persistent:{n.attr}")
        cached = [d for d in fn.decorator_list if "cache" in norm(d)]
        ctx.check(not cached, "R10.3", f"{fq}:memoised", f"{fq} is memoised with {[norm(d) for d in cached]}: results are shared across records", fn, "not memoised") if cached else None
    ctx.floor("R10.3", "functions scanned for persistent writes", n_scanned, 25)
    ctx.ok("R10.3", "selector:persistent-writes", f"{n_scanned} functions of selector.py scanned", sel.tree)
    wr = ctx.anchor_cls("flow.record.selector.WrappedRecord")
    ctx.check("__setattr__" not in prog.methods_of(wr) and "__delattr__" not in prog.methods_of(wr), "R10.3", "WrappedRecord:read-only",
              "WrappedRecord forwards attribute stores to the record", wr, "no __setattr__/__delattr__")
    for fn in [f for f in ast.walk(sel.tree) if isinstance(f, ast.FunctionDef)]:
        for c in calls_in(fn):
            if call_name(c) in ("setattr", "delattr"):
                ctx.fail("R10.3", f"{qualname_of(fn).replace('flow.record.selector.', '')}:{call_name(c)}", "selector code calls setattr/delattr", c,
                         key=f"R10.3:{qualname_of(fn)}:{call_name(c)}")

    # ------------------------------------------------------------------ R10.4 make_selector
    ctx.rule("R10.4", "make_selector: falsy -> None; text -> Selector / CompiledSelector(force_compiled); an existing selector object is returned unchanged, "
                      "except Selector -> CompiledSelector when force_compiled is set")
    ms = ctx.anchor_func("flow.record.selector.make_selector")
    p_sel, p_force = func_params(ms)[0], func_params(ms)[1]
    mscfg = CFG(ms)
    rets = [n for n in walk_no_nested(ms) if isinstance(n, ast.Return)]
    # result sites: assignments to the single returned variable, or the return statements themselves
    retvar = norm(rets[0].value) if len(rets) == 1 and isinstance(rets[0].value, ast.Name) and rets[0].value.id != p_sel else None
    sites = []
    if retvar is not None:
        for n in mscfg.stmt_nodes():
            if isinstance(n.ast, ast.Assign) and any(norm(t) == retvar for t in n.ast.targets):
                sites.append((n, n.ast.value))
    else:
        for n in mscfg.stmt_nodes():
            if isinstance(n.ast, ast.Return):
                sites.append((n, n.ast.value if n.ast.value is not None else ast.Constant(value=None)))
    ctx.floor("R10.4", "result sites of make_selector", len(sites), 3)
    from ..logic import facts_as_premises, implies, parse

    for n, v in sites:
        raw = mscfg.facts_at(n.id)
        facts = {(t, p) for t, p, _ in raw}
        prem = facts_as_premises(raw)
        under = {t for t, p in facts if p and t.startswith("isinstance(")}
        construct = f"make_selector:result = {norm(v)[:50]}"
        if norm(v) == p_sel:
            ctx.ok("R10.4", construct, "pass-through", n.ast)
            continue
        if isinstance(v, ast.Constant) and v.value is None:
            ctx.check(implies(prem, parse(f"not {p_sel}")), "R10.4", construct, "None is returned for a non-empty selector", n.ast, "None only for a falsy selector")
            continue
        # constructor calls: which engine, from what
        ctor_list = [(c, prog.resolve_expr(sel, c.func).qualname.split(".")[-1]) for c in ast.walk(v) if isinstance(c, ast.Call) and isinstance(prog.resolve_expr(sel, c.func), DefRef)
                     and prog.resolve_expr(sel, c.func).qualname in ("flow.record.selector.Selector", "flow.record.selector.CompiledSelector")]
        from_text = any("string_types" in t or ", str)" in t for t in under)
        from_obj = [t for t in under if "Selector)" in t]
        if from_text:
            # engine must follow force_compiled: CompiledSelector only if force_compiled holds, Selector only if it does not
            ok = bool(ctor_list)
            for c, eng in ctor_list:
                cprem = list(prem)
                par = getattr(c, "_parent", None)
                if isinstance(par, ast.IfExp):
                    cprem.append((par.test, par.body is c))
                if eng == "CompiledSelector":
                    ok &= implies(cprem, parse(p_force))
                else:
                    ok &= implies(cprem, parse(f"not {p_force}"))
            ctx.check(ok, "R10.4", construct, "text is not turned into Selector / CompiledSelector according to force_compiled", n.ast, "engine chosen by force_compiled")
        elif from_obj:
            forced = implies(prem, parse(p_force))
            to_compiled = bool(ctor_list) and all(eng == "CompiledSelector" for _, eng in ctor_list)
            src_cls = "CompiledSelector" if any("CompiledSelector)" in t for t in from_obj) else "Selector"
            ok = forced and to_compiled and src_cls == "Selector"
            ctx.check(ok, "R10.4", construct, f"a {src_cls} object is rebuilt as {norm(v)[:40]}" + ("" if forced else " although force_compiled is not set") +
                      ": the reader then filters with a different engine than the object the caller holds", n.ast, "Selector -> CompiledSelector only under force_compiled",
                      key=f"R10.4:make_selector:engine-changed:{src_cls}")
        else:
            ctx.fail("R10.4", construct, "result produced under an unrecognised condition", n.ast, key="R10.4:make_selector:unrecognised-branch")

    # ------------------------------------------------------------------ R10.5 the caller's engine is the one that filters
    ctx.rule("R10.5", "a reader turns the selector it was given into a selector object with make_selector(selector) and nothing else: forcing an engine "
                      "(force_compiled=True) replaces the caller's interpreted selector by the compiled one, and the two differ on membership tests with missing "
                      "fields and on attribute access to missing sub-fields - iterating with the selector then no longer equals filtering afterwards with it")
    n_ms = 0
    for mname4, mod4 in sorted(prog.modules.items()):
        if not (mname4.startswith("flow.record.adapter") or mname4 == "flow.record.stream"):
            continue
        for c4 in calls_in(mod4.tree, nested=True):
            if (call_name(c4) or "").split(".")[-1] != "make_selector":
                continue
            n_ms += 1
            forced = [k for k in c4.keywords if k.arg == "force_compiled" and not (isinstance(k.value, ast.Constant) and k.value.value is False)] + list(c4.args[1:])
            fn4 = enclosing_function(c4)
            ctx.check(not forced, "R10.5", f"{qualname_of(fn4).replace('flow.record.', '') if fn4 is not None else mname4}:make_selector", f"`{norm(c4)}` forces the selector engine", c4,
                      "make_selector(selector)", key=f"R10.5:{mname4.replace('flow.record.', '')}:selector-engine-forced")
    ctx.floor("R10.5", "make_selector calls in readers", n_ms, 4)

    # ------------------------------------------------------------------ R10.6 the compiled engine's helper objects keep nothing between records
    ctx.rule("R10.6", "CompiledSelector.match and the WrappedRecord it hands to the expression store nothing that outlives the match: no attribute store on the selector, no "
                      "fill of a container reachable from it (a per-selector cache of 'missing' names answers for the next record of the same name, whatever fields it has)")
    n_w = 0
    for q6 in ("flow.record.selector.CompiledSelector.match", "flow.record.selector.WrappedRecord.__getattr__", "flow.record.selector.WrappedRecord.__init__"):
        f6 = prog.find(q6, required=False)
        if f6 is None:
            continue
        n_w += 1
        me6 = func_params(f6)[0]
        is_init = f6.name == "__init__"
        for n in ast.walk(f6):
            bad = None
            if isinstance(n, ast.Attribute) and isinstance(n.ctx, ast.Store) and norm(n.value) == me6 and not is_init:
                bad = n
            if isinstance(n, ast.Subscript) and isinstance(n.ctx, ast.Store) and norm(n.value).startswith(me6 + "."):
                bad = n
            if isinstance(n, ast.Call) and isinstance(n.func, ast.Attribute) and n.func.attr in ("add", "update", "setdefault", "append", "__setitem__") and norm(n.func.value).startswith(me6 + "."):
                bad = n
            if bad is not None:
                ctx.fail("R10.6", f"{q6.split('selector.')[1]}:stores:{norm(bad)[:40]}", f"`{norm(bad)[:60]}` keeps state on the selector / its record wrapper across records", bad,
                         key=f"R10.6:{q6.split('selector.')[1]}:state-between-records")
        # a cache handed to the wrapper by the selector
        for c6 in calls_in(f6):
            r6 = prog.resolve_expr(prog.module("flow.record.selector"), c6.func) if isinstance(c6.func, ast.Name) else None
            if isinstance(r6, DefRef) and r6.qualname.endswith("WrappedRecord") and (len(c6.args) > 1 or c6.keywords):
                ctx.fail("R10.6", f"{q6.split('selector.')[1]}:WrappedRecord-arguments", f"`{norm(c6)[:60]}` hands the record wrapper more than the record: state shared between the wrappers of "
                         "successive records", c6, key="R10.6:WrappedRecord:shared-state-argument")
        ctx.ok("R10.6", f"{q6.split('selector.')[1]}:examined", "", f6)
    ctx.floor("R10.6", "compiled-engine helper methods examined", n_w, 2)

