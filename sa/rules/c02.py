"""C02 - Written bytes conform to the frozen RecordStream wire format."""
from __future__ import annotations

import ast
import struct

from ..cfg import CFG
from ..core import ordkey
from ..core import (AnalysisError, DefRef, NotConst, PartialRef, Ref, call_name, calls_in, dotted, func_params, get_kw, norm,
                    walk_no_nested, expand_aliases, single_assign_aliases)
from .c01 import check_pack_exclusion, tuple_arity
from .packer_common import PACK_ROLE_OF_CLASS, pack_branches, unpack_branches

PROPERTY = "C02"
EXPLANATION = (
    "The published format is a table of FORMAT FACTS (sa/spec: ext type 14; sub-types record=1 descriptor=2 datetime=0x10 "
    "varint=0x11 grouped=0x12; '>I' length prefix; magic; msgpack options; identifier hash = first 4 bytes big-endian of "
    "SHA-256 over name + sum(field name + field type); reserved fields and their order). Each fact is compared with the "
    "constant-folded value AT ITS POINT OF USE on both the writing and the reading side, with roles identified from what the "
    "branch does (not from constant names), so that a symmetric change of writer and reader - which every round-trip test "
    "survives - is caught (R2.1). R2.2 decides the dataflow of the identifier hash; R2.3 the reserved-field order; R2.4 the "
    "header depth; R2.5 that the compatibility branch for records with extra trailing metadata keeps exactly the declared "
    "values plus the original last (version) value and never raises on a non-integer version; R2.6 that the serialiser writes "
    "one value per slot (no configuration-dependent exclusion). NOT decided: that an independent decoder reads the bytes "
    "msgpack produces; golden corpus."
    " Also decided (rules added after the fifth blind round): (R2.7) every element typedlist._pack writes is the packed form of a value of the element type."
    " Rules added after the sixth blind round: (R2.8) RecordDescriptor._unpack hands name and field list to the constructor unchanged; (R2.9) no _pack method of a field type stores an attribute on the value it packs."
    " Rules added after the seventh blind round: (R2.10 = R3.8 of C03) GroupedRecord.__init__ appends a member and its descriptor as a pair, so the descriptor tuple a grouped record is packed with describes exactly its members."
    " Taken over at the end of the session: (R2.11 = R1.6 of C01) frame = length prefix of the body + exactly that body; (R2.12 = R5.9 of C05) the generated decoder never truth-tests a field value."
)
RULE_SUMMARY = "instances: format facts resolved at their points of use; non-trivial = required folding through names/partials or a dataflow walk"

SPEC = {
    "ext_type": 14,
    "subtypes": {"record": 1, "descriptor": 2, "datetime": 0x10, "varint": 0x11, "grouped": 0x12},
    "fieldtype_subtype_reserved": 3,
    "length_format": ">I",
    "magic": b"RECORDSTREAM\n",
    "packb_options": {"use_bin_type": True, "unicode_errors": "surrogateescape"},
    "unpackb_options": {"raw": False, "unicode_errors": "surrogateescape"},
    "hash": {"function": "hashlib.sha256", "prefix_bytes": 4, "byteorder": "big", "input": "name + for each field: field name then field type"},
    "reserved_fields": [("_source", "string"), ("_classification", "string"), ("_generated", "datetime"), ("_version", "varint")],
    "record_version": 1,
    "varint_byteorder": "big",
}


def linear(e, var):
    """(a, b) with e == a*var + b for integer-linear expressions in one name, else None."""
    if isinstance(e, ast.Name) and e.id == var:
        return (1, 0)
    if isinstance(e, ast.Constant) and isinstance(e.value, int):
        return (0, e.value)
    if isinstance(e, ast.BinOp) and isinstance(e.op, (ast.Add, ast.Sub)):
        l, r = linear(e.left, var), linear(e.right, var)
        if l is None or r is None:
            return None
        s = 1 if isinstance(e.op, ast.Add) else -1
        return (l[0] + s * r[0], l[1] + s * r[1])
    if isinstance(e, ast.UnaryOp) and isinstance(e.op, ast.USub):
        l = linear(e.operand, var)
        return None if l is None else (-l[0], -l[1])
    return None


def run(ctx):
    prog = ctx.prog
    packer_m = prog.module("flow.record.packer")
    base = prog.module("flow.record.base")
    stream_m = prog.module("flow.record.stream")
    ctx.use(packer_m, base, stream_m)
    ctx.extra["format_facts"] = {k: (v.decode("latin1") if isinstance(v, bytes) else v) for k, v in SPEC.items()}
    ctx.trust("the format facts table in sa/rules/c02.py transcribes the published record-stream format (README / frozen revision)")
    pack_obj = ctx.anchor_func("flow.record.packer.RecordPacker.pack_obj")
    unpack_obj = ctx.anchor_func("flow.record.packer.RecordPacker.unpack_obj")
    pack = ctx.anchor_func("flow.record.packer.RecordPacker.pack")
    unpack = ctx.anchor_func("flow.record.packer.RecordPacker.unpack")

    # ------------------------------------------------------------------ R2.1
    ctx.rule("R2.1", "every format constant folds, at its point of use on the writing and on the reading side, to the value of the format")
    n_facts = 0

    def fact(name, got, want, node, side):
        nonlocal n_facts
        n_facts += 1
        ctx.check(got == want, "R2.1", f"{name}:{side}", f"{name} on the {side} side is {got!r}; the format says {want!r}", node,
                  f"{got!r}", key=f"R2.1:{name}:{side}")
        ctx.sample({"rule": "R2.1", "fact": name, "side": side, "value": repr(got), "format": repr(want)})

    ext_calls = [c for c in calls_in(pack_obj) if isinstance(prog.resolve_expr(packer_m, c.func), Ref)
                 and prog.resolve_expr(packer_m, c.func).name == "msgpack.ExtType"]
    if not ext_calls:
        raise AnalysisError("R2.1: msgpack.ExtType(...) not found in pack_obj")
    for c in ext_calls:
        fact("ext_type", _fold(prog, packer_m, c.args[0]), SPEC["ext_type"], c, "write")
        inner = c.args[1]
        ok = isinstance(inner, ast.Call) and norm(inner.func) == "self.pack"
        ctx.check(ok, "R2.1", "ext_payload:write", "the extension payload is not self.pack((subtype, payload))", c, "payload = self.pack(packed)")
    tp = func_params(unpack_obj)[1]
    cmp_ext = [n for n in walk_no_nested(unpack_obj) if isinstance(n, ast.Compare) and norm(n.left) == tp]
    if not cmp_ext:
        raise AnalysisError("R2.1: ext type test not found in unpack_obj")
    fact("ext_type", _fold(prog, packer_m, cmp_ext[0].comparators[0]), SPEC["ext_type"], cmp_ext[0], "read")
    ctx.check(isinstance(cmp_ext[0].ops[0], ast.NotEq) and isinstance(getattr(cmp_ext[0], "_parent", None), ast.If) and
              isinstance(cmp_ext[0]._parent.body[-1], ast.Raise), "R2.1", "ext_type:read:rejects-others", "a foreign extension type is not rejected", cmp_ext[0],
              "other extension types raise")
    # sub-types by role
    for b in pack_branches(prog, pack_obj):
        role = PACK_ROLE_OF_CLASS.get(b.guard_cls)
        for st, sub, payload in b.subtype_exprs:
            if role is None:
                ctx.fail("R2.1", f"subtype:{b.guard_cls}:write", f"pack_obj packs {b.guard_cls}, which the format does not define", st,
                         key=f"R2.1:subtype:unknown-class:{b.guard_cls}")
                continue
            fact(f"subtype.{role}", _fold(prog, packer_m, sub), SPEC["subtypes"][role], st, "write")
    uvar, ubs = unpack_branches(prog, unpack_obj)
    roles_seen = set()
    for u in ubs:
        if u.role is None:
            ctx.fail("R2.1", f"subtype:{u.subtype_value:#x}:read", "cannot identify what this decoder branch decodes", u.if_node,
                     key=f"R2.1:subtype:unknown-branch:{u.subtype_value:#x}")
            continue
        roles_seen.add(u.role)
        fact(f"subtype.{u.role}", u.subtype_value, SPEC["subtypes"][u.role], u.if_node, "read")
    ctx.check(roles_seen == set(SPEC["subtypes"]), "R2.1", "subtypes:read:complete", f"decoder lacks {sorted(set(SPEC['subtypes']) - roles_seen)}", unpack_obj,
              "all five sub-types are decoded")
    # struct formats
    wr = ctx.anchor_func("flow.record.stream.RecordStreamWriter.write")
    rd = ctx.anchor_func("flow.record.stream.RecordStreamReader.read")
    from .frame_common import struct_sites

    for fn, kind, side in ((wr, "pack", "write"), (rd, "unpack", "read")):
        cs = struct_sites(prog, fn, kind)
        if not cs:
            raise AnalysisError(f"R2.1: length-prefix {kind} site not found in {fn.name}")
        fact("length_format", cs[0][1], SPEC["length_format"], cs[0][0], side)
    # magic
    fact("magic", _fold(prog, base, ast.parse("RECORDSTREAM_MAGIC").body[0].value), SPEC["magic"], None, "write")
    wh = ctx.anchor_func("flow.record.stream.RecordStreamWriter.writeheader")
    wcalls = [c for c in calls_in(wh) if norm(c.func) == "self.write"]
    ctx.check(len(wcalls) == 1 and _fold(prog, stream_m, wcalls[0].args[0]) == SPEC["magic"], "R2.1", "magic:header-frame", "the header frame does not carry the magic",
              wh, "header frame = write(RECORDSTREAM_MAGIC)")
    rh = ctx.anchor_func("flow.record.stream.RecordStreamReader.readheader")
    ends = [c for c in calls_in(rh) if isinstance(c.func, ast.Attribute) and c.func.attr == "endswith"]
    contains = [n for n in ast.walk(rh) if isinstance(n, ast.Compare) and isinstance(n.ops[0], (ast.In, ast.NotIn, ast.Eq, ast.NotEq))]
    tested = (bool(ends) and _fold(prog, stream_m, ends[0].args[0]) == SPEC["magic"]) or any(
        _try_fold(prog, stream_m, n.left) == SPEC["magic"] or _try_fold(prog, stream_m, n.comparators[0]) == SPEC["magic"] for n in contains)
    ctx.check(tested, "R2.1", "magic:read", "the reader does not test the header for the magic", rh, "header tested against RECORDSTREAM_MAGIC")
    # msgpack options
    for fname, spec_key, caller, hook_kw, hook_target in (("packb", "packb_options", pack, "default", "self.pack_obj"),
                                                           ("unpackb", "unpackb_options", unpack, "ext_hook", "self.unpack_obj")):
        v = _fold(prog, packer_m, ast.parse(fname).body[0].value)
        side = "write" if fname == "packb" else "read"
        if isinstance(v, PartialRef):
            ctx.check(isinstance(v.func, Ref) and v.func.name == f"msgpack.{fname}", "R2.1", f"{fname}:function", f"{fname} wraps {v.func}", None, f"msgpack.{fname}")
            opts = v.kw()
        elif isinstance(v, Ref) and v.name == f"msgpack.{fname}":
            opts = {}
        else:
            raise AnalysisError(f"R2.1: {fname} is {v!r}")
        cs = [c for c in calls_in(caller) if isinstance(c.func, ast.Name) and c.func.id == fname]
        if not cs:
            raise AnalysisError(f"R2.1: {fname}() call not found in RecordPacker.{caller.name}")
        call_kw = {}
        for k in cs[0].keywords:
            try:
                call_kw[k.arg] = prog.fold(packer_m, k.value)
            except NotConst:
                call_kw[k.arg] = norm(k.value)
        eff = dict(opts)
        eff.update(call_kw)
        for k, want in SPEC[spec_key].items():
            fact(f"{fname}.{k}", eff.get(k, "<library default>"), want, cs[0], side)
        hv = get_kw(cs[0], hook_kw)
        ctx.check(hv is not None and norm(hv) == hook_target, "R2.1", f"{fname}.{hook_kw}", f"{hook_kw} is {norm(hv) if hv is not None else None}", cs[0],
                  f"{hook_kw}={hook_target}")
        if fname == "unpackb":
            fact("unpackb.use_list", eff.get("use_list", "<library default>"), False, cs[0], "read")
    # varint: (sign flag, big-endian magnitude)
    tb = [c for c in calls_in(pack_obj) if isinstance(c.func, ast.Attribute) and c.func.attr == "to_bytes"]
    fb = [c for c in calls_in(unpack_obj) if norm(c.func) == "int.from_bytes"]
    if not tb or not fb:
        raise AnalysisError("R2.1: varint to_bytes / from_bytes not found")
    fact("varint.byteorder", _fold(prog, packer_m, tb[0].args[1] if len(tb[0].args) > 1 else get_kw(tb[0], "byteorder")), SPEC["varint_byteorder"], tb[0], "write")
    fact("varint.byteorder", _fold(prog, packer_m, fb[0].args[1] if len(fb[0].args) > 1 else get_kw(fb[0], "byteorder")), SPEC["varint_byteorder"], fb[0], "read")
    ctx.floor("R2.1", "format facts resolved", n_facts, 22)

    # ------------------------------------------------------------------ R2.2 identifier hash
    ctx.rule("R2.2", "identifier hash = int.from_bytes(sha256(name + sum(field name + field type)).digest()[:4], 'big'); the identifier is (name, hash)")
    ch = ctx.anchor_func("flow.record.base.RecordDescriptor.calc_descriptor_hash")
    p_name, p_fields = func_params(ch)[0], func_params(ch)[1]
    ret = [r for r in walk_no_nested(ch) if isinstance(r, ast.Return)]
    ok = False
    why = "return is not int.from_bytes(<digest>[:4], byteorder='big')"
    cal = single_assign_aliases(ch)
    rv = expand_aliases(ret[0].value, {k: v for k, v in cal.items() if not _is_text(v)}) if len(ret) == 1 and ret[0].value is not None else None
    hashed = None
    if isinstance(rv, ast.Call) and norm(rv.func) == "int.from_bytes":
        c = rv
        bo = get_kw(c, "byteorder") or (c.args[1] if len(c.args) > 1 else None)
        sub = c.args[0]
        if bo is not None and _fold(prog, base, bo) == "big" and isinstance(sub, ast.Subscript) and isinstance(sub.slice, ast.Slice) \
                and sub.slice.lower is None and sub.slice.step is None and sub.slice.upper is not None and _fold(prog, base, sub.slice.upper) == 4:
            dg = sub.value
            if isinstance(dg, ast.Call) and isinstance(dg.func, ast.Attribute) and dg.func.attr == "digest" and isinstance(dg.func.value, ast.Call):
                h = dg.func.value
                r = prog.resolve_expr(base, h.func)
                if isinstance(r, Ref) and r.name == "hashlib.sha256" and len(h.args) == 1:
                    ok = True
                    hashed = h.args[0]
                else:
                    why = f"hash function is {r}"
    ctx.check(ok, "R2.2", "calc_descriptor_hash:construction", why, ch, "sha256 -> digest()[:4] -> big-endian int", key="R2.2:calc_descriptor_hash:construction")
    if ok:
        order = hash_input_order(ch, hashed, p_name, p_fields)
        ctx.check(order == ["name", "field.name", "field.type"], "R2.2", "calc_descriptor_hash:input-order",
                  f"the hashed text is composed as {order}; the format hashes the descriptor name, then for each field its name followed by its type", ch,
                  "name, then per field: name + type", key="R2.2:calc_descriptor_hash:input-order")
    ident = ctx.anchor_func("flow.record.base.RecordDescriptor.identifier")
    r = [x for x in walk_no_nested(ident) if isinstance(x, ast.Return)]
    ctx.check(len(r) == 1 and isinstance(r[0].value, ast.Tuple) and [norm(e) for e in r[0].value.elts] == ["self.name", "self.descriptor_hash"], "R2.2",
              "RecordDescriptor.identifier", "identifier is not (name, hash)", ident, "(self.name, self.descriptor_hash)")
    dh = ctx.anchor_func("flow.record.base.RecordDescriptor.descriptor_hash")
    hc = [c for c in calls_in(dh) if isinstance(c.func, ast.Attribute) and c.func.attr == "calc_descriptor_hash"]
    ctx.check(bool(hc) and [norm(a) for a in hc[0].args] == ["self.name", "self._field_tuples"], "R2.2", "RecordDescriptor.descriptor_hash:arguments",
              "the hash is not computed from (self.name, self._field_tuples)", dh, "calc_descriptor_hash(self.name, self._field_tuples)")

    # ------------------------------------------------------------------ R2.3 / R2.4
    ctx.rule("R2.3", "RESERVED_FIELDS folds to the format's ordered list with _version last; RECORD_VERSION == 1")
    rf = _fold(prog, base, ast.parse("RESERVED_FIELDS").body[0].value)
    ctx.check(isinstance(rf, dict) and list(rf.items()) == SPEC["reserved_fields"], "R2.3", "RESERVED_FIELDS", f"reserved fields are {list(rf.items()) if isinstance(rf, dict) else rf}",
              None, "(_source, _classification, _generated, _version) in this order", key="R2.3:RESERVED_FIELDS:order")
    ctx.check(_fold(prog, base, ast.parse("RECORD_VERSION").body[0].value) == SPEC["record_version"], "R2.3", "RECORD_VERSION", "record version changed", None, "1")
    ctx.rule("R2.4", "header depth = 4 (length) + 2 (msgpack bin8 header for a 13-byte payload) + len(magic), on both the constant and the reader's read")
    depth = _fold(prog, base, ast.parse("RECORDSTREAM_MAGIC_DEPTH").body[0].value)
    want = struct.calcsize(SPEC["length_format"]) + 2 + len(SPEC["magic"])
    ctx.check(depth == want and len(SPEC["magic"]) <= 255, "R2.4", "RECORDSTREAM_MAGIC_DEPTH", f"depth constant is {depth}, the header frame is {want} bytes", None, f"{want}")
    reads = [c for c in calls_in(rh) if isinstance(c.func, ast.Attribute) and c.func.attr == "read"]
    ctx.check(bool(reads) and _fold(prog, stream_m, reads[0].args[0]) == want, "R2.4", "readheader:read-size", "the reader does not read exactly the header frame", rh,
              f"reads {want} bytes")

    # ------------------------------------------------------------------ R2.5 compatibility branch
    ctx.rule("R2.5", "a record with more values than declared+reserved is cut to exactly that many values, keeping the ORIGINAL last value as the "
                     "version; a missing / non-integer version only warns")
    rb = next((u for u in ubs if u.role == "record"), None)
    if rb is None:
        raise AnalysisError("R2.5: record branch not found")
    body = rb.if_node
    # expected_len
    exp = None
    # the descriptor of this record: the object whose recordType._unpack builds the result
    fin = [c for c in ast.walk(body) if isinstance(c, ast.Call) and isinstance(c.func, ast.Attribute) and c.func.attr == "_unpack" and isinstance(c.func.value, ast.Attribute)
           and c.func.value.attr == "recordType"]
    dvar = norm(fin[0].func.value.value) if fin else "desc"
    for st in ast.walk(body):
        if isinstance(st, ast.Assign) and isinstance(st.targets[0], ast.Name) and "len(RESERVED_FIELDS)" in norm(st.value) and "fields" in norm(st.value):
            exp = st.targets[0].id
            ctx.check(norm(st.value).replace(" ", "") in (f"len({dvar}.fields)+len(RESERVED_FIELDS)", f"len(RESERVED_FIELDS)+len({dvar}.fields)"), "R2.5", "unpack_obj:record:expected-length",
                      f"expected length is {norm(st.value)}", st, f"len({dvar}.fields) + len(RESERVED_FIELDS)")
    if exp is None:
        # the bound compared with len(values) is something else: name what it is
        vfin = norm(fin[0].args[0].value) if fin and fin[0].args and isinstance(fin[0].args[0], ast.Starred) else None
        guards5 = [st for st in ast.walk(body) if isinstance(st, ast.If) and isinstance(st.test, ast.Compare) and isinstance(st.test.left, ast.Call) and call_name(st.test.left) == "len"]
        bound = None
        for g5 in guards5:
            bname = norm(g5.test.comparators[0])
            bdefs = [st.value for st in ast.walk(body) if isinstance(st, ast.Assign) and norm(st.targets[0]) == bname]
            bound = norm(bdefs[0]) if bdefs else bname
        if bound is None:
            raise AnalysisError("R2.5: expected length computation not found")
        ctx.fail("R2.5", "unpack_obj:record:expected-length", f"the number of values a record is cut to is `{bound}`, not len(<this record's descriptor>.fields) + len(RESERVED_FIELDS): "
                 "a count taken from anywhere else (e.g. remembered per type NAME) belongs to another descriptor when two same-name types are in the stream - extra values are "
                 "stripped or kept wrongly", guards5[0], key="R2.5:unpack_obj:record:expected-length-source")
        return
    ver = None
    valvar = None
    for st in ast.walk(body):
        if isinstance(st, ast.Assign) and isinstance(st.targets[0], ast.Name) and isinstance(st.value, ast.Subscript) \
                and isinstance(st.value.slice, ast.UnaryOp) and norm(st.value.slice) == "-1":
            ver, valvar = st.targets[0].id, norm(st.value.value)
            ver_stmt = st
    if ver is None:
        raise AnalysisError("R2.5: `version = values[-1]` not found")
    # the names that hold the value list: plain copies of one another (an extracted helper's parameter and result are copies of the caller's list)
    vclass = {valvar}
    grew = True
    while grew:
        grew = False
        for st in ast.walk(body):
            if isinstance(st, ast.Assign) and len(st.targets) == 1 and isinstance(st.targets[0], ast.Name) and isinstance(st.value, ast.Name) \
                    and (st.targets[0].id in vclass) != (st.value.id in vclass):
                vclass |= {st.targets[0].id, st.value.id}
                grew = True

    def _is_cut(v):
        if isinstance(v, ast.BinOp) and isinstance(v.op, ast.Add) and isinstance(v.right, ast.Tuple):
            v = v.left
        return isinstance(v, ast.Subscript) and isinstance(v.slice, ast.Slice) and v.slice.lower is None and v.slice.step is None and v.slice.upper is not None and norm(v.value) in vclass

    cuts = [st for st in ast.walk(body) if isinstance(st, ast.Assign) and len(st.targets) == 1 and norm(st.targets[0]) in vclass and _is_cut(st.value)]
    from ..core import enclosing_function as _ef5
    from .. import logic as _lg5
    fn5 = _ef5(body) or unpack_obj
    cfg5 = CFG(fn5)
    guarded = []
    for ct in cuts:
        prem5 = _lg5.facts_as_premises(cfg5.facts_at(cfg5.node_of(ct).id))
        if any(_lg5.implies(prem5, _lg5.parse(f"len({y}) > {exp}")) for y in sorted(vclass)):
            guarded.append(ct)
    ctx.check(len(cuts) == 1 and len(guarded) == 1, "R2.5", "unpack_obj:record:truncation-guard", f"the value list is not cut exactly once, on the paths where `len({valvar}) > {exp}` holds "
              f"({len(cuts)} cut(s), {len(guarded)} under that fact)", body, "guard present", key="R2.5:truncation-guard")
    if guarded:
        cut = guarded[0]
        blk5 = next((getattr(par, attr) for par in ast.walk(fn5) for attr in ("body", "orelse", "finalbody") if isinstance(getattr(par, attr, None), list) and cut in getattr(par, attr)), [cut])
        kept = None
        appended = 0
        appended_is_version = True
        for st in blk5[blk5.index(cut):]:
            if isinstance(st, ast.Assign) and norm(st.targets[0]) in vclass and not isinstance(st.value, ast.Name):
                v = st.value
                extra = 0
                if isinstance(v, ast.BinOp) and isinstance(v.op, ast.Add) and isinstance(v.right, ast.Tuple):
                    extra = len(v.right.elts)
                    appended_is_version &= all(norm(e) == ver for e in v.right.elts)
                    v = v.left
                if isinstance(v, ast.Subscript) and isinstance(v.slice, ast.Slice) and v.slice.lower is None and v.slice.step is None and norm(v.value) in vclass:
                    kept = linear(v.slice.upper, exp)
                    appended += extra
            elif isinstance(st, ast.AugAssign) and norm(st.target) in vclass and isinstance(st.op, ast.Add) and isinstance(st.value, ast.Tuple):
                appended += len(st.value.elts)
                appended_is_version &= all(norm(e) == ver for e in st.value.elts)
        ok = kept is not None and kept[0] == 1 and kept[1] + appended == 0 and appended == 1 and appended_is_version and ordkey(ver_stmt) < ordkey(cut)
        ctx.check(ok, "R2.5", "unpack_obj:record:truncation",
                  f"after truncation the record keeps {exp}{kept[1]:+d} leading value(s) plus {appended} appended value(s)" if kept else "truncation shape not recognised" +
                  "; the format requires the declared+reserved leading values with the ORIGINAL last value as version (an extra metadata value would "
                  "land in the version slot)", cut, f"values[:{exp}-1] + (original last value,)", key="R2.5:unpack_obj:record:truncation-count")
    # no raise between descriptor lookup and _unpack except descriptor-not-found
    raises = [n for n in ast.walk(body) if isinstance(n, ast.Raise)]
    ok = all("NotFound" in norm(r) for r in raises)
    ctx.check(ok, "R2.5", "unpack_obj:record:version-only-warns", "a record without (or with another) version raises instead of warning", body, "only RecordDescriptorNotFound raises")
    ctx.check(any(call_name(c) == "warnings.warn" for c in ast.walk(body) if isinstance(c, ast.Call)), "R2.5", "unpack_obj:record:warns", "no warning for old-style records", body, "warns")
    # grouped records / descriptors written unversioned? (pack side passes unversioned through)
    ctx.rule("R2.6", "the serialiser writes one value per slot: Record._pack excludes values only for explicit arguments, and pack_obj passes none besides `unversioned`")
    check_pack_exclusion(ctx, "R2.6")
    for b in pack_branches(prog, pack_obj):
        for c in [x for x in ast.walk(b.if_node) if isinstance(x, ast.Call) and isinstance(x.func, ast.Attribute) and x.func.attr == "_pack"
                  and x in [y for s0 in b.if_node.body for y in ast.walk(s0)]]:
            kws = {k.arg for k in c.keywords}
            ctx.check(kws <= {"unversioned"} and not c.args, "R2.6", f"pack_obj:{b.guard_cls.split('.')[-1]}:_pack-arguments",
                      f"the serialiser calls _pack with {sorted(kws)}", c, f"_pack({', '.join(sorted(kws))})")

    # ------------------------------------------------------------------ R2.7 elements of typed lists
    from .packer_common import check_typedlist_pack
    check_typedlist_pack(ctx, "R2.7")




    # ------------------------------------------------------------------ R2.8 a descriptor frame is taken as it is written
    ctx.rule("R2.8", "RecordDescriptor._unpack hands the name and the field list of the frame to the constructor unchanged: record frames carry the identifier "
                     "computed by the WRITER over the definition as written, so a reader that rewrites type names (alias upgrades, normalisation) computes "
                     "another identifier and cannot find the descriptor of the records that follow")
    du8 = ctx.anchor_func("flow.record.base.RecordDescriptor._unpack")
    dp8 = func_params(du8)
    rets8 = [r for r in walk_no_nested(du8) if isinstance(r, ast.Return) and r.value is not None]
    ctx.floor("R2.8", "returns of RecordDescriptor._unpack", len(rets8), 1)
    for rt in rets8:
        v = rt.value
        okv = isinstance(v, ast.Call) and [norm(a) for a in v.args] == dp8[-2:] and not v.keywords and norm(v.func) in ("RecordDescriptor", "cls", dp8[0])
        ctx.check(okv, "R2.8", "RecordDescriptor._unpack:arguments", f"`return {norm(v)[:70]}` does not pass ({', '.join(dp8[-2:])}) through unchanged", rt,
                  f"RecordDescriptor({', '.join(dp8[-2:])})", key="R2.8:RecordDescriptor._unpack:definition-rewritten")

    # ------------------------------------------------------------------ R2.9 the packed form is computed from the current state
    ctx.rule("R2.9", "no _pack method of a field type stores an attribute on the value it packs (a cached packed form goes stale when a setter changes the value: the second "
                     "write of the record then carries the old bytes while the record reports the new value)")
    n9 = 0
    for mname9, mod9 in sorted(prog.modules.items()):
        if not mname9.startswith("flow.record.fieldtypes"):
            continue
        for c9 in [n for n in ast.walk(mod9.tree) if isinstance(n, ast.ClassDef)]:
            pk9 = prog.methods_of(c9).get("_pack")
            if pk9 is None:
                continue
            n9 += 1
            me9 = func_params(pk9)[0] if func_params(pk9) else "self"
            st9 = [n for n in ast.walk(pk9) if isinstance(n, ast.Attribute) and isinstance(n.ctx, (ast.Store, ast.Del)) and isinstance(n.value, ast.Name) and n.value.id == me9]
            ctx.check(not st9, "R2.9", f"{c9.name}._pack:stateless", f"{c9.name}._pack stores `{norm(st9[0]) if st9 else ''}`: the written form can come from a cache instead of the current value", st9[0] if st9 else pk9,
                      "no attribute store in _pack", key=f"R2.9:{c9.name}._pack:caches-packed-form")
    ctx.floor("R2.9", "_pack methods of field types", n9, 8)

    # ------------------------------------------------------------------ R2.10 (sibling rule) every member of a group gets its descriptor frame
    ctx.import_rule("C03", "R3.8", "R2.10", "the bytes of a grouped record reference the identifier of every member: each member's descriptor is in the list the packer emits frames from")
    ctx.import_rule("C01", "R1.6", "R2.11", "the frame is the 4-byte big-endian length of the body followed by exactly that body: the same statement as the writer side of the published format")
    ctx.import_rule("C05", "R5.9", "R2.12", "a conforming stream is read back as the records it encodes: the generated decoder never truth-tests a field value, so 0, '' and False are not read as None")



def _try_fold(prog, module, e):
    try:
        return prog.fold(module, e)
    except NotConst:
        return None


def _fold(prog, module, e):
    if e is None:
        return None
    try:
        return prog.fold(module, e)
    except NotConst as ex:
        raise AnalysisError(f"constant {norm(e)} does not fold ({ex})")


def _is_text(v) -> bool:
    """Local that holds (part of) the hashed text rather than a hash object / digest."""
    return isinstance(v, (ast.JoinedStr, ast.BinOp, ast.Constant, ast.List, ast.ListComp, ast.GeneratorExp)) or (
        isinstance(v, ast.Call) and isinstance(v.func, ast.Attribute) and v.func.attr in ("join", "format"))


def hash_input_order(fn, hashed, p_name, p_fields):
    """Order of the parts of the text that is hashed (the argument of sha256, `.encode()` stripped)."""
    from ..strsym import flatten_order, text_structure

    src = hashed
    if isinstance(src, ast.Call) and isinstance(src.func, ast.Attribute) and src.func.attr == "encode":
        src = src.func.value
    return flatten_order(text_structure(fn, src), p_name, p_fields)


