"""C12 - Record equality and hashing obey the value-object contract."""
from __future__ import annotations

import ast

from ..cfg import CFG
from ..core import ordkey
from ..core import (AnalysisError, DefRef, NotConst, Ref, call_name, calls_in, dotted, enclosing_function, func_params, get_kw,
                    norm, qualname_of, walk_no_nested)
from ..shapes import Shapes, fmt, list_depths
from .c08 import concrete_field_kinds

PROPERTY = "C12"
EXPLANATION = (
    "Decides: (R12.1) every override of _pack/_replace/_asdict in a Record subclass accepts the call shapes used on an "
    "arbitrary Record receiver inside Record's own methods (class-hierarchy analysis of positional counts and keyword names) - "
    "otherwise ==/hash raise TypeError for that subclass; (R12.2) __eq__ and __hash__ derive from the same projection: both "
    "call self._pack with identical arguments that read the module global at call time, and no subclass overrides only one of "
    "them; (R12.3) the hash normaliser is closed over the nesting shapes that _pack() of every whitelisted field type can "
    "produce (shape evaluation of all _pack methods vs. the depth the normaliser handles); (R12.4) __eq__ returns False for a "
    "non-Record before touching it; (R12.5) the scoped override saves the previous configuration before overriding, re-"
    "installs exactly the saved value in a finally that covers the yield, and the saved value cannot be mutated through the "
    "setter (the setter rebinds a fresh object; no in-place mutation of the configuration object anywhere). NOT decided: "
    "reflexivity/symmetry on values with unusual __eq__ (NaN), equality of hashes for dicts that differ only in insertion order."
    " Also decided (rules added after the fifth blind round): (R12.7) every element typedlist._pack writes is the packed form of a value of the element type, so equal lists pack (compare, hash) equally."
)
RULE_SUMMARY = "instances: (call site, override) pairs, field-type pack shapes, returns/uses, save/restore pairs; non-trivial = shape or path computed"


def accepts(fn: ast.FunctionDef, n_pos: int, kw_names: list[str], bound=True):
    a = fn.args
    params = [x.arg for x in a.posonlyargs + a.args]
    if bound:
        params = params[1:]
    n_defaults = len(a.defaults)
    required = params[: len(params) - n_defaults] if n_defaults else list(params)
    kwonly = [x.arg for x in a.kwonlyargs]
    kwonly_required = [x.arg for x, d in zip(a.kwonlyargs, a.kw_defaults) if d is None]
    if n_pos > len(params) and not a.vararg:
        return False, f"takes at most {len(params)} positional argument(s), {n_pos} given"
    for k in kw_names:
        if k not in params and k not in kwonly and not a.kwarg:
            return False, f"got an unexpected keyword argument '{k}'"
        if k in params[:n_pos]:
            return False, f"multiple values for argument '{k}'"
    given = set(params[:n_pos]) | set(kw_names)
    missing = [p for p in required if p not in given] + [p for p in kwonly_required if p not in given]
    if missing:
        return False, f"missing required argument(s) {missing}"
    return True, ""


def run(ctx):
    prog = ctx.prog
    base = prog.module("flow.record.base")
    ctx.use(base)
    rec = ctx.anchor_cls("flow.record.base.Record")
    subs = prog.subclasses(rec)
    ctx.trust("equal tuples of equal components have equal hashes (Python); record classes generated from the template do not "
              "define _pack/__eq__/__hash__ themselves (checked on the template text)")
    # the generated record classes must not override the methods under analysis
    tmpl = prog.fold(base, ast.parse("RECORD_CLASS_TEMPLATE").body[0].value)
    for m in ("def _pack", "def __eq__", "def __hash__", "def _asdict", "def _replace"):
        ctx.check(m not in tmpl, "R12.1", f"RECORD_CLASS_TEMPLATE:{m[4:]}", f"generated record classes override {m[4:]}", None,
                  f"generated classes inherit {m[4:]} from Record")

    # ------------------------------------------------------------------ R12.1
    ctx.rule("R12.1", "every override of a Record method accepts the argument shapes with which Record's own methods call it on "
                      "an arbitrary Record (self / other / member records)")
    rec_methods = prog.methods_of(rec)
    n_pairs = 0
    scopes = [(rec, fn) for fn in rec_methods.values()]
    for s in subs:
        scopes += [(s, fn) for fn in prog.methods_of(s).values()]
    for owner, fn in scopes:
        params = func_params(fn)
        selfname = params[0] if params else None
        # receivers known to be Records: self, parameters narrowed by isinstance(x, Record), loop vars over self.records
        recvs = {selfname}
        for n in ast.walk(fn):
            if isinstance(n, ast.Call) and call_name(n) == "isinstance" and len(n.args) == 2 and isinstance(n.args[0], ast.Name):
                r = prog.resolve_expr(base, n.args[1])
                if isinstance(r, DefRef) and r.node is rec:
                    recvs.add(n.args[0].id)
            if isinstance(n, (ast.For, ast.comprehension)) and norm(n.iter) in (f"{selfname}.records",) and isinstance(n.target, ast.Name):
                recvs.add(n.target.id)
        for c in calls_in(fn, nested=True):
            if not (isinstance(c.func, ast.Attribute) and isinstance(c.func.value, ast.Name) and c.func.value.id in recvs):
                continue
            m = c.func.attr
            if m not in rec_methods or m.startswith("__") and m not in ("__eq__", "__hash__"):
                continue
            if any(isinstance(a, ast.Starred) for a in c.args) or any(k.arg is None for k in c.keywords):
                continue
            n_pos = len(c.args)
            kws = [k.arg for k in c.keywords]
            targets = [rec] + subs if owner is rec else [owner] + prog.subclasses(owner)
            if c.func.value.id != selfname or owner is rec:
                # `other` / member records may be of any Record class
                targets = [rec] + subs
            for t in targets:
                impl = prog.methods_of(t).get(m)
                if impl is None:
                    continue
                n_pairs += 1
                ok, why = accepts(impl, n_pos, kws)
                tname = qualname_of(t).replace("flow.record.base.", "")
                ctx.check(ok, "R12.1", f"{qualname_of(fn).replace('flow.record.base.', '')}:{norm(c.func)}({', '.join(['_'] * n_pos + [k + '=' for k in kws])})->{tname}.{m}",
                          f"{tname}.{m}() {why}: the call raises TypeError when the receiver is a {tname}", c,
                          f"{tname}.{m} accepts the call", key=f"R12.1:{tname}.{m}:rejects:{','.join(kws) or n_pos}")
    ctx.floor("R12.1", "(call site, implementation) pairs", n_pairs, 8)
    # an override of _pack that delegates to member records hands BOTH parameters on: dropping excluded_fields makes grouped records ignore the
    # ignored-fields configuration while plain records honour it
    for sub in prog.subclasses(rec):
        opk = prog.methods_of(sub).get("_pack")
        if opk is None:
            continue
        oparams = func_params(opk)[1:]
        for c in [c for c in calls_in(opk) if isinstance(c.func, ast.Attribute) and c.func.attr == "_pack" and not (isinstance(c.func.value, ast.Call) and call_name(c.func.value) == "super")]:
            passed = {norm(a) for a in c.args} | {norm(k.value) for k in c.keywords}
            missing = [p_ for p_ in oparams if p_ not in passed]
            ctx.check(not missing, "R12.1", f"{qualname_of(opk).replace('flow.record.base.', '')}:forwards->{norm(c.func)[:30]}",
                      f"`{norm(c)[:70]}` does not pass on {missing}: the members are packed with other arguments than the grouped record was asked for - == and hash of grouped records "
                      "ignore the ignored-fields configuration", c, f"forwards {oparams}", key=f"R12.1:{qualname_of(opk)}:drops:{','.join(missing)}")

    # ------------------------------------------------------------------ R12.2
    ctx.rule("R12.2", "__eq__ and __hash__ are computed from self._pack(<same arguments>) and the arguments read the module "
                      "global IGNORE_FIELDS_FOR_COMPARISON at call time; subclasses do not override only one of them")
    eq = rec_methods.get("__eq__")
    hs = rec_methods.get("__hash__")
    if eq is None or hs is None:
        ctx.fail("R12.2", "Record:__eq__/__hash__", "Record does not define both __eq__ and __hash__", rec, key="R12.2:Record:missing-eq-or-hash")
        raise AnalysisError("R12.2: cannot continue without __eq__/__hash__")
    def pack_calls(fn):
        return [c for c in calls_in(fn) if isinstance(c.func, ast.Attribute) and c.func.attr == "_pack"]
    eqc, hc = pack_calls(eq), pack_calls(hs)
    def argsig(c):
        from ..core import enclosing_function, expand_aliases, single_assign_aliases

        al = single_assign_aliases(enclosing_function(c))
        return (tuple(norm(expand_aliases(a, al)) for a in c.args), tuple(sorted((k.arg, norm(expand_aliases(k.value, al))) for k in c.keywords)))
    ctx.check(len(eqc) == 2 and len({argsig(c) for c in eqc}) == 1, "R12.2", "Record.__eq__:projection",
              "__eq__ does not compare self._pack(A) with other._pack(A) for one argument list A", eq,
              f"compares _pack{argsig(eqc[0]) if eqc else ''} of both operands")
    # equality is decided by the projection alone: every other return of __eq__ is the non-Record refusal
    from .. import logic as _lg
    from ..core import expand_aliases as _ea, single_assign_aliases as _saa

    ecfg = CFG(eq)
    e_other = func_params(eq)[1]
    e_al = _saa(eq)
    for rt in [n for n in walk_no_nested(eq) if isinstance(n, ast.Return)]:
        prem = _lg.facts_as_premises(ecfg.facts_at(ecfg.node_of(rt).id))
        non_record = any(_lg.implies(prem, _lg.parse(f"not isinstance({e_other}, {cn})")) for cn in ("Record", "GroupedRecord", "(Record, GroupedRecord)"))
        v = _ea(rt.value, e_al) if rt.value is not None else None
        by_projection = isinstance(v, ast.Compare) and len(v.ops) == 1 and isinstance(v.ops[0], ast.Eq) and all(
            isinstance(x, ast.Call) and isinstance(x.func, ast.Attribute) and x.func.attr == "_pack" for x in (v.left, v.comparators[0]))
        shown = sorted(norm(e0) + ("" if p0 else " is false") for e0, p0 in prem)
        ctx.check(non_record or by_projection, "R12.2", f"Record.__eq__:return {norm(rt.value)[:30] if rt.value is not None else ''}@{'/'.join(shown)[:50]}",
                  f"__eq__ returns `{norm(rt.value) if rt.value is not None else None}` under {shown} without comparing the packed projections: records with the same descriptor "
                  "(name and fields) and equal values can compare unequal (e.g. a rebuilt copy whose descriptor object is a different instance) while their hashes are equal", rt,
                  "returns either the non-Record refusal or the comparison of both projections", key="R12.2:Record.__eq__:decided-outside-projection")
    # helpers on the hash path (the normaliser) must not re-pack nested records with other arguments than __eq__ uses
    seen_h, work_h = set(), [hs]
    while work_h:
        f0 = work_h.pop()
        if id(f0) in seen_h:
            continue
        seen_h.add(id(f0))
        for c in calls_in(f0):
            r0 = prog.resolve_expr(f0._module, c.func) if isinstance(c.func, ast.Name) else None
            if isinstance(r0, DefRef) and isinstance(r0.node, ast.FunctionDef) and r0.node._module is f0._module:
                work_h.append(r0.node)
            if isinstance(c.func, ast.Attribute) and c.func.attr == "_pack" and f0 is not hs and eqc:
                ctx.check(argsig(c) == argsig(eqc[0]), "R12.2", f"{qualname_of(f0).replace('flow.record.base.', '')}:_pack{argsig(c)}",
                          f"`{norm(c)}` on the hash path packs a (nested) record with other arguments than __eq__ uses {argsig(eqc[0])}: ignored fields of nested records count for the "
                          "hash but not for equality - equal records get different hashes", c, "same projection as __eq__", key="R12.2:hash-path:other-projection")
    ctx.check(len(hc) >= 1, "R12.2", "Record.__hash__:projection",
              "__hash__ is not computed from self._pack(...): equal records (by packed value) need not have equal hashes, and field "
              "values that define __eq__ without __hash__ make hash() raise", hs, "hash derives from self._pack(...)",
              key="R12.2:Record.__hash__:not-from-pack")
    if eqc and hc:
        ctx.check(argsig(eqc[0]) == argsig(hc[0]), "R12.2", "Record:eq-hash-same-arguments",
                  f"__eq__ packs with {argsig(eqc[0])} but __hash__ with {argsig(hc[0])}: equal records can hash differently", hs,
                  f"both use _pack{argsig(hc[0])}", key="R12.2:Record:eq-hash-argument-mismatch")
        pk_fn = rec_methods.get("_pack")
        for c, who in ((eqc[0], "__eq__"), (hc[0], "__hash__")):
            from ..core import expand_aliases, single_assign_aliases

            al = single_assign_aliases(eq if who == "__eq__" else hs)
            names = {n.id for k in c.keywords for n in ast.walk(expand_aliases(k.value, al)) if isinstance(n, ast.Name)} | \
                {n.id for a in c.args for n in ast.walk(expand_aliases(a, al)) if isinstance(n, ast.Name)}
            glob = [n for n in names if prog.resolve_global(base, n) is not None]
            local_shadow = [n for n in glob if n in func_params(eq if who == "__eq__" else hs)]
            ok = bool(glob) and not local_shadow
            how = f"reads global {glob} at call time"
            if not glob and pk_fn is not None:
                # the configuration may be read inside _pack's BODY (call time); a read in a parameter DEFAULT is evaluated once at import
                body_reads = [n.id for st in pk_fn.body for n in ast.walk(st) if isinstance(n, ast.Name) and n.id.isupper() and prog.resolve_global(base, n.id) is not None]
                default_reads = [n.id for d in pk_fn.args.defaults + [x for x in pk_fn.args.kw_defaults if x is not None] for n in ast.walk(d)
                                 if isinstance(n, ast.Name) and prog.resolve_global(base, n.id) is not None]
                ok = bool(body_reads) and not default_reads
                how = f"_pack reads {body_reads} in its body at call time" if ok else f"configuration captured in a parameter default {default_reads}"
            ctx.check(ok, "R12.2", f"Record.{who}:reads-global", "the ignored-fields configuration is not read from the module global at call time (" + how + ")",
                      c, how)
        # everything between _pack and hash() must be a function of the packed value only
        other_reads = [n for n in ast.walk(hs) if isinstance(n, ast.Call) and call_name(n) in ("getattr", "vars", "id")]
        ctx.check(not other_reads, "R12.2", "Record.__hash__:only-packed", "__hash__ reads record state outside the packed projection", hs,
                  "no reads besides the packed projection")
    for s in subs:
        ms = prog.methods_of(s)
        both = ("__eq__" in ms) == ("__hash__" in ms)
        ctx.check(both, "R12.2", f"{qualname_of(s).replace('flow.record.base.', '')}:eq-hash-pair", "overrides only one of __eq__/__hash__", s,
                  "overrides both or neither")
        if "__hash__" in ms:
            ctx.check(bool(pack_calls(ms["__hash__"])), "R12.2", f"{qualname_of(s).replace('flow.record.base.', '')}.__hash__:projection",
                      "subclass __hash__ is not computed from _pack(...)", ms["__hash__"], "derives from _pack",
                      key=f"R12.2:{qualname_of(s)}.__hash__:not-from-pack")

    # ------------------------------------------------------------------ R12.3
    ctx.rule("R12.3", "the packed shape of every whitelisted field type, after the normalisation __hash__ applies, contains no "
                      "list/dict: either the normaliser is recursive over list/tuple/dict, or no shape nests deeper than it handles")
    sh = Shapes(prog)
    kinds = concrete_field_kinds(ctx)
    ctx.floor("R12.3", "field-type classes with evaluated pack shapes", len(kinds), 20)
    recursive, handles = normaliser_capability(prog, base, hs)
    ctx.sample({"rule": "R12.3", "normaliser": "recursive" if recursive else f"handles depth {handles}"})
    for q, ref in sorted(kinds.items()):
        if ref.node is rec:
            continue  # nested records are not packed by Record._pack: they are hashed through their own __hash__
        s = sh.pack_shape(ref.node)
        if s is None:
            continue
        if s == ("self",):
            s = sh.self_shape(ref.node)
        # depth inside the field value (the value sits at depth 1 of the values tuple)
        nested = [(k, d) for k, d in list_depths(s) if k in ("list", "dict") and d >= 1]
        kname = q.replace("flow.record.fieldtypes.", "").replace("flow.record.base.", "")
        ctx.sample({"rule": "R12.3", "type": kname, "pack_shape": fmt(s)})
        if recursive:
            ctx.ok("R12.3", f"{kname}:pack-shape", f"shape {fmt(s)}; normaliser is recursive", ref.node)
        else:
            ctx.check(not nested, "R12.3", f"{kname}:pack-shape",
                      f"_pack() of {kname} has shape {fmt(s)} with a {nested[0][0] if nested else ''} nested below the level the "
                      "normaliser in __hash__ converts: hash() of a record holding such a value raises TypeError", ref.node,
                      f"shape {fmt(s)} is within the normaliser's reach", key=f"R12.3:{kname}:unhashable-packed-shape")
    # grouped records nest member value tuples one level deeper
    grp = prog.cls("flow.record.base.GroupedRecord")
    gs = sh.pack_shape(grp)
    if not recursive:
        ctx.fail("R12.3", "GroupedRecord:pack-shape", f"grouped records pack to {fmt(gs)}: member list values sit two levels below the "
                 "top and a non-recursive normaliser leaves them unhashable", grp, key="R12.3:GroupedRecord:unhashable-packed-shape")
    else:
        ctx.ok("R12.3", "GroupedRecord:pack-shape", f"shape {fmt(gs)}; normaliser is recursive", grp)

    # ------------------------------------------------------------------ R12.6 dict normalisation is order-insensitive
    ctx.rule("R12.6", "where the hash normalisation converts a dict, the result does not depend on the dict's insertion order (frozenset / sorted of the items): "
                      "dicts compare equal regardless of key order, so an order-sensitive conversion gives equal records different hashes")
    scopes = [hs]
    for c in calls_in(hs):
        r = prog.resolve_expr(base, c.func) if isinstance(c.func, (ast.Name, ast.Attribute)) else None
        if isinstance(r, tuple) and len(r) == 3 and isinstance(r[1], ast.AST):
            r = prog.resolve_expr(base, r[1]) if isinstance(r[1], (ast.Name, ast.Attribute)) else r
        if isinstance(r, DefRef) and isinstance(r.node, ast.FunctionDef):
            scopes.append(r.node)
    n_conv = 0
    for fn in scopes:
        for c in calls_in(fn, nested=True):
            if call_name(c) not in ("tuple", "list", "frozenset", "sorted", "set"):
                continue
            inner = c.args[0] if c.args else None
            if inner is None or not any(isinstance(x, ast.Call) and isinstance(x.func, ast.Attribute) and x.func.attr == "items" for x in ast.walk(inner)):
                continue
            # only the outermost conversion of an .items() view counts
            par = getattr(c, "_parent", None)
            if isinstance(par, ast.Call) and call_name(par) in ("tuple", "list", "frozenset", "sorted", "set") and c in par.args:
                continue
            n_conv += 1
            order_free = call_name(c) in ("frozenset", "set") or (call_name(c) in ("tuple", "list") and isinstance(inner, ast.Call) and call_name(inner) == "sorted")
            ctx.check(order_free, "R12.6", f"{fn.name}:dict-conversion", f"`{norm(c)[:70]}` keeps the dict's insertion order: two records whose dict values have the same content in a "
                      "different key order compare equal but hash differently", c, "order-insensitive conversion", key="R12.6:hash:dict-conversion-order-sensitive")
    ctx.floor("R12.6", "dict conversions in the hash normalisation", n_conv, 1)

    # ------------------------------------------------------------------ R12.4
    ctx.rule("R12.4", "__eq__ returns False for a non-Record operand before using it")
    cfg = CFG(eq)
    other = func_params(eq)[1]
    uses = [n for n in ast.walk(eq) if isinstance(n, ast.Name) and n.id == other and isinstance(n.ctx, ast.Load)]
    n_checked = 0
    for u in uses:
        par = getattr(u, "_parent", None)
        if isinstance(par, ast.Call) and call_name(par) == "isinstance":
            continue
        node = cfg.header_node_for_expr(u) or cfg.node_of(u)
        facts = {(t, p) for t, p, _ in cfg.facts_at(node.id)}
        n_checked += 1
        ctx.check((f"isinstance({other}, Record)", True) in facts, "R12.4", f"Record.__eq__:use-of-{other}@{norm(par)[:40]}",
                  "the other operand is used on a path where it may not be a Record (== can raise instead of returning False)", u,
                  "guarded by isinstance(other, Record)")
    ctx.floor("R12.4", "uses of the other operand in __eq__", n_checked, 1)
    early = [n for n in walk_no_nested(eq) if isinstance(n, ast.Return) and isinstance(n.value, ast.Constant) and n.value.value is False]
    ctx.check(bool(early), "R12.4", "Record.__eq__:returns-False", "no `return False` for foreign operands", eq, "returns False for non-Records")

    # ------------------------------------------------------------------ R12.5
    ctx.rule("R12.5", "ignore_fields_for_comparison: previous value read before the override; yield inside try; finally re-installs "
                      "exactly the saved value; the saved object cannot be mutated through the setter (setter rebinds a fresh object, "
                      "nothing mutates the configuration object in place)")
    cmgr = ctx.anchor_func("flow.record.base.ignore_fields_for_comparison")
    setter = ctx.anchor_func("flow.record.base.set_ignored_fields_for_comparison")
    # the configuration global: the module-level name that __eq__ passes to _pack
    gname = None
    from ..core import expand_aliases as _ea, single_assign_aliases as _saa

    _al = _saa(eq)
    for c in eqc:
        for k in list(c.keywords) + [ast.keyword(arg=None, value=a) for a in c.args]:
            for n in ast.walk(_ea(k.value, _al)):
                if isinstance(n, ast.Name) and prog.resolve_global(base, n.id) is not None and n.id not in func_params(eq):
                    gname = n.id
    if gname is None:
        # __eq__ passes nothing to _pack: fall back to the global the setter declares, then to the one the scope saves
        for n in walk_no_nested(setter):
            if isinstance(n, ast.Global):
                gname = n.names[0]
    if gname is None:
        for st in walk_no_nested(cmgr):
            if isinstance(st, ast.Assign) and isinstance(st.value, ast.Name) and prog.resolve_global(base, st.value.id) is not None:
                gname = st.value.id
    if gname is None:
        raise AnalysisError("R12.5: cannot identify the ignored-fields configuration global")
    declares = any(isinstance(n, ast.Global) and gname in n.names for n in walk_no_nested(setter))
    rebinds = [st for st in walk_no_nested(setter) if declares and isinstance(st, ast.Assign) and any(isinstance(t, ast.Name) and t.id == gname for t in st.targets)]
    fresh = bool(rebinds) and all(isinstance(st.value, ast.Call) and call_name(st.value) in ("set", "frozenset", "tuple", "list") or
                                  (isinstance(st.value, ast.Call) and isinstance(st.value.func, ast.Attribute) and st.value.func.attr == "copy")
                                  for st in rebinds)
    mutators = []
    for m in prog.modules.values():
        for c in calls_in(m.tree, nested=True):
            if isinstance(c.func, ast.Attribute) and c.func.attr in ("clear", "update", "add", "discard", "remove", "pop", "difference_update",
                                                                      "intersection_update", "symmetric_difference_update", "append", "extend") \
                    and dotted(c.func.value) is not None and dotted(c.func.value).split(".")[-1] == gname:
                mutators.append(c)
        for n in ast.walk(m.tree):
            if isinstance(n, ast.AugAssign) and dotted(n.target) is not None and dotted(n.target).split(".")[-1] == gname:
                mutators.append(n)
    save = [st for st in walk_no_nested(cmgr) if isinstance(st, ast.Assign) and any(isinstance(n, ast.Name) and n.id == gname for n in ast.walk(st.value))]
    saves_copy = bool(save) and isinstance(save[0].value, ast.Call)
    ctx.check(fresh and (not mutators or saves_copy), "R12.5", "ignored-fields:saved-value-immutable",
              ("the configuration object is mutated in place (" + (norm(mutators[0])[:60] if mutators else "setter does not rebind a fresh object") +
               ") while the scope saves it by reference: the restore re-installs the mutated object, so the previous configuration is lost"),
              mutators[0] if mutators else setter, "setter rebinds a fresh object; no in-place mutation of the configuration anywhere",
              key="R12.5:ignored-fields:saved-by-reference-but-mutated-in-place")
    # structure of the context manager
    tries = [st for st in walk_no_nested(cmgr) if isinstance(st, ast.Try)]
    ok_struct = False
    why = "no try/finally around the yield"
    if save and tries:
        t = tries[0]
        saved_var = save[0].targets[0].id if isinstance(save[0].targets[0], ast.Name) else None
        ccfg = CFG(cmgr)
        yields = [n for n in ast.walk(t) if isinstance(n, (ast.Yield, ast.YieldFrom))]
        in_body = all(any(y in list(ast.walk(s0)) for s0 in t.body) for y in yields) and yields
        restore = [c for s0 in t.finalbody for c in ast.walk(s0) if isinstance(c, ast.Call)]
        restores_saved = any((prog.resolve_expr(base, c.func) == DefRef(qualname_of(setter), setter) or call_name(c) == setter.name)
                             and c.args and norm(c.args[0]) == saved_var for c in restore) or any(
            isinstance(s0, ast.Assign) and norm(s0.value) == saved_var and any(norm(tt) == gname for tt in s0.targets) for s0 in t.finalbody)
        fin_exits = [n for s0 in t.finalbody for n in ast.walk(s0) if isinstance(n, (ast.Return, ast.Yield, ast.YieldFrom))]
        save_first = ccfg.dominates(ccfg.node_of(save[0]).id, ccfg.node_of(t.body[0]).id) and ordkey(save[0]) < ordkey(t)
        override_after_save = all(ordkey(c) > ordkey(save[0]) for c in calls_in(cmgr) if call_name(c) == setter.name)
        ok_struct = bool(in_body and restores_saved and not fin_exits and save_first and override_after_save and not t.handlers)
        why = ("yield is not inside the try body" if not in_body else "finally does not re-install the saved value" if not restores_saved else
               "finally contains return/yield" if fin_exits else "the previous value is not saved before the override" if not (save_first and override_after_save)
               else "an except clause can swallow the body's exception" if t.handlers else "")
    ctx.check(ok_struct, "R12.5", "ignore_fields_for_comparison:restore-on-all-exits", why, cmgr,
              "saved before override; yield in try; finally restores the saved value", key="R12.5:ignore_fields_for_comparison:restore")
    decos = {dotted(d) for d in cmgr.decorator_list}
    ctx.check("contextmanager" in decos or "contextlib.contextmanager" in decos, "R12.5", "ignore_fields_for_comparison:decorator",
              "not a @contextmanager", cmgr, "@contextmanager")

    # ------------------------------------------------------------------ R12.7 elements of typed lists
    from .packer_common import check_typedlist_pack
    check_typedlist_pack(ctx, "R12.7")


def normaliser_capability(prog, base, hs):
    """Is the value passed to hash() normalised by a function that recurses over list/tuple and dict?"""
    for c in calls_in(hs):
        r = prog.resolve_expr(base, c.func) if isinstance(c.func, (ast.Name, ast.Attribute)) else None
        if isinstance(r, DefRef) and isinstance(r.node, ast.FunctionDef):
            fn = r.node
            self_calls = [x for x in calls_in(fn, nested=True) if (isinstance(x.func, ast.Name) and x.func.id == fn.name) or (isinstance(x.func, ast.Attribute) and x.func.attr == fn.name)]
            tests = [norm(x) for x in ast.walk(fn) if isinstance(x, ast.Call) and call_name(x) == "isinstance"]
            handles_list = any("list" in t for t in tests)
            handles_dict = any("dict" in t for t in tests)
            handles_tuple = any("tuple" in t for t in tests)
            if self_calls and handles_list and handles_dict and handles_tuple:
                return True, None
    return False, 1
