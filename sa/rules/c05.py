"""C05 - Record fields always hold values of their declared type."""
from __future__ import annotations

import ast
import re
import string
import textwrap

from ..cfg import CFG, plain_store_nothrow, stored_paths
from ..core import (AnalysisError, DefRef, NotConst, Ref, call_name, calls_in, dotted, enclosing_class, enclosing_function,
                    func_params, get_kw, norm, qualname_of, walk_no_nested)

PROPERTY = "C05"
EXPLANATION = (
    "Decides the structural clauses behind 'fields always hold values of their declared type': (R5.1) record slots are "
    "written only through Record.__setattr__ - inventory of object.__setattr__/__dict__/object.__new__ sites and an AST check "
    "of the generated __init__ code fragments; (R5.2) in Record.__setattr__ every path to the store has converted the value "
    "with the field type unless it is None / already an instance / not a typed slot, and the bypass conditions are exactly "
    "those; (R5.3) the constructor guards of the bounded integer types reject exactly the complement of [0, 2^N-1] (interval "
    "reading of the guard, N from the class name) and bytes rejects non-bytes; (R5.4) in setters and other non-constructor "
    "methods of field types no attribute of self is stored on a path that can still reach a raise (validate-before-mutate); "
    "(R5.5) every return of datetime.__new__ is dominated by the naive->UTC normalisation; (R5.6) bytes input is decoded with "
    "surrogateescape; (R5.7) typed lists convert every element that is not already of the element type; replace-style copies "
    "go through the class constructor. NOT decided: that each constructor's result lies in the type's value set for all inputs, "
    "serialisability of accepted values."
    " Also decided (rules added after the fifth blind round): (R5.7) every value that can initialise a typed list's storage is the result of _convert or an empty literal (reaching definitions); (R5.8) the private attributes a validating property setter writes have no other writer in the package; (R5.9) generated constructor/decoder code never uses a generic field value as a truth value."
    " Rules added after the sixth blind round: (R5.10) no function of the field-type modules is memoised or fills a module-level container (a conversion cache is keyed by equality of the raw input)."
    " Rules added after the seventh blind round: (R5.11) the cache of fieldtype() holds at least twice the whitelist, so an entry is not evicted while its class is in use; (R5.12) the attributes written by a validating setter are written together."
)
RULE_SUMMARY = "instances: store sites, paths to the slot store, guard intervals, (method, raise) pairs, returns; non-trivial = path or interval computed"

BOUNDED = {"uint16": (0, 2 ** 16 - 1), "uint32": (0, 2 ** 32 - 1), "boolean": (0, 1)}


def fieldtype_classes(prog):
    ft = prog.cls("flow.record.base.FieldType")
    return [c for c in prog.subclasses(ft) if c._module.modname.startswith("flow.record.fieldtypes")]


def guard_interval(prog, module, test, var):
    """Interval [lo, hi] of values for which the raising test is FALSE (i.e. accepted), for the guard shapes the
    repository may use. Returns (lo, hi) or raises AnalysisError."""
    def fold(e):
        try:
            v = prog.fold(module, e)
        except NotConst:
            raise AnalysisError(f"range guard constant {norm(e)} does not fold")
        if not isinstance(v, int):
            raise AnalysisError(f"range guard constant {norm(e)} is not an integer")
        return v

    def is_var(e):
        return isinstance(e, ast.Name) and e.id == var

    lo, hi = None, None
    if isinstance(test, ast.BoolOp) and isinstance(test.op, ast.Or):
        for c in test.values:
            if not (isinstance(c, ast.Compare) and len(c.ops) == 1):
                raise AnalysisError(f"range guard shape {norm(test)} not modelled")
            op, l, r = c.ops[0], c.left, c.comparators[0]
            if is_var(l):
                k = fold(r)
                if isinstance(op, ast.Lt):
                    lo = k  # rejects v < k  -> accepts v >= k
                elif isinstance(op, ast.LtE):
                    lo = k + 1
                elif isinstance(op, ast.Gt):
                    hi = k
                elif isinstance(op, ast.GtE):
                    hi = k - 1
                else:
                    raise AnalysisError(f"range guard shape {norm(test)} not modelled")
            elif is_var(r):
                k = fold(l)
                if isinstance(op, ast.Gt):  # k > v  rejects v < k
                    lo = k
                elif isinstance(op, ast.GtE):
                    lo = k + 1
                elif isinstance(op, ast.Lt):  # k < v rejects v > k
                    hi = k
                elif isinstance(op, ast.LtE):
                    hi = k - 1
                else:
                    raise AnalysisError(f"range guard shape {norm(test)} not modelled")
            else:
                raise AnalysisError(f"range guard shape {norm(test)} not modelled")
        return lo, hi
    if isinstance(test, ast.UnaryOp) and isinstance(test.op, ast.Not) and isinstance(test.operand, ast.Compare):
        c = test.operand
        if len(c.ops) == 2 and is_var(c.comparators[0]):
            a, b = fold(c.left), fold(c.comparators[1])
            lo = a if isinstance(c.ops[0], ast.LtE) else (a + 1 if isinstance(c.ops[0], ast.Lt) else None)
            hi = b if isinstance(c.ops[1], ast.LtE) else (b - 1 if isinstance(c.ops[1], ast.Lt) else None)
            if lo is None or hi is None:
                raise AnalysisError(f"range guard shape {norm(test)} not modelled")
            return lo, hi
        if len(c.ops) == 1 and isinstance(c.ops[0], ast.In) and is_var(c.left) and isinstance(c.comparators[0], ast.Call) \
                and call_name(c.comparators[0]) == "range":
            args = [fold(a) for a in c.comparators[0].args]
            if len(args) == 1:
                return 0, args[0] - 1
            if len(args) == 2:
                return args[0], args[1] - 1
    if isinstance(test, ast.Compare) and len(test.ops) == 1 and isinstance(test.ops[0], ast.NotIn) and is_var(test.left):
        c = test.comparators[0]
        if isinstance(c, ast.Call) and call_name(c) == "range":
            args = [fold(a) for a in c.args]
            if len(args) == 1:
                return 0, args[0] - 1
            if len(args) == 2:
                return args[0], args[1] - 1
        try:
            v = prog.fold(module, c)
            if isinstance(v, (tuple, list, frozenset)) and all(isinstance(x, int) for x in v):
                return min(v), max(v)
        except NotConst:
            pass
    raise AnalysisError(f"range guard shape {norm(test)} not modelled")


def simple_paths(cfg: CFG, src: int, dst: int, limit=4000):
    """All acyclic paths src->dst as lists of (node_id, cond_taken_to_leave). Small functions only."""
    out = []
    stack = [(src, [src], [])]
    while stack:
        u, path, conds = stack.pop()
        if u == dst:
            out.append((path, conds))
            if len(out) > limit:
                raise AnalysisError("too many paths")
            continue
        for v, cond in cfg.succ[u]:
            if v in path:
                continue
            stack.append((v, path + [v], conds + [cond]))
    return out


def run(ctx):
    prog = ctx.prog
    base = prog.module("flow.record.base")
    ftm = prog.module("flow.record.fieldtypes")
    ctx.use(base, ftm)

    # ------------------------------------------------------------------ R5.1 store chokepoint
    ctx.rule("R5.1", "record slots are written only through Record.__setattr__: raw-store primitives (object.__setattr__, "
                     "__dict__ item stores, object.__new__, super().__setattr__) occur only at the reviewed sites; the generated "
                     "__init__/_unpack code stores with plain attribute assignment / setattr and constructs with __cls(...)")
    allowed = {
        "flow.record.base.Record.__setattr__": {"super().__setattr__"},
        "flow.record.base.GroupedRecord.__setattr__": {"object.__setattr__"},
        "flow.record.base.GroupedRecord.__init__": {"__dict__[]"},
    }
    found_sites = 0
    for m in prog.modules.values():
        for n in ast.walk(m.tree):
            prim = None
            if isinstance(n, ast.Call):
                cn = call_name(n)
                if cn in ("object.__setattr__", "object.__new__", "object.__delattr__"):
                    prim = cn
                elif isinstance(n.func, ast.Attribute) and n.func.attr in ("__setattr__",) and isinstance(n.func.value, ast.Call) \
                        and call_name(n.func.value) == "super":
                    prim = "super().__setattr__"
            elif isinstance(n, ast.Subscript) and isinstance(n.ctx, ast.Store) and isinstance(n.value, ast.Attribute) and n.value.attr == "__dict__":
                prim = "__dict__[]"
            elif isinstance(n, ast.Attribute) and n.attr == "__class__" and isinstance(n.ctx, ast.Store):
                prim = "__class__="
            if prim is None:
                continue
            found_sites += 1
            fn = enclosing_function(n)
            q = qualname_of(fn) if fn is not None else m.modname
            ok = prim in allowed.get(q, set())
            ctx.check(ok, "R5.1", f"{q.replace('flow.record.', '')}:{prim}",
                      f"raw store primitive {prim} used in {q}: a record slot can be written without type enforcement", n,
                      "reviewed site", key=f"R5.1:raw-store:{q}:{prim}")
    ctx.floor("R5.1", "raw-store primitive sites", found_sites, 3)
    rs = ctx.anchor_func("flow.record.base.Record.__setattr__")
    gs = ctx.anchor_func("flow.record.base.GroupedRecord.__setattr__")
    # GroupedRecord routes field names to the member record's setattr
    routed = [c for c in calls_in(gs) if call_name(c) == "setattr"]
    ctx.check(bool(routed), "R5.1", "GroupedRecord.__setattr__:routing", "field names are not routed to the member record's setattr", gs,
              "field names are routed to setattr(member, ...)")
    # generated code fragments
    gen = ctx.anchor_func("flow.record.base._generate_record_class")
    frags = [(n, v) for n, v in generated_fragments(prog, base, gen) if v.startswith("        ") and ("__self" in v or "__cls" in v)]
    ctx.floor("R5.1", "generated-code fragments in _generate_record_class", len(frags), 4)
    for n, v in frags:
        code = v
        try:
            tree = ast.parse(textwrap.dedent(code))
        except SyntaxError:
            try:
                tree = ast.parse(textwrap.dedent(code.rstrip().rstrip("(,") + ("" if "(" not in code else "")))
            except SyntaxError:
                # fragments such as "return __cls(\n" are not complete statements: complete them
                try:
                    tree = ast.parse(textwrap.dedent(code) + ")")
                except SyntaxError:
                    raise AnalysisError(f"R5.1: generated fragment does not parse: {v!r}")
        bad = []
        for x in ast.walk(tree):
            if isinstance(x, ast.Call) and call_name(x) in ("object.__setattr__", "object.__new__"):
                bad.append(call_name(x))
            if isinstance(x, ast.Attribute) and x.attr in ("__dict__", "__class__") and isinstance(x.ctx, ast.Store):
                bad.append(x.attr)
            if isinstance(x, ast.Subscript) and isinstance(x.ctx, ast.Store) and isinstance(x.value, ast.Attribute) and x.value.attr == "__dict__":
                bad.append("__dict__[]")
        ctx.check(not bad, "R5.1", f"_generate_record_class:fragment:{v.strip()[:40]}", f"generated code uses {bad}", n,
                  "plain attribute stores / setattr / __cls(...) only")

    # ------------------------------------------------------------------ R5.2 convert-before-store
    ctx.rule("R5.2", "in Record.__setattr__ every path to the slot store either converted the value with the field type or "
                     "carries one of the legitimate bypass facts: value is None, name is not a slot, no field type, already an instance")
    params = func_params(rs)
    if len(params) < 3:
        raise AnalysisError("R5.2: Record.__setattr__ signature changed")
    p_self, p_k, p_v = params[:3]
    cfg = CFG(rs)
    stores = [c for c in calls_in(rs) if isinstance(c.func, ast.Attribute) and c.func.attr == "__setattr__"]
    ctx.floor("R5.2", "slot stores in Record.__setattr__", len(stores), 1)
    # field type variable: assigned from self._field_types.get(k) / [k]
    ft_var = None
    for st in walk_no_nested(rs):
        if isinstance(st, ast.Assign) and isinstance(st.targets[0], ast.Name) and "_field_types" in norm(st.value) and p_k in {
                n.id for n in ast.walk(st.value) if isinstance(n, ast.Name)}:
            ft_var = st.targets[0].id
    if ft_var is None:
        raise AnalysisError("R5.2: field type lookup (self._field_types.get(k)) not found")
    conv_nodes = set()
    for st in walk_no_nested(rs):
        if isinstance(st, ast.Assign) and any(isinstance(t, ast.Name) and t.id == p_v for t in st.targets) and isinstance(st.value, ast.Call) \
                and norm(st.value.func) == ft_var and [norm(a) for a in st.value.args] == [p_v]:
            conv_nodes.add(cfg.node_of(st).id)
    def _is_conv(e):
        return isinstance(e, ast.Call) and norm(e.func) == ft_var and [norm(a) for a in e.args] == [p_v] and not e.keywords

    inline_conv = [c for c in stores if len(c.args) == 2 and _is_conv(c.args[1])]
    ctx.floor("R5.2", "conversions field_type(v) feeding the store", len(conv_nodes) + len(inline_conv), 1)
    from .. import logic

    legit_goal = logic.parse(f"{p_v} is None or {p_k} not in {p_self}.__slots__ or not {ft_var} or {ft_var} is None or isinstance({p_v}, {ft_var})")
    legit = {f"{p_v} is not None", f"{p_k} in {p_self}.__slots__", ft_var, f"{ft_var} is not None"}
    for c in stores:
        snode = cfg.node_of(c)
        args_ok = len(c.args) == 2 and norm(c.args[0]) == p_k and (norm(c.args[1]) == p_v or _is_conv(c.args[1])) and not c.keywords
        ctx.check(args_ok, "R5.2", "Record.__setattr__:store-args", f"stores {[norm(a) for a in c.args]}", c, f"stores ({p_k}, {p_v}) or ({p_k}, {ft_var}({p_v}))")
        if c in inline_conv:
            ctx.ok("R5.2", "Record.__setattr__:paths", "the store receives field_type(v) directly", c)
            continue
        paths = simple_paths(cfg, cfg.entry, snode.id)
        n_bad = 0
        for path, conds in paths:
            if conv_nodes & set(path):
                # conversion must come before the store and not be followed by a re-assignment of v
                continue
            prem = [(cond[0], cond[1]) for cond in conds if cond is not None and not isinstance(cond[0], str)]
            if logic.implies(prem, legit_goal):
                continue
            n_bad += 1
            # diagnosis: a bypass guard with an extra conjunct
            for expr, pol in prem:
                if pol is False and isinstance(expr, ast.BoolOp) and isinstance(expr.op, ast.And):
                    extra = sorted({norm(v) for v in expr.values} - legit - {f"not isinstance({p_v}, {ft_var})"})
                    if extra:
                        ctx.fail("R5.2", f"Record.__setattr__:bypass:{extra[0]}",
                                 f"values for which `{extra[0]}` is false are stored without conversion (legitimate bypasses are: None, "
                                 "not a slot, untyped)", expr, key=f"R5.2:Record.__setattr__:illegitimate-bypass:{extra[0]}")
        ctx.check(n_bad == 0, "R5.2", "Record.__setattr__:paths", f"{n_bad} of {len(paths)} paths reach the store with an unconverted value",
                  c, f"{len(paths)} paths to the store: each converts or carries a legitimate bypass fact",
                  key="R5.2:Record.__setattr__:unconverted-path")
        ctx.sample({"rule": "R5.2", "paths_to_store": len(paths)})
        # a failing conversion leaves the slot unchanged: conversion precedes the store
        for cn in conv_nodes:
            if snode.id in cfg.reachable(cn):
                ctx.check(cn not in cfg.reachable(snode.id), "R5.2", "Record.__setattr__:order",
                          "the conversion does not precede the store", c, "conversion precedes the store")

    # ------------------------------------------------------------------ R5.3 range guards
    ctx.rule("R5.3", "constructors of bounded integer types reject exactly the complement of [0, 2^N-1] (N from the class name; "
                     "boolean: [0,1]); bytes.__init__ raises unless isinstance(value, <builtin bytes>)")
    for cname, (lo_w, hi_w) in BOUNDED.items():
        cls = ctx.anchor_cls(f"flow.record.fieldtypes.{cname}")
        init = prog.methods_of(cls).get("__init__")
        if init is None:
            ctx.fail("R5.3", f"{cname}.__init__", "no constructor guard", cls, key=f"R5.3:{cname}:no-init")
            continue
        var = func_params(init)[1]
        guards = [st for st in walk_no_nested(init) if isinstance(st, ast.If) and st.body and isinstance(st.body[-1], ast.Raise)]
        if not guards:
            ctx.fail("R5.3", f"{cname}.__init__:guard", "no raising range guard", init, key=f"R5.3:{cname}:no-guard")
            continue
        # the guard must test the constructor ARGUMENT (the int base class has already truncated `self`: 65535.5 -> 65535)
        tested = {n.id for n in ast.walk(guards[0].test) if isinstance(n, ast.Name)}
        if var not in tested:
            ctx.fail("R5.3", f"{cname}.__init__:guard-subject", f"the range guard `{norm(guards[0].test)}` does not test the argument `{var}` but {sorted(tested)}: a value just outside the "
                     f"range (e.g. {hi_w}.5, -0.5) is truncated into it and accepted, while the untruncated value is what is stored and serialised", guards[0],
                     key=f"R5.3:{cname}:guard-not-on-argument")
            continue
        lo, hi = guard_interval(prog, ftm, guards[0].test, var)
        icfg = CFG(init)
        first_store = [n for n in icfg.stmt_nodes() if any(p.startswith("self.") for p in stored_paths(n))]
        dom = all(icfg.dominates(icfg.node_of(guards[0]).id, s.id) for s in first_store)
        ctx.check((lo, hi) == (lo_w, hi_w) and dom, "R5.3", f"{cname}.__init__:accepts",
                  f"the guard accepts [{lo}, {hi}], the type's range is [{lo_w}, {hi_w}]" if (lo, hi) != (lo_w, hi_w) else
                  "the value is stored before the guard", guards[0], f"accepts exactly [{lo}, {hi}]",
                  key=f"R5.3:{cname}:accepts[{lo},{hi}]")
        ctx.sample({"rule": "R5.3", "class": cname, "guard": norm(guards[0].test), "accepted_interval": [lo, hi]})
    # subclasses of the bounded types must not override __init__ without delegating
    for cname in BOUNDED:
        cls = prog.cls(f"flow.record.fieldtypes.{cname}")
        for sub in prog.subclasses(cls):
            init = prog.methods_of(sub).get("__init__")
            ok = init is None or any(isinstance(c.func, ast.Attribute) and c.func.attr == "__init__" for c in calls_in(init))
            ctx.check(ok, "R5.3", f"{qualname_of(sub).replace('flow.record.fieldtypes.', '')}:inherits-guard",
                      "overrides __init__ without calling the base guard", sub, f"inherits the guard of {cname}")
            ctx.use(sub._module)
    bcls = ctx.anchor_cls("flow.record.fieldtypes.bytes")
    binit = prog.methods_of(bcls).get("__init__")
    ok = False
    if binit is not None:
        var = func_params(binit)[1]
        for st in walk_no_nested(binit):
            if isinstance(st, ast.If) and st.body and isinstance(st.body[-1], ast.Raise) and isinstance(st.test, ast.UnaryOp) \
                    and isinstance(st.test.op, ast.Not) and isinstance(st.test.operand, ast.Call) and call_name(st.test.operand) == "isinstance" \
                    and norm(st.test.operand.args[0]) == var:
                r = prog.resolve_expr(ftm, st.test.operand.args[1])
                ok = isinstance(r, Ref) and r.name == "builtins.bytes"
    ctx.check(ok, "R5.3", "bytes.__init__:guard", "bytes() does not reject non-bytes input", bcls, "raises unless isinstance(value, bytes)")

    # ------------------------------------------------------------------ R5.4 validate-before-mutate
    ctx.rule("R5.4", "in property setters and other non-constructor methods of field types, no path stores an attribute of self "
                     "and afterwards reaches a raise (a rejected value must leave the object unchanged)")
    n_methods = 0
    for cls in fieldtype_classes(prog):
        ctx.use(cls._module)
        for fn in prog.methods_of(cls).values():
            if fn.name in ("__init__", "__new__"):
                continue
            is_setter = any(isinstance(d, ast.Attribute) and d.attr == "setter" for d in fn.decorator_list)
            raises = [n for n in walk_no_nested(fn) if isinstance(n, ast.Raise)]
            if not raises:
                continue
            selfname = func_params(fn)[0] if func_params(fn) else None
            fcfg = CFG(fn, nothrow=plain_store_nothrow)
            store_nodes = [n for n in fcfg.stmt_nodes() if any(p.startswith(f"{selfname}.") for p in stored_paths(n))]
            if not store_nodes:
                continue
            n_methods += 1
            cname = qualname_of(cls).replace("flow.record.fieldtypes.", "")
            for r in raises:
                rn = fcfg.node_of(r)
                offenders = [s for s in store_nodes if rn.id in fcfg.reachable(s.id) and s.id in fcfg.reachable(fcfg.entry)]
                # a store that is itself the statement raising (call on the right-hand side) has not happened when it raises:
                # exclude the direct exceptional edge store->handler by requiring a path through the store's NORMAL successors
                real = []
                for s in offenders:
                    normal_succ = [v for v, cnd in fcfg.succ[s.id] if not (cnd is not None and cnd[0] == "<exc>")]
                    if any(rn.id == v or rn.id in fcfg.reachable(v) for v in normal_succ):
                        real.append(s)
                ctx.check(not real, "R5.4", f"{cname}.{fn.name}:raise@{norm(r)[:50]}",
                          f"`{norm(real[0].ast) if real else ''}` is executed before this raise can be reached: a rejected value is "
                          "already stored when the error is raised", r, "no attribute of self is stored on a path that reaches this raise",
                          key=f"R5.4:{cname}.{fn.name}:store-before-raise")
    ctx.floor("R5.4", "non-constructor methods of field types that both store and raise", n_methods, 3)

    # ------------------------------------------------------------------ R5.8 validated state has one writer
    ctx.rule("R5.8", "the private attributes a validating property setter of a field type writes are written nowhere else in the package "
                     "(not by _unpack, not by another method, not from outside): every value reaches them through the setter's checks")
    n_guarded = 0
    for cls in fieldtype_classes(prog):
        setters = [fn for fn in prog.methods_of(cls).values() if any(isinstance(d, ast.Attribute) and d.attr == "setter" for d in fn.decorator_list)
                   and any(isinstance(n, ast.Raise) for n in walk_no_nested(fn))]
        if not setters:
            continue
        cname = qualname_of(cls).replace("flow.record.fieldtypes.", "")
        short = cls.name.lstrip("_")

        def mangled(attr, in_cls):
            return f"_{in_cls.name.lstrip('_')}{attr}" if in_cls is not None and attr.startswith("__") and not attr.endswith("__") else attr

        guarded = set()
        for fn in setters:
            for n in ast.walk(fn):
                if isinstance(n, ast.Attribute) and isinstance(n.ctx, ast.Store) and isinstance(n.value, ast.Name) and n.value.id == func_params(fn)[0]:
                    guarded.add(mangled(n.attr, cls))
        n_guarded += len(guarded)
        setter_ids = {id(fn) for fn in setters}
        for m in prog.modules.values():
            for n in ast.walk(m.tree):
                if not (isinstance(n, ast.Attribute) and isinstance(n.ctx, (ast.Store, ast.Del))):
                    continue
                owner_fn = enclosing_function(n)
                owner_cls = n
                while owner_cls is not None and not isinstance(owner_cls, ast.ClassDef):
                    owner_cls = getattr(owner_cls, "_parent", None)
                if mangled(n.attr, owner_cls) not in guarded:
                    continue
                if owner_fn is not None and id(owner_fn) in setter_ids:
                    continue
                if owner_fn is None and owner_cls is cls:
                    continue  # class-level defaults
                where = qualname_of(owner_fn).replace("flow.record.", "") if owner_fn is not None else m.modname
                ctx.fail("R5.8", f"{cname}:{n.attr}:written-in:{where}", f"`{norm(n)}` is stored in {where}, outside the validating setters of {cname}: a malformed value "
                         "(wrong length, wrong kind) can be put into the object without the checks every assignment goes through", n,
                         key=f"R5.8:{cname}:{n.attr.lstrip('_')}:bypass:{where}")
        ctx.check(True, "R5.8", f"{cname}:guarded-state", "", cls, f"{sorted(guarded)} written only by {sorted(fn.name for fn in setters)}")
    ctx.floor("R5.8", "private attributes guarded by validating setters", n_guarded, 6)

    check_naive_utc(ctx, "R5.5")

    # ------------------------------------------------------------------ R5.6 text input conversion
    ctx.rule("R5.6", "string.__new__ and datetime.__new__ decode bytes input with errors='surrogateescape'")
    for q in ("flow.record.fieldtypes.string.__new__", "flow.record.fieldtypes.datetime.__new__"):
        fn = ctx.anchor_func(q)
        decs = [c for c in calls_in(fn) if isinstance(c.func, ast.Attribute) and c.func.attr == "decode"]
        ok = bool(decs)
        for c in decs:
            e = get_kw(c, "errors") or (c.args[1] if len(c.args) > 1 else None)
            try:
                ok &= e is not None and prog.fold(ftm, e) == "surrogateescape"
            except NotConst:
                ok = False
        ctx.check(ok, "R5.6", q.replace("flow.record.fieldtypes.", "") + ":decode", "bytes input is not decoded with surrogateescape", fn,
                  "decode(errors='surrogateescape')")

    # ------------------------------------------------------------------ R5.7 element conversion and copies
    ctx.rule("R5.7", "typedlist converts every element unless isinstance(element, self.__type__); typedlist.__init__ and _unpack "
                     "go through the conversion; Record._replace / GroupedRecord._replace build through the class constructor")
    conv = ctx.anchor_func("flow.record.fieldtypes.typedlist._convert")
    comps = [n for n in ast.walk(conv) if isinstance(n, (ast.ListComp, ast.GeneratorExp))]
    ok = False
    why = "element conversion is not of the form `self.__type__(f) if not isinstance(f, self.__type__) else f`"
    for cmpn in comps:
        elt = cmpn.elt
        var = norm(cmpn.generators[0].target)
        if isinstance(elt, ast.IfExp):
            t, b, o = elt.test, elt.body, elt.orelse
            if isinstance(t, ast.UnaryOp) and isinstance(t.op, ast.Not):
                t, b, o = t.operand, o, b  # normalise to: b if isinstance(...) else o   (b = pass-through, o = convert)
            elif isinstance(t, ast.Call):
                b, o = b, o
            else:
                continue
            # now: `b` is taken when isinstance(...) holds
            if isinstance(t, ast.Call) and call_name(t) == "isinstance" and norm(t.args[0]) == var:
                guard_ok = norm(t.args[1]) == "self.__type__"
                passthrough_ok = norm(b) == var
                convert_ok = isinstance(o, ast.Call) and norm(o.func) == "self.__type__" and [norm(a) for a in o.args] == [var]
                ok = guard_ok and passthrough_ok and convert_ok
                if not guard_ok:
                    why = f"elements are passed through unconverted when isinstance({var}, {norm(t.args[1])}), which is wider than the element type"
        elif isinstance(elt, ast.Call) and norm(elt.func) == "self.__type__":
            ok = True
    if not comps:
        # explicit loop form: every place where the loop variable itself is put into the result needs the fact
        # isinstance(f, self.__type__); every other element must be self.__type__(f)
        ccfg = CFG(conv)
        loops = [n for n in walk_no_nested(conv) if isinstance(n, ast.For)]
        if len(loops) == 1 and isinstance(loops[0].target, ast.Name):
            var = loops[0].target.id
            puts = [c for c in ast.walk(loops[0]) if isinstance(c, ast.Call) and isinstance(c.func, ast.Attribute) and c.func.attr in ("append", "add") and c.args]
            ok = bool(puts)
            for pcall in puts:
                a = pcall.args[0]
                if isinstance(a, ast.Name) and a.id == var:
                    facts = {(t, p) for t, p, _ in ccfg.facts_at(ccfg.node_of(pcall).id)}

                    def _edge(fs, var=var):
                        return any(t == f"isinstance({var}, self.__type__)" and p for t, p, _ in fs)

                    def _node(nd, var=var):
                        st_ = nd.ast
                        if nd.kind == "for" and isinstance(st_, ast.For) and var in {x.id for x in ast.walk(st_.target) if isinstance(x, ast.Name)}:
                            return False
                        if nd.kind == "stmt" and isinstance(st_, (ast.Assign, ast.AugAssign, ast.AnnAssign)):
                            tg = st_.targets if isinstance(st_, ast.Assign) else [st_.target]
                            if any(isinstance(x, ast.Name) and x.id == var for t_ in tg for x in ast.walk(t_)):
                                v_ = getattr(st_, "value", None)
                                return isinstance(st_, ast.Assign) and isinstance(v_, ast.Call) and norm(v_.func) == "self.__type__" and [norm(x) for x in v_.args] == [var] and not v_.keywords
                        return None

                    # on every path the element has either passed isinstance(element, self.__type__) or been replaced by self.__type__(element)
                    good = ccfg.must_hold(ccfg.node_of(pcall).id, _edge, _node)
                    if not good:
                        wide = [t for t, p in facts if p and t.startswith(f"isinstance({var}, ")]
                        why = (f"elements are passed through unconverted when {wide[0]}, which is wider than the element type" if wide else
                               "an element is stored unconverted without an isinstance(element, self.__type__) test")
                    ok &= good
                elif isinstance(a, ast.Call) and norm(a.func) == "self.__type__" and [norm(x) for x in a.args] == [var]:
                    continue
                else:
                    ok = False
            rets = [r for r in walk_no_nested(conv) if isinstance(r, ast.Return)]
            ok &= len(rets) == 1 and isinstance(rets[0].value, ast.Name)
    ctx.check(ok, "R5.7", "typedlist._convert:element", why, conv, "every element is self.__type__(f) unless already an instance of it",
              key="R5.7:typedlist._convert:element-passthrough")
    cparam = func_params(conv)[1] if len(func_params(conv)) > 1 else "values"
    for rt in [r for r in walk_no_nested(conv) if isinstance(r, ast.Return) and r.value is not None]:
        v = rt.value
        passthrough = (isinstance(v, ast.Name) and v.id == cparam) or (isinstance(v, ast.Call) and call_name(v) in ("list", "tuple", "copy.copy") and len(v.args) == 1 and norm(v.args[0]) == cparam) \
            or (isinstance(v, ast.Subscript) and norm(v.value) == cparam)
        ctx.check(not passthrough, "R5.7", f"typedlist._convert:return {norm(v)[:30]}", f"`return {norm(v)}` hands the input back without looking at its elements: elements of another (e.g. base) "
                  "type stay unconverted in the typed list", rt, "every return is built by the element-wise conversion", key="R5.7:typedlist._convert:input-returned")
    tinit = ctx.anchor_func("flow.record.fieldtypes.typedlist.__init__")
    # what initialises the underlying list: every value that can reach `super().__init__(X)` is the result of self._convert(...) or an empty literal
    ticfg = CFG(tinit)
    inits = [c for c in calls_in(tinit) if isinstance(c.func, ast.Attribute) and c.func.attr == "__init__" and isinstance(c.func.value, ast.Call) and call_name(c.func.value) == "super"]
    ctx.floor("R5.7", "list initialisations in typedlist.__init__", len(inits), 1)

    def converted(e, at, depth=0):
        if isinstance(e, ast.Call) and norm(e.func) == "self._convert":
            return True, ""
        if isinstance(e, (ast.List, ast.Tuple)) and not e.elts:
            return True, ""
        if isinstance(e, ast.Name) and depth < 6:
            for d in ticfg.reaching_defs(e.id).get(at, set()):
                if d == ticfg.entry:
                    return False, f"the caller's `{e.id}` itself (no conversion on that path)"
                da = ticfg.nodes[d].ast
                if not (isinstance(da, ast.Assign) and len(da.targets) == 1 and isinstance(da.targets[0], ast.Name)):
                    return False, norm(da)[:60]
                ok_, why_ = converted(da.value, d, depth + 1)
                if not ok_:
                    return False, why_
            return True, ""
        return False, norm(e)[:60]

    for ic in inits:
        at = ticfg.node_of(ic).id
        ok_, why_ = converted(ic.args[0], at) if len(ic.args) == 1 else (False, "no single initialiser")
        ctx.check(ok_, "R5.7", "typedlist.__init__:converts", f"the list is initialised from {why_}: elements that are not of the element type (e.g. those of a typed list of "
                  "another type) are stored as they are", ic, "super().__init__(self._convert(values)) on every path", key="R5.7:typedlist.__init__:unconverted-initialiser")
    tun = ctx.anchor_func("flow.record.fieldtypes.typedlist._unpack")
    rets = [n for n in walk_no_nested(tun) if isinstance(n, ast.Return)]
    ctx.check(all(isinstance(r.value, ast.Call) and norm(r.value.func) == "cls" for r in rets) and rets, "R5.7", "typedlist._unpack:constructs",
              "_unpack does not build the list through the class constructor", tun, "returns cls(...)")
    for q in ("flow.record.base.Record._replace", "flow.record.base.GroupedRecord._replace"):
        fn = ctx.anchor_func(q)
        ctor = [c for c in calls_in(fn) if isinstance(c.func, ast.Attribute) and c.func.attr == "__class__" or norm(c.func) in ("GroupedRecord",)]
        ctx.check(bool(ctor), "R5.7", q.replace("flow.record.base.", "") + ":constructs", "the copy is not built through the class constructor",
                  fn, "copy built by calling the record class")

    # ------------------------------------------------------------------ R5.9 generated code and falsy values
    check_generated_value_tests(ctx, "R5.9")

    # ------------------------------------------------------------------ R5.10 conversions are not memoised by equality of the raw input
    ctx.rule("R5.10", "no function of the field-type modules stores into a module-level container or is memoised (lru_cache): a conversion cache is looked up by "
                      "== / hash of the RAW input, and inputs of different kinds that compare equal (3232235777 and 3232235777.0, True and 1) would share one answer - "
                      "a value the type rejects is accepted once an equal acceptable one has been seen")
    n_ft = 0
    for mname, mod in sorted(prog.modules.items()):
        if not mname.startswith("flow.record.fieldtypes"):
            continue
        ctx.use(mod)
        module_containers = {t.id for st in mod.tree.body if isinstance(st, (ast.Assign, ast.AnnAssign)) and isinstance(getattr(st, "value", None), (ast.Dict, ast.List, ast.Set, ast.Call))
                             for t in (st.targets if isinstance(st, ast.Assign) else [st.target]) if isinstance(t, ast.Name)}
        for fn in [n for n in ast.walk(mod.tree) if isinstance(n, (ast.FunctionDef, ast.AsyncFunctionDef))]:
            n_ft += 1
            local = {n.id for n in ast.walk(fn) if isinstance(n, ast.Name) and isinstance(n.ctx, ast.Store)} | set(func_params(fn))
            decos = [norm(d.func) if isinstance(d, ast.Call) else norm(d) for d in fn.decorator_list]
            memo = [d for d in decos if d.split(".")[-1] in ("lru_cache", "cache")]
            ctx.check(not memo, "R5.10", f"{qualname_of(fn).replace('flow.record.', '')}:memoised", f"{fn.name} is memoised ({memo}): the cache is keyed by == of the raw arguments", fn,
                      "not memoised", key=f"R5.10:{qualname_of(fn).replace('flow.record.', '')}:memoised")
            for n in ast.walk(fn):
                tgt = None
                if isinstance(n, ast.Subscript) and isinstance(n.ctx, ast.Store) and isinstance(n.value, ast.Name):
                    tgt = n.value.id
                if isinstance(n, ast.Call) and isinstance(n.func, ast.Attribute) and n.func.attr in ("setdefault", "update", "append", "add") and isinstance(n.func.value, ast.Name):
                    tgt = n.func.value.id
                if tgt and tgt in func_params(fn):
                    # a container parameter that is filled: which module-level containers do the call sites hand in?
                    pos = func_params(fn).index(tgt)
                    for c0 in calls_in(mod.tree, nested=True):
                        if isinstance(c0.func, ast.Name) and c0.func.id == fn.name and len(c0.args) > pos and isinstance(c0.args[pos], ast.Name) and c0.args[pos].id in module_containers:
                            ctx.fail("R5.10", f"{qualname_of(fn).replace('flow.record.', '')}:module-state:{c0.args[pos].id}", f"`{norm(n)[:60]}` fills the container passed as `{tgt}`, and "
                                     f"`{norm(c0)[:60]}` passes the module-level {c0.args[pos].id}: a cache of converted values answers for every raw input that compares equal to one it has seen", n,
                                     key=f"R5.10:{mname.replace('flow.record.', '')}:{c0.args[pos].id}:conversion-cache")
                if tgt and tgt not in local and tgt in module_containers:
                    ctx.fail("R5.10", f"{qualname_of(fn).replace('flow.record.', '')}:module-state:{tgt}", f"`{norm(n)[:60]}` stores into the module-level container {tgt}: a cache of converted "
                             "values answers for every raw input that compares equal to one it has seen", n, key=f"R5.10:{mname.replace('flow.record.', '')}:{tgt}:conversion-cache")
    ctx.floor("R5.10", "functions of the field-type modules examined", n_ft, 100)

    # ------------------------------------------------------------------ R5.11 the class cache cannot evict
    ctx.rule("R5.11", "fieldtype() CREATES the class of a list type; it is memoised so that every use of `T[]` gets the same class. The cache is unbounded or at least as "
                      "large as the number of names it can be asked for (every whitelist entry and its list form): an evicted list class is re-created as a different class, and "
                      "a value of a `T[]` field then is no longer an instance of the field's declared type")
    ft11 = ctx.anchor_func("flow.record.base.fieldtype")
    wl11 = prog.fold(prog.module("flow.record.whitelist"), ast.parse("WHITELIST").body[0].value)
    need11 = 2 * len(wl11)
    size11 = "missing"
    for d11 in ft11.decorator_list:
        dn = norm(d11.func) if isinstance(d11, ast.Call) else norm(d11)
        if dn.split(".")[-1] == "cache":
            size11 = None
        elif dn.split(".")[-1] == "lru_cache":
            size11 = 128
            if isinstance(d11, ast.Call):
                arg = d11.args[0] if d11.args else next((k.value for k in d11.keywords if k.arg == "maxsize"), None)
                if arg is not None:
                    try:
                        size11 = prog.fold(base, arg)
                    except NotConst:
                        size11 = "unknown"
    ok11 = size11 is None or (isinstance(size11, int) and size11 >= need11)
    ctx.check(ok11, "R5.11", "fieldtype:cache-size", f"fieldtype() is memoised with maxsize={size11}, but {need11} type names (scalar and list forms) can be requested: list classes get evicted "
              "and re-created", ft11, f"unbounded or >= {need11}", key="R5.11:fieldtype:cache-evicts")

    # ------------------------------------------------------------------ R5.12 a validating setter keeps its attributes in step
    ctx.rule("R5.12", "a validating property setter that writes several private attributes (the hex text and its binary form) writes ALL of them on every path that "
                      "ends normally: clearing the value (`x.md5 = None`) must clear the binary copy the packer writes as well")
    n12 = 0
    for cls12 in fieldtype_classes(prog):
        for fn12 in prog.methods_of(cls12).values():
            if not any(isinstance(d, ast.Attribute) and d.attr == "setter" for d in fn12.decorator_list):
                continue
            me12 = func_params(fn12)[0]
            attrs12 = sorted({n.attr for n in ast.walk(fn12) if isinstance(n, ast.Attribute) and isinstance(n.ctx, ast.Store) and norm(n.value) == me12})
            if len(attrs12) < 2:
                continue
            n12 += 1
            cfg12 = CFG(fn12, nothrow=plain_store_nothrow)
            for a12 in attrs12:
                stores12 = {n.id for n in cfg12.stmt_nodes() if f"{me12}.{a12}" in stored_paths(n)}
                skipped = cfg12.exit in cfg12.reachable(cfg12.entry, avoid=lambda n: n.id in stores12) and any(
                    cfg12.exit in {v for v, cnd in cfg12.succ[u] if not (cnd is not None and cnd[0] == "<exc>")} or True for u in [cfg12.entry])
                # only normal completions count: a path that raises leaves the object as it was (R5.4)
                normal_exit_preds = [u for u in range(len(cfg12.nodes)) if any(v == cfg12.exit and not (cnd is not None and cnd[0] == "<exc>") for v, cnd in cfg12.succ[u])
                                     and not isinstance(cfg12.nodes[u].ast, ast.Raise)]
                reach = cfg12.reachable(cfg12.entry, avoid=lambda n: n.id in stores12)
                skipped = any(u in reach for u in normal_exit_preds)
                ctx.check(not skipped, "R5.12", f"{cls12.name}.{fn12.name}:{a12}", f"the setter can end normally without assigning {me12}.{a12} although it assigns {attrs12} on other paths: "
                          "the attributes get out of step (a cleared value keeps its old binary form)", fn12, f"every normal path assigns {attrs12}",
                          key=f"R5.12:{cls12.name}.{fn12.name}:attributes-out-of-step")
    ctx.floor("R5.12", "setters writing several attributes", n12, 3)



def check_naive_utc(ctx, rule):
    prog = ctx.prog
    ftm = prog.module("flow.record.fieldtypes")
    # ------------------------------------------------------------------ R5.5 naive means UTC
    ctx.rule(rule, "every value returned by datetime.__new__ has passed the `tzinfo is None -> replace(tzinfo=UTC)` normalisation "
                     "and is not re-assigned afterwards")
    from .. import logic as _lgc

    dn = ctx.anchor_func("flow.record.fieldtypes.datetime.__new__")
    dcfg = CFG(dn)
    rets = [n for n in dcfg.stmt_nodes() if isinstance(n.ast, ast.Return)]
    ctx.floor(rule, "returns of datetime.__new__", len(rets), 1)
    def _is_utc(e):
        try:
            v = prog.fold(ftm, e) if e is not None else None
        except NotConst:
            return False
        return isinstance(v, Ref) and v.name == "datetime.timezone.utc"

    def _aware_value(e):
        """<x>.replace(tzinfo=UTC): aware whatever <x> was."""
        return isinstance(e, ast.Call) and isinstance(e.func, ast.Attribute) and e.func.attr == "replace" and _is_utc(get_kw(e, "tzinfo"))

    def _aware_ctor(e):
        """fromtimestamp(x, UTC) / now(UTC): aware by construction."""
        return isinstance(e, ast.Call) and isinstance(e.func, ast.Attribute) and e.func.attr in ("fromtimestamp", "now") and (
            _is_utc(get_kw(e, "tz")) or (e.func.attr == "fromtimestamp" and len(e.args) >= 2 and _is_utc(e.args[1])) or (e.func.attr == "now" and len(e.args) >= 1 and _is_utc(e.args[0])))

    n_norm = sum(1 for c in calls_in(dn) if _aware_value(c))
    if n_norm == 0:
        ctx.fail(rule, "datetime.__new__:normalisation", "no `if obj.tzinfo is None: obj = obj.replace(tzinfo=UTC)` statement", dn,
                 key=rule + ":datetime.__new__:no-normalisation")
    for rn in rets:
        v = rn.ast.value
        if v is None:
            ctx.fail(rule, "datetime.__new__:return", "returns None", rn.ast, key=rule + ":datetime.__new__:return-not-normalised")
            continue
        if _aware_value(v):
            # must only replace a NAIVE value's tzinfo (an aware one would be shifted): the fact `<x>.tzinfo is None` holds
            recv = norm(v.func.value)
            prem = _lgc.facts_as_premises(dcfg.facts_at(rn.id))
            ctx.check(_lgc.implies(prem, _lgc.parse(f"{recv}.tzinfo is None")), rule, "datetime.__new__:return", f"`{norm(v)}` overrides the time zone of a value that may be aware", rn.ast,
                      "tzinfo is only filled in for a naive value", key=rule + ":datetime.__new__:return-not-normalised")
            continue
        if _aware_ctor(v):
            ctx.ok(rule, "datetime.__new__:return", f"`{norm(v)[:50]}` is aware by construction", rn.ast)
            continue
        if not isinstance(v, ast.Name):
            ctx.fail(rule, "datetime.__new__:return", f"returns `{norm(v)}`, a value other than the normalised object", rn.ast, key=rule + ":datetime.__new__:return-not-normalised")
            continue
        var = v.id

        def _edge(fs, var=var):
            return any((t == f"{var}.tzinfo is not None" and p) or (t == f"{var}.tzinfo is None" and not p) or (t == f"{var}.tzinfo" and p) for t, p, _ in fs)

        def _node(nd, var=var):
            st_ = nd.ast
            if nd.kind == "stmt" and isinstance(st_, (ast.Assign, ast.AugAssign, ast.AnnAssign)):
                tg = st_.targets if isinstance(st_, ast.Assign) else [st_.target]
                if any(isinstance(x, ast.Name) and x.id == var and isinstance(x.ctx, ast.Store) for t_ in tg for x in ast.walk(t_)):
                    val = getattr(st_, "value", None)
                    if isinstance(st_, ast.Assign) and _aware_ctor(val):
                        return True
                    if isinstance(st_, ast.Assign) and _aware_value(val):
                        # replacing the zone is only right for a naive value
                        prem = _lgc.facts_as_premises(dcfg.facts_at(nd.id))
                        return _lgc.implies(prem, _lgc.parse(f"{norm(val.func.value)}.tzinfo is None"))
                    return False
            return None

        aware = dcfg.must_hold(rn.id, _edge, _node)
        ctx.check(aware, rule, "datetime.__new__:return", f"a path returns `{var}` without it having passed the naive->UTC normalisation (tzinfo tested / filled in), or it is "
                  "re-assigned afterwards", rn.ast, "every returned value is known to be aware", key=rule + ":datetime.__new__:return-not-normalised")

    # local-time sensitive operations: on a naive value they read the process time zone, so "naive means UTC" would depend on TZ
    _lg = _lgc

    n_sites = 0
    for c in calls_in(dn):
        if not isinstance(c.func, ast.Attribute):
            continue
        a = c.func.attr
        if a == "astimezone":
            n_sites += 1
            recv = norm(c.func.value)
            nd = dcfg.header_node_for_expr(c) or dcfg.node_of(c)
            aware = _lg.implies(_lg.facts_as_premises(dcfg.facts_at(nd.id)), _lg.parse(f"{recv}.tzinfo is not None"))
            ctx.check(aware, rule, f"datetime.__new__:astimezone({recv})", f"`{norm(c)}` can run for a naive `{recv}`: astimezone() reads a naive value as LOCAL time, so the stored "
                      "instant depends on the TZ of the process instead of being UTC", c, f"{recv} is known to be aware here", key=rule + ":datetime.__new__:astimezone-on-naive")
        elif a in ("fromtimestamp",):
            n_sites += 1
            has_tz = len(c.args) >= 2 or get_kw(c, "tz") is not None
            ctx.check(has_tz, rule, "datetime.__new__:fromtimestamp", f"`{norm(c)}` has no tz argument: the epoch value is converted to local time", c, "tz given",
                      key=rule + ":datetime.__new__:fromtimestamp-local")
        elif a in ("utcfromtimestamp", "utcnow", "today", "mktime", "localtime", "timetuple") and a != "timetuple":
            n_sites += 1
            ctx.fail(rule, f"datetime.__new__:{a}", f"`{norm(c)}` produces a naive / local-time value inside the constructor", c, key=rule + f":datetime.__new__:{a}")
        elif a == "now" and not c.args and not c.keywords:
            n_sites += 1
            ctx.fail(rule, "datetime.__new__:now()", "`now()` without a time zone is local time", c, key=rule + ":datetime.__new__:now-local")
    ctx.sample({"rule": rule, "local-time sensitive call sites in datetime.__new__": n_sites})
    # component-wise copies keep the fold bit: a wall time that occurs twice (end of DST) names two instants, fold tells which
    comp = ("year", "month", "day", "hour", "minute", "second", "microsecond")
    for c in calls_in(dn):
        srcs = {}
        for a in list(c.args) + [k.value for k in c.keywords]:
            if isinstance(a, ast.Attribute) and a.attr in comp and isinstance(a.value, ast.Name):
                srcs.setdefault(a.value.id, set()).add(a.attr)
        for src, got in srcs.items():
            if len(got) >= 6:
                f = get_kw(c, "fold")
                okf = f is not None and norm(f) == f"{src}.fold"
                ctx.check(okf, rule, f"datetime.__new__:copy-of({src}):fold", f"`{norm(c.func)}(...)` rebuilds the value from the components of `{src}` without fold={src}.fold: a wall time in the "
                          "repeated hour at the end of daylight saving (fold=1) becomes the first occurrence - the stored instant moves by the DST offset", c, f"fold={src}.fold is passed",
                          key=rule + ":datetime.__new__:copy-drops-fold")


def generated_fragments(prog, module, gen):
    """(node, text) for every piece of generated source in the code generator: string constants / concatenations, f-strings and
    `<template>.format(...)` calls, each rendered with its placeholders replaced by the identifier `x`.  The three spellings of one
    template line give the same text."""
    from ..core import copy_ast
    from ..strsym import render, text_structure

    out = []
    consumed = set()
    for n in walk_no_nested(gen):
        if id(n) in consumed:
            continue
        e = None
        if isinstance(n, ast.Call) and isinstance(n.func, ast.Attribute) and n.func.attr == "format" and not isinstance(getattr(n, "_parent", None), ast.Attribute):
            try:
                recv = prog.fold(module, n.func.value)
            except NotConst:
                recv = None
            if isinstance(recv, str):
                e = copy_ast(n)
                e.func.value = ast.Constant(value=recv)
        elif isinstance(n, ast.JoinedStr):
            e = n
        elif isinstance(n, (ast.Constant, ast.BinOp)) and not isinstance(getattr(n, "_parent", None), (ast.BinOp, ast.JoinedStr, ast.FormattedValue)):
            par = getattr(n, "_parent", None)
            if isinstance(par, ast.Attribute) and par.attr == "format":
                continue  # handled as the receiver of .format
            try:
                v = prog.fold(module, n)
            except NotConst:
                v = None
            if isinstance(v, str):
                # a plain constant that is itself a str.format template further on keeps its {placeholders}: instantiate them
                out.append((n, _instantiate(v)))
                for x in ast.walk(n):
                    consumed.add(id(x))
            continue
        if e is None:
            continue
        for x in ast.walk(n):
            consumed.add(id(x))
        out.append((n, render(text_structure(gen, e, follow=False)).replace("\t", "    ")))
    return out


def check_generated_value_tests(ctx, rule: str) -> None:
    """The constructor / decoder code that _generate_record_class writes for descriptors with keyword field names handles every
    field through one generic expression (kwargs.get(k, v) / the loop variable over the positional values). Whether a value was
    given is decided there by the dictionary default or an `is None` test - a truth test (`kwargs.get(k) or v`, `if v:`) turns
    0, '', b'', False and empty lists into 'not given'."""
    import textwrap

    prog = ctx.prog
    base = prog.module("flow.record.base")
    gen = ctx.anchor_func("flow.record.base._generate_record_class")
    ctx.rule(rule, "generated constructor/decoder code never uses a generic field value (kwargs.get(...), kwargs[...], the loop variable over the positional "
                   "values) as a truth value: presence is decided by the dict default or `is None`")
    n_frag = 0
    for node, text in generated_fragments(prog, base, gen):
        if "kwargs" not in text:
            continue
        code = textwrap.dedent(text).strip("\n")
        tree = None
        for attempt in (code, textwrap.dedent(code), "if 1:\n" + textwrap.indent(textwrap.dedent(code), " ")):
            try:
                tree = ast.parse(attempt)
                break
            except SyntaxError:
                continue
        if tree is None:
            continue
        n_frag += 1
        loopvars = set()
        for f in ast.walk(tree):
            if isinstance(f, (ast.For, ast.comprehension)) and "zip" in norm(f.iter):
                loopvars |= {x.id for x in ast.walk(f.target) if isinstance(x, ast.Name)}

        def generic(e):
            if isinstance(e, ast.NamedExpr):
                return generic(e.value)
            if isinstance(e, ast.Call) and norm(e.func) in ("kwargs.get", "kwargs.pop"):
                return True
            if isinstance(e, ast.Subscript) and norm(e.value) == "kwargs":
                return True
            return isinstance(e, ast.Name) and e.id in loopvars

        bad = []
        for sub in ast.walk(tree):
            if isinstance(sub, ast.BoolOp):
                bad += [v for v in sub.values[:-1] if generic(v)] + ([sub.values[-1]] if isinstance(sub.op, ast.And) and generic(sub.values[-1]) else [])
            elif isinstance(sub, (ast.If, ast.IfExp, ast.While)) and generic(sub.test):
                bad.append(sub.test)
            elif isinstance(sub, ast.UnaryOp) and isinstance(sub.op, ast.Not) and generic(sub.operand):
                bad.append(sub.operand)
            elif isinstance(sub, ast.comprehension):
                bad += [c for c in sub.ifs if generic(c)]
        ctx.check(not bad, rule, f"_generate_record_class:generated:{text.strip()[:40]}", f"the generated code tests the truth of `{norm(bad[0]) if bad else ''}`: a field value of 0, '', b'', "
                  "False, 0.0 or an empty list is treated as not given and becomes None (records with keyword-named fields, which readers construct by keyword)", node,
                  "presence decided by the dict default / `is None`", key=f"{rule}:generated-code:truth-test-on-value")
    ctx.floor(rule, "generated fragments handling generic field values", n_frag, 2)


def _instantiate(fragment: str) -> str:
    """Replace str.format placeholders of a generated-code fragment by a canonical identifier."""
    out = []
    try:
        for lit, fname, spec, conv in string.Formatter().parse(fragment):
            out.append(lit)
            if fname is not None:
                if spec and (len(spec) > 8 or any(ch in spec for ch in " ()[]:=")):
                    # not a format spec: generated dict / set syntax (`{f: expr for f in ...}`), kept as the code it is
                    out.append("{" + fname + ("!" + conv if conv else "") + ":" + spec + "}")
                else:
                    out.append("x")
    except ValueError:
        # not a format template (a lone brace of generated dict syntax)
        return fragment.replace("\t", "    ")
    return "".join(out).replace("\t", "    ")
