"""C19 - Avro export preserves supported values and never corrupts silently."""
from __future__ import annotations

import ast

from ..cfg import CFG
from ..core import copy_ast as _copy_ast
from .. import logic
from ..core import (AnalysisError, DefRef, NotConst, Ref, call_name, calls_in, dotted, enclosing_conditions, expand_aliases, expr_conditions, func_params, get_kw, norm, single_assign_aliases,
                    qualname_of, walk_no_nested)
from ..shapes import Shapes, fmt

PROPERTY = "C19"
EXPLANATION = (
    "Decides: (R19.1) refusal guards - descriptor_to_schema raises for a field type that is neither the timestamp type nor "
    "a key of the type table before a field schema is emitted; AvroWriter.write compares the WHOLE descriptor of every record "
    "with the file's descriptor and raises on a difference before anything is written; the reader raises without a schema; "
    "(R19.2) type tables - every Avro type the writer can emit is an Avro primitive the reader maps back, every key is a "
    "whitelisted flow type, and the packed shape of the flow type matches the Avro primitive (mismatches that fastavro refuses "
    "at run time - digest->bytes, uint32->int - are reported as info, the property allows refusal); (R19.3) descriptor "
    "embedding - the writer stores json.dumps(desc._pack()) whose shape the reader's detection predicate and destructuring "
    "match, and the schema fallback skips reserved fields; (R19.4) values reach fastavro as produced by Record._packdict "
    "(no lossy pre-conversion of timestamps through float seconds), the schema declares timestamp-micros, the reader rebuilds "
    "timestamps with integer microsecond arithmetic from a UTC-aware epoch. NOT decided: fastavro's validation and encoding, "
    "float precision."
    " Rules added after the sixth blind round: (R19.5) RecordDescriptor defines neither __len__ nor __bool__ (the writer tests the truth of self.desc); (R19.6 = R17.4 of C17, SplitWriter.write) the full part is finalised before the next one is opened."
    " Rules added after the seventh blind round: (R19.7 = R5.9 of C05) generated code never truth-tests a generic field value; the reader's schema refusal (R19.1) is decided by expanding the tested expression and self.schema to the same value and by dominance over the schema's first use."
    " (R19.8) every creation of fastavro.write.Writer on the writer's file is unreachable while a writer exists unless the file was truncated on the way - one container header per file whatever the order of flush() and write() (defect F19b, found by a sub-agent's differential test and fixed in 892b03f)."
)
RULE_SUMMARY = "instances: refusal sites, type-table rows, embedding sites, value-flow into writer.write"

AVRO_PRIMITIVES = {"null", "boolean", "int", "long", "float", "double", "bytes", "string"}
PRIMITIVE_PY = {"boolean": "bool", "int": "int", "long": "int", "float": "float", "double": "float", "bytes": "bytes", "string": "str"}
FLOW_PY = {  # python form of _pack() per flow type (derived from the class hierarchy below when possible)
    "boolean": "bool", "datetime": "datetime", "filesize": "int", "uint16": "int", "uint32": "int", "float": "float", "string": "str",
    "unix_file_mode": "int", "varint": "int", "wstring": "str", "uri": "str", "bytes": "bytes",
}


def check_one_container_header(ctx, rule: str) -> None:
    """fastavro.write.Writer(fp, schema) writes the container header when it is created. AvroWriter creates one in write() (first record)
    and one in flush() (placeholder schema, so that an empty output is a valid container). A second creation on a file that already has
    a header puts a second header behind the first: readers take the first schema for everything that follows."""
    from .. import logic as _lg

    prog = ctx.prog
    av = prog.module("flow.record.adapter.avro")
    wcls = ctx.anchor_cls("flow.record.adapter.avro.AvroWriter")
    ctx.rule(rule, "every creation of fastavro.write.Writer on self.fp is unreachable while self.writer is set, unless the file was started over "
                   "(self.fp.truncate()) on the way: one container header per file, whatever the order of flush() and write()")
    n = 0
    for mname, m in sorted(prog.methods_of(wcls).items()):
        sites = [c for c in calls_in(m) if norm(c.func).endswith("write.Writer") or getattr(prog.resolve_expr(av, c.func), "name", "").endswith("write.Writer")]
        if not sites:
            continue
        cfg = CFG(m)
        val = lambda a: True if a == "self.writer" else None  # noqa: E731
        rewinds = {cfg.node_of(c).id for c in calls_in(m) if norm(c.func) in ("self.fp.truncate",) and cfg.node_of(c) is not None}
        stores = {nd.id for nd in cfg.stmt_nodes() if isinstance(nd.ast, ast.Assign) and any(norm(t) == "self.writer" for t in nd.ast.targets)
                  and not (isinstance(nd.ast.value, ast.Call) and nd.ast.value in sites)}
        reach = _lg.reachable_assuming(cfg, cfg.entry, val, avoid=lambda nd: nd.id in rewinds or nd.id in stores)
        for c in sites:
            n += 1
            nd = cfg.node_of(c)
            ctx.check(nd is not None and nd.id not in reach, rule, f"AvroWriter.{mname}:second-header", f"`{norm(c)[:60]}` in {mname}() can run while a writer already exists on the same "
                      "file (flush() before the first record creates one with a placeholder schema): a second container header is written behind the first and every record "
                      "reads back as an empty record of the placeholder schema - no error on a stream target", c, "created only when there is no writer yet, or after the file was started over",
                      key=f"{rule}:AvroWriter.{mname}:second-container-header")
    ctx.floor(rule, "creations of fastavro.write.Writer in AvroWriter", n, 2)


def run(ctx):
    prog = ctx.prog
    av = prog.module("flow.record.adapter.avro")
    ctx.use(av)
    ctx.trust("fastavro validates every datum against the union [type, null] and raises for a value outside it (so an out-of-range or mistyped value is refused, not altered)")

    # ------------------------------------------------------------------ R19.1
    ctx.rule("R19.1", "unmapped field type -> raise before a field schema is appended; write(): whole-descriptor comparison -> raise before writer.write; reader: no schema -> raise")
    dts = ctx.anchor_func("flow.record.adapter.avro.descriptor_to_schema")
    dcfg = CFG(dts)
    gets = [c for c in calls_in(dts) if norm(c.func) == "AVRO_TYPE_MAP.get"]
    subs = [n for n in ast.walk(dts) if isinstance(n, ast.Subscript) and norm(n.value) == "AVRO_TYPE_MAP" and isinstance(n.ctx, ast.Load)]
    appends = [c for c in calls_in(dts) if isinstance(c.func, ast.Attribute) and c.func.attr == "append"]
    ctx.floor("R19.1", "field-schema append sites", len(appends), 1)
    if gets:
        if len(gets[0].args) > 1:
            ctx.fail("R19.1", "descriptor_to_schema:unmapped-type", f"an unmapped field type falls back to {norm(gets[0].args[1])} instead of being refused: values are written as a "
                     "different type", gets[0], key="R19.1:descriptor_to_schema:default-type")
        var = norm(gets[0]._parent.targets[0]) if isinstance(getattr(gets[0], "_parent", None), ast.Assign) else None
        from .. import logic as _lg19
        ok = var is not None
        if var is not None:
            # (a) with the lookup result missing (None / falsy) the function cannot reach a field-schema append nor return: it raises
            gnode = dcfg.node_of(gets[0])
            starts = [v for v, cnd in dcfg.succ[gnode.id] if not (cnd is not None and cnd[0] == "<exc>")]

            def missing(atom):
                if atom == var:
                    return False
                if atom in (f"{var} is None", f"{var} == None"):
                    return True
                if atom in (f"{var} is not None", f"{var} != None"):
                    return False
                return None

            reach = set()
            for s0 in starts:
                reach |= _lg19.reachable_assuming(dcfg, s0, missing, avoid=lambda n: n.id == gnode.id)
            app_ids = {dcfg.node_of(a).id for a in appends}
            ok = not (reach & app_ids) and dcfg.exit not in reach
            # (b) every use of the looked-up type is under a test that established it
            uses = [n for n in ast.walk(dts) if isinstance(n, ast.Name) and n.id == var and isinstance(n.ctx, ast.Load)]
            for u in uses:
                node = dcfg.header_node_for_expr(u) or dcfg.node_of(u)
                if node.kind == "test":
                    continue  # the test itself
                prem = _lg19.facts_as_premises(dcfg.facts_at(node.id))
                ok &= _lg19.implies(prem, _lg19.parse(var)) or _lg19.implies(prem, _lg19.parse(f"{var} is not None"))
        ctx.check(ok, "R19.1", "descriptor_to_schema:unmapped-type", "a field type without an Avro mapping is not refused before its schema is emitted", dts,
                  f"a missing `{var}` raises; every use is under a test that established it", key="R19.1:descriptor_to_schema:unmapped-not-refused")
    elif subs:
        ctx.ok("R19.1", "descriptor_to_schema:unmapped-type", "AVRO_TYPE_MAP[...] raises KeyError for an unmapped type", subs[0])
    else:
        ctx.fail("R19.1", "descriptor_to_schema:unmapped-type", "the type table is not consulted", dts, key="R19.1:descriptor_to_schema:no-table")
    wr = ctx.anchor_func("flow.record.adapter.avro.AvroWriter.write")
    wcfg = CFG(wr)
    r = func_params(wr)[1]
    sink = [c for c in calls_in(wr) if norm(c.func) == "self.writer.write"]
    if len(sink) != 1:
        raise AnalysisError("R19.1: self.writer.write(...) not found in AvroWriter.write")
    guards = [st for st in walk_no_nested(wr) if isinstance(st, ast.If) and st.body and isinstance(st.body[-1], ast.Raise)]
    good = None
    wal = single_assign_aliases(wr)
    for g in guards:
        t = expand_aliases(g.test, wal)
        if isinstance(t, ast.Compare) and len(t.ops) == 1 and isinstance(t.ops[0], ast.NotEq) and {norm(t.left), norm(t.comparators[0])} == {"self.desc", f"{r}._desc"}:
            good = g
    ok = good is not None and wcfg.dominates(wcfg.node_of(good).id, wcfg.node_of(sink[0]).id)
    shown = norm(guards[-1].test) if guards else "(no guard)"
    ctx.check(ok, "R19.1", "AvroWriter.write:mixed-types", f"records are only refused when `{shown}`: a second record type whose descriptor differs in a way this test ignores (e.g. same "
              "name, other fields) is written against the first type's schema - unknown fields dropped, missing ones written as null", guards[-1] if guards else wr,
              f"`self.desc != {r}._desc` -> raise dominates writer.write", key="R19.1:AvroWriter.write:weak-descriptor-test")
    # the schema the writer validates against is derived from the descriptor it holds - not looked up by name in something shared
    sdefs = [st for st in ast.walk(wr) if isinstance(st, ast.Assign) and any(norm(x) == "self.schema" for t in st.targets for x in ([t] if not isinstance(t, (ast.Tuple, ast.List)) else t.elts))]
    ctx.floor("R19.1", "assignments of self.schema in AvroWriter.write", len(sdefs), 1)
    for st in sdefs:
        v = expand_aliases(st.value, wal) if not isinstance(st.targets[0], (ast.Tuple, ast.List)) else st.value
        good = isinstance(v, ast.Call) and getattr(prog.resolve_expr(av, v.func), "qualname", "") == "flow.record.adapter.avro.descriptor_to_schema" and len(v.args) == 1 \
            and norm(expand_aliases(v.args[0], wal)) in ("self.desc", f"{r}._desc")
        ctx.check(good, "R19.1", "AvroWriter.write:schema-of-own-descriptor", f"self.schema is `{norm(st.value)[:60]}`, not descriptor_to_schema(<this writer's descriptor>): a schema obtained "
                  "any other way (e.g. a cache keyed by type name) can belong to another field list - fields are then dropped or written as null without error", st,
                  "self.schema = descriptor_to_schema(self.desc)", key="R19.1:AvroWriter.write:schema-provenance")
    # RecordDescriptor.__eq__ compares name and field tuples
    deq = ctx.anchor_func("flow.record.base.RecordDescriptor.__eq__")
    ctx.check("self.name == other.name" in norm(deq) and "get_field_tuples() == other.get_field_tuples()" in norm(deq), "R19.1", "RecordDescriptor.__eq__:name-and-fields",
              "descriptor equality does not compare name and field tuples", deq, "name and ordered field tuples")
    ri = ctx.anchor_func("flow.record.adapter.avro.AvroReader.__init__")
    # the value that ends up in self.schema is refused when falsy: `if not <E>: raise` where E and self.schema expand (through single
    # assignments of locals and of attributes of self) to the same expression, and the refusal comes before the schema is used
    ral = dict(single_assign_aliases(ri))
    sstores: dict = {}
    for st in walk_no_nested(ri):
        if isinstance(st, ast.Assign) and len(st.targets) == 1 and isinstance(st.targets[0], ast.Attribute) and norm(st.targets[0].value) == "self":
            sstores.setdefault(norm(st.targets[0]), []).append(st.value)

    def full(e, depth=0):
        e = expand_aliases(e, ral)
        if depth < 6:
            import copy as _copy
            class _A(ast.NodeTransformer):
                def visit_Attribute(self, n):
                    if norm(n) in sstores and len(sstores[norm(n)]) == 1 and isinstance(n.ctx, ast.Load):
                        return full(_copy_ast(sstores[norm(n)][0]), depth + 1)
                    return self.generic_visit(n)
            e = _A().visit(_copy_ast(e))
        return e

    want = norm(full(ast.parse("self.schema", mode="eval").body))
    rcfg = CFG(ri)
    use = next((c for c in calls_in(ri) if getattr(prog.resolve_expr(av, c.func), "qualname", "").endswith("schema_to_descriptor")), None)
    refusals = [st for st in walk_no_nested(ri) if isinstance(st, ast.If) and isinstance(st.test, ast.UnaryOp) and isinstance(st.test.op, ast.Not) and isinstance(st.body[-1], ast.Raise)
                and norm(full(st.test.operand)) == want]
    ctx.check(bool(refusals) and use is not None and rcfg.dominates(rcfg.node_of(refusals[0]).id, rcfg.node_of(use).id), "R19.1", "AvroReader.__init__:schema",
              "a container without a schema is not refused", ri, "raise when the schema is missing")

    # ------------------------------------------------------------------ R19.2
    ctx.rule("R19.2", "AVRO_TYPE_MAP: values are Avro primitives known to RECORD_TYPE_MAP; keys are whitelisted flow types; python form of the flow type fits the primitive")
    tm = prog.fold(av, ast.parse("AVRO_TYPE_MAP").body[0].value)
    rm = prog.fold(av, ast.parse("RECORD_TYPE_MAP").body[0].value)
    wl = prog.fold(prog.module("flow.record.whitelist"), ast.parse("WHITELIST").body[0].value)
    ctx.floor("R19.2", "entries of AVRO_TYPE_MAP", len(tm), 10)
    sh = Shapes(prog)
    for ft, at in sorted(tm.items()):
        construct = f"AVRO_TYPE_MAP[{ft}]={at}"
        ctx.check(at in AVRO_PRIMITIVES and at in rm, "R19.2", construct + ":primitive", f"{at} is not an Avro primitive the reader maps back", None, f"{at} -> {rm.get(at)}")
        ctx.check(ft in wl, "R19.2", construct + ":whitelisted", f"{ft} is not a whitelisted flow type", None, "whitelisted")
        py = FLOW_PY.get(ft)
        if ft == "datetime":
            continue
        if py is None:
            cls = prog.all_classes().get(f"flow.record.fieldtypes.{ft}")
            s = sh.pack_shape(cls) if cls is not None else None
            ctx.info("R19.2", f"{ft} -> {at}: packed shape is {fmt(s) if s else '?'}, not a plain {PRIMITIVE_PY.get(at)}; fastavro refuses such values at run time (refusal is allowed)", None)
            continue
        ok = py == PRIMITIVE_PY.get(at)
        ctx.check(ok, "R19.2", construct + ":python-form", f"{ft} packs to {py}, Avro {at} holds {PRIMITIVE_PY.get(at)}", None, f"{py} fits {at}", key=f"R19.2:{ft}:{at}:form-mismatch")
        if ft in ("uint32",) and at == "int":
            ctx.info("R19.2", "uint32 -> Avro int (32-bit signed): values above 2**31-1 are refused by fastavro's validation at run time (refusal is allowed)", None)
    # field schema is the union [type, null]: every value bound to the "type" key of a field schema (a dict that also has "name")
    fdicts = [n for n in ast.walk(dts) if isinstance(n, ast.Dict) and any(isinstance(k, ast.Constant) and k.value == "name" for k in n.keys)
              and not any(isinstance(k, ast.Constant) and k.value in ("fields", "namespace") for k in n.keys)]
    fnames = set()
    for d in fdicts:
        par = getattr(d, "_parent", None)
        if isinstance(par, ast.Assign):
            fnames |= {t.id for t in par.targets if isinstance(t, ast.Name)}
    tvals = [v for d in fdicts for k, v in zip(d.keys, d.values) if isinstance(k, ast.Constant) and k.value == "type"]
    tvals += [n.value for n in ast.walk(dts) if isinstance(n, ast.Assign) and isinstance(n.targets[0], ast.Subscript) and isinstance(n.targets[0].slice, ast.Constant)
              and n.targets[0].slice.value == "type" and norm(n.targets[0].value) in fnames]
    # a binding through a local (avro_types = [...] in both branches, then {"type": avro_types}): every definition of the local counts
    resolved = []
    for tv in tvals:
        if isinstance(tv, ast.Name):
            ds = [st.value for st in walk_no_nested(dts) if isinstance(st, ast.Assign) and len(st.targets) == 1 and norm(st.targets[0]) == tv.id]
            resolved += ds or [tv]
        else:
            resolved.append(tv)
    tvals = resolved
    ctx.floor("R19.2", "field-schema type bindings in descriptor_to_schema", len(tvals), 2)

    def _nullable(u):
        return isinstance(u, ast.List) and any((isinstance(e, ast.Constant) and e.value == "null") or (isinstance(e, ast.Dict) and any(isinstance(v, ast.Constant) and v.value == "null" for v in e.values))
                                               for e in u.elts)

    ok = bool(tvals) and all(_nullable(u) for u in tvals)
    ctx.check(ok, "R19.2", "descriptor_to_schema:nullable", "field schemas are not unions with null (unset fields could not be written)", dts, "[type, null]")
    dal = single_assign_aliases(dts)
    dparam = func_params(dts)[0]
    loops = [n for n in walk_no_nested(dts) if isinstance(n, ast.For) and norm(expand_aliases(n.iter, dal)) in (f"{dparam}.get_all_fields().values()", f"{dparam}.get_all_fields().items()")]

    def _own_loop(n):
        q = getattr(n, "_parent", None)
        while q is not None and not isinstance(q, (ast.For, ast.While)):
            q = getattr(q, "_parent", None)
        return q

    # every iteration contributes a field schema (or raises): from the loop header, the header cannot be reached again - nor the loop left by
    # break - without passing a statement that appends to / yields into the field list
    skipping = []
    for lp in loops:
        hdr = dcfg.node_of(lp)

        def adds(nd):
            a0 = nd.ast
            return a0 is not None and nd.kind == "stmt" and any(
                (isinstance(c, ast.Call) and isinstance(c.func, ast.Attribute) and c.func.attr in ("append", "add", "extend")) or isinstance(c, (ast.Yield,))
                or (isinstance(c, ast.Subscript) and isinstance(c.ctx, ast.Store)) for c in ast.walk(a0))

        starts = [v for v, _ in dcfg.succ[hdr.id] if dcfg.nodes[v].ast is not None and any(dcfg.nodes[v].ast is b or any(x is dcfg.nodes[v].ast for x in ast.walk(b)) for b in lp.body)]
        for s0 in starts:
            if adds(dcfg.nodes[s0]):
                continue
            reach = dcfg.reachable(s0, avoid=adds)
            if hdr.id in reach:
                skipping.append(lp)
        skipping += [n for n in ast.walk(lp) if isinstance(n, ast.Break) and _own_loop(n) is lp]
    ctx.check(len(loops) == 1 and not skipping, "R19.2", "descriptor_to_schema:all-fields", "the schema does not cover all fields incl. reserved ones", dts,
              "iterates desc.get_all_fields() without skipping")

    # ------------------------------------------------------------------ R19.3
    ctx.rule("R19.3", "doc = json.dumps(desc._pack()); reader: doc.startswith('[\"') and endswith(']]]') -> name, fields = json.loads(doc) -> RecordDescriptor(name, fields); fallback skips '_' fields")
    from ..core import dict_bindings

    doc = [v for n in ast.walk(dts) if isinstance(n, ast.Dict) for k, v in zip(n.keys, n.values) if isinstance(k, ast.Constant) and k.value == "doc"]
    if not doc:
        for rt0 in [x for x in walk_no_nested(dts) if isinstance(x, ast.Return) and x.value is not None]:
            _, binds, _ = dict_bindings(dts, rt0.value)
            if "doc" in binds:
                doc.append(binds["doc"])
    ctx.check(len(doc) == 1 and norm(expand_aliases(doc[0], dal)) == f"json.dumps({dparam}._pack())", "R19.3", "descriptor_to_schema:doc", "the descriptor is not embedded as json.dumps(desc._pack())", dts,
              "doc = json.dumps(desc._pack())", key="R19.3:descriptor_to_schema:doc")
    dp = prog.func("flow.record.base.RecordDescriptor._pack")
    rets = [x for x in walk_no_nested(dp) if isinstance(x, ast.Return)]
    ctx.check(len(rets) == 1 and isinstance(rets[0].value, ast.Tuple) and [norm(e) for e in rets[0].value.elts] == ["self.name", "self._field_tuples"], "R19.3", "RecordDescriptor._pack:shape",
              "RecordDescriptor._pack() is not (name, field tuples)", dp, "(name, ((type, name), ...))")
    std = ctx.anchor_func("flow.record.adapter.avro.schema_to_descriptor")
    scfg = CFG(std)
    sal = single_assign_aliases(std)
    det = next((st for st in walk_no_nested(std) if isinstance(st, ast.If) and "startswith" in norm(st.test) and "endswith" in norm(st.test)), None)
    loads = [a for a in walk_no_nested(std) if isinstance(a, ast.Assign) and isinstance(a.targets[0], ast.Tuple) and len(a.targets[0].elts) == 2 and isinstance(a.value, ast.Call)
             and call_name(a.value) == "json.loads" and len(a.value.args) == 1]
    ok = False
    nm = fl = None
    if det is not None and len(loads) == 1:
        dv = norm(loads[0].value.args[0])
        prem = logic.facts_as_premises(scfg.facts_at(scfg.node_of(loads[0]).id))
        ok = logic.implies(prem, logic.parse(f"{dv}.startswith('[\"')")) and logic.implies(prem, logic.parse(f"{dv}.endswith(']]]')"))
        nm, fl = [norm(e) for e in loads[0].targets[0].elts]
    ctx.check(ok, "R19.3", "schema_to_descriptor:embedded", "the embedded descriptor is not detected / destructured as (name, fields)", std, "name, fields = json.loads(doc)")
    rets = [x for x in walk_no_nested(std) if isinstance(x, ast.Return)]
    rok = bool(rets)
    fallback_lists = set()
    for rt_ in rets:
        v = rt_.value
        r_ = prog.resolve_expr(std._module, v.func) if isinstance(v, ast.Call) else None
        good_ctor = isinstance(r_, DefRef) and r_.qualname == "flow.record.base.RecordDescriptor" and len(v.args) == 2 and not v.keywords
        rok &= good_ctor
        if good_ctor:
            # the return that follows the embedded-descriptor branch hands over exactly what json.loads produced
            emb = nm is not None and [norm(a) for a in v.args] == [nm, fl]
            if not emb:
                fallback_lists.add(norm(v.args[1]))
    if nm is not None and not any([norm(a) for a in rt_.value.args] == [nm, fl] for rt_ in rets if isinstance(rt_.value, ast.Call)):
        rok = False
    if fallback_lists:
        fl = sorted(fallback_lists)[0]
    ctx.check(rok, "R19.3", "schema_to_descriptor:validated", "the descriptor is not rebuilt through RecordDescriptor (validation)", std,
              "RecordDescriptor(name, fields)")
    # fallback: a field whose name starts with "_" is never added
    apps = [c for c in calls_in(std) if isinstance(c.func, ast.Attribute) and c.func.attr == "append" and norm(c.func.value) == fl and c.args and isinstance(c.args[0], (ast.List, ast.Tuple))
            and len(c.args[0].elts) == 2]
    # the same thing written as a comprehension: fields = [[type, name] for f in ... if ...]
    sites = [(ap, ap.args[0]) for ap in apps]
    for st in walk_no_nested(std):
        if isinstance(st, ast.Assign) and len(st.targets) == 1 and norm(st.targets[0]) == fl and isinstance(st.value, (ast.ListComp, ast.GeneratorExp)) \
                and isinstance(st.value.elt, (ast.List, ast.Tuple)) and len(st.value.elt.elts) == 2:
            sites.append((st.value.elt, st.value.elt))
    ctx.floor("R19.3", "fallback field append sites", len(sites), 1)
    for ap, pair in sites:
        name_e = expand_aliases(pair.elts[1], sal)
        node = scfg.node_of(ap)
        prem = [(expand_aliases(e0, sal), p0) for e0, p0 in logic.facts_as_premises(scfg.facts_at(node.id))] + [(expand_aliases(e0, sal), p0) for e0, p0 in expr_conditions(ap)]
        goal = ast.UnaryOp(op=ast.Not(), operand=ast.Call(func=ast.Attribute(value=name_e, attr="startswith", ctx=ast.Load()), args=[ast.Constant(value="_")], keywords=[]))
        ctx.check(logic.implies(prem, goal), "R19.3", "schema_to_descriptor:fallback-skips-reserved", "the schema fallback does not skip reserved (_-prefixed) fields", ap, "reserved fields skipped")

    # ------------------------------------------------------------------ R19.4
    ctx.rule("R19.4", "the datum given to fastavro is r._packdict() unchanged (no float-seconds conversion of timestamps); reader: EPOCH + timedelta(microseconds=int)")
    arg = sink[0].args[0] if sink[0].args else None
    src = arg
    if isinstance(arg, ast.Name):
        defs = [st for st in walk_no_nested(wr) if isinstance(st, ast.Assign) and norm(st.targets[0]) == arg.id]
        src = defs[0].value if defs else None
        # any later modification of the datum
        mods = [n for n in ast.walk(wr) if isinstance(n, ast.Subscript) and isinstance(n.ctx, ast.Store) and norm(n.value) == arg.id]
        for m in mods:
            val = getattr(m, "_parent", None)
            vtxt = norm(val.value) if isinstance(val, ast.Assign) else norm(val)
            lossy = ".timestamp()" in vtxt or "time.mktime" in vtxt or _calls_float_epoch(prog, av, val)
            ctx.check(not lossy, "R19.4", f"AvroWriter.write:datum[{norm(m.slice)}]", f"the datum is rewritten with `{vtxt[:60]}`, which goes through float seconds: microseconds are lost for "
                      "part of the range and year-9999 values overflow on read", m, "no float-seconds conversion", key="R19.4:AvroWriter.write:float-epoch")
    ctx.check(src is not None and norm(src) == f"{r}._packdict()", "R19.4", "AvroWriter.write:datum", f"the datum is {norm(src) if src is not None else None}", sink[0], f"{r}._packdict()")
    pd = prog.func("flow.record.base.Record._packdict")
    ctx.check("self.__slots__" in norm(pd) and "_pack()" in norm(pd), "R19.4", "Record._packdict", "_packdict does not pack every slot", pd, "every slot, FieldType values packed")
    for c in calls_in(av.tree, nested=True):
        if isinstance(c.func, ast.Attribute) and c.func.attr in ("timestamp", "total_seconds") and not c.args:
            ctx.fail("R19.4", "avro:timestamp()", f"`{norm(c)}`: float seconds on the Avro storage path", c, key="R19.4:avro:float-epoch")
    it = ctx.anchor_func("flow.record.adapter.avro.AvroReader.__iter__")
    conv = [n for n in ast.walk(it) if isinstance(n, ast.BinOp) and isinstance(n.op, ast.Add) and norm(n.left) == "EPOCH"]
    ctx.check(bool(conv) and all("timedelta(microseconds=" in norm(n.right) for n in conv), "R19.4", "AvroReader.__iter__:timestamp", "timestamps are not rebuilt as EPOCH + timedelta(microseconds=value)",
              it, "integer microseconds from the epoch")
    ctor = [c for c in calls_in(it) if norm(c.func) == "self.desc.recordType" and any(k.arg is None for k in c.keywords)]
    ctx.check(bool(ctor), "R19.4", "AvroReader.__iter__:constructs", "records are not built through the record class (type conversion)", it, "self.desc.recordType(**obj)")

    # ------------------------------------------------------------------ R19.6 (sibling rule) split+avro: the part that is finalised is the one that was written
    ctx.import_rule("C17", "R17.4", "R19.6", "rdump --split -w avro://: on the limit the FULL part is flushed and closed before the next one is opened (a flush of the fresh part writes an empty container header that the next write trips over)",
                    constructs=["SplitWriter.write"])

    # ------------------------------------------------------------------ R19.5 "no descriptor yet" is not "a descriptor without fields"
    ctx.rule("R19.5", "AvroWriter.write opens the container when `not self.desc`: RecordDescriptor therefore defines neither __len__ nor __bool__ (a descriptor with no declared "
                      "fields would be falsy, the writer would start a new container for every record and its mixed-type guard would never fire)")
    rdc5 = prog.cls("flow.record.base.RecordDescriptor")
    truthy = [n for n in ("__len__", "__bool__") if n in prog.methods_of(rdc5)]
    aw5 = ctx.anchor_func("flow.record.adapter.avro.AvroWriter.write")
    tests5 = [t for t in ast.walk(aw5) if isinstance(t, (ast.If, ast.IfExp)) and norm(t.test) in ("not self.desc", "self.desc")]
    ctx.check(not truthy or not tests5, "R19.5", "RecordDescriptor:truthiness", f"RecordDescriptor defines {truthy} while AvroWriter.write tests the truth of self.desc", rdc5,
              "descriptors are always truthy (no __len__/__bool__), or the writer tests `is None`", key="R19.5:RecordDescriptor:falsy-descriptor")

    # ------------------------------------------------------------------ R19.8 one container header per file
    check_one_container_header(ctx, "R19.8")

    # ------------------------------------------------------------------ R19.7 (shared rule) the reader builds records by keyword: generated constructor code keeps falsy values
    from .c05 import check_generated_value_tests as _cgv19
    _cgv19(ctx, "R19.7")



def _calls_float_epoch(prog, module, node) -> bool:
    """Does the assigned value call a package function whose body uses datetime.timestamp()?"""
    for c in [n for n in ast.walk(node) if isinstance(n, ast.Call)]:
        r = prog.resolve_expr(module, c.func)
        if isinstance(r, DefRef) and isinstance(r.node, ast.FunctionDef):
            if any(isinstance(x, ast.Call) and isinstance(x.func, ast.Attribute) and x.func.attr == "timestamp" and not x.args for x in ast.walk(r.node)):
                return True
    return False
