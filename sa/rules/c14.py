"""C14 - JSON lines output round-trips and is plain JSON."""
from __future__ import annotations

import ast

from .. import logic
from ..cfg import CFG
from ..core import copy_ast as _copy_ast
from ..core import (AnalysisError, DefRef, NotConst, Ref, call_name, calls_in, dotted, enclosing_conditions, enclosing_conditions_expanded, expand_aliases,
                    func_params, get_kw, norm, qualname_of, walk_no_nested)

PROPERTY = "C14"
EXPLANATION = (
    "Decides: (R14.1) encode/decode table symmetry - for every JSON form the encoder produces that the field type's own "
    "constructor does not accept (decided from the constructor's isinstance dispatch: bytes does not accept text), the "
    "decoder contains the inverse conversion for the scalar AND the list form of that type; (R14.2) None discipline - every "
    "per-field conversion in the decoder and every per-field normalisation in the encoder is dominated by a fact that "
    "excludes None (unset fields are written as null and must stay null); (R14.3) one document per line: the writer appends "
    "exactly one newline to packer.pack(obj), json.dumps gets no newline-bearing separators, descriptor lines come only from "
    "the on_descriptor handler registered when descriptors are enabled, and the type markers are added only under "
    "pack_descriptors; (R14.4) boolean fields are normalised to JSON booleans for the declared type; (R14.5) the plain-JSON "
    "fallback of the reader derives its descriptor from the CURRENT line only (no state carried between lines). NOT decided: "
    "value identity after the round trip (big ints, NaN, surrogates inside json)."
    " Also decided (rules added after the fifth blind round): (R14.6) generated constructor code (records with keyword field names are built by keyword) never uses a generic field value as a truth value; (R14.3) the descriptor handler is registered exactly when descriptors are enabled."
    " Rules added after the sixth blind round: (R14.7 = R5.4 of C05) the digest setters validate before they store (the JSON form is the hex attributes)."
    " Rules added after the seventh blind round: (R14.8) a sub-module read as an attribute of its package by the JSON packer / adapter (fieldtypes.net) is imported by module-level code that has certainly run - the module-level import closure of flow.record/__init__ and of the using module; an import inside a function does not count. R14.3 finds the line writer also when it was folded into write() and the descriptor handler."
)
RULE_SUMMARY = "instances: encoder branches, decoder conversions, per-field normalisations, writer/line sites, fallback definitions"


def ctor_accepts(prog, cls, kinds=("str", "dict")):
    """Which builtin kinds does the class constructor dispatch on explicitly (isinstance tests in __new__/__init__), and does it reject others?"""
    accepted = set()
    rejects_others = False
    for mname in ("__new__", "__init__"):
        m = prog.class_attr(cls, mname)
        if not (isinstance(m, DefRef) and isinstance(m.node, ast.FunctionDef)):
            continue
        for n in ast.walk(m.node):
            if isinstance(n, ast.Call) and call_name(n) == "isinstance" and len(n.args) == 2:
                t = n.args[1]
                for x in (t.elts if isinstance(t, ast.Tuple) else [t]):
                    r = prog.resolve_expr(m.node._module, x)
                    nm = getattr(r, "name", None)
                    if nm and nm.startswith("builtins."):
                        accepted.add(nm.split(".")[1])
        for st in walk_no_nested(m.node):
            if isinstance(st, ast.If) and st.body and isinstance(st.body[-1], ast.Raise) and isinstance(st.test, ast.UnaryOp) and isinstance(st.test.op, ast.Not) \
                    and isinstance(st.test.operand, ast.Call) and call_name(st.test.operand) == "isinstance":
                rejects_others = True
    return accepted, rejects_others


def none_excluded(facts, target_text) -> bool:
    for t, p in facts:
        if p and t == f"{target_text} is not None":
            return True
        if (not p) and t == f"{target_text} is None":
            return True
        if p and t.startswith(f"isinstance({target_text}, "):
            return True
    return False


def eager_import_closure(prog, roots):
    """Modules whose code has certainly run once every module of `roots` has been imported: the transitive closure over MODULE-LEVEL import
    statements (also those under module-level try / if / with), plus the parent packages of everything imported. Imports inside functions
    and classes' methods happen later (or never) and do not count."""
    def module_level_imports(m):
        out = []
        stack = list(m.tree.body)
        while stack:
            st = stack.pop()
            if isinstance(st, (ast.Import, ast.ImportFrom)):
                out.append(st)
            elif isinstance(st, (ast.If, ast.Try, ast.With, ast.For, ast.While)) or type(st).__name__ == "TryStar":
                for attr in ("body", "orelse", "finalbody"):
                    stack += getattr(st, attr, []) or []
                for h in getattr(st, "handlers", []) or []:
                    stack += h.body
        return out

    def with_parents(name):
        parts = name.split(".")
        return [".".join(parts[:i]) for i in range(1, len(parts) + 1)]

    seen = set()
    todo = [r for r in roots]
    while todo:
        name = todo.pop()
        for q in with_parents(name):
            if q in seen or q not in prog.modules:
                continue
            seen.add(q)
            m = prog.modules[q]
            pkg = q if m.is_package else q.rpartition(".")[0]
            for st in module_level_imports(m):
                if isinstance(st, ast.Import):
                    todo += [a.name for a in st.names]
                else:
                    base_ = st.module or ""
                    if st.level:
                        anchor = pkg.split(".")
                        anchor = anchor[: len(anchor) - (st.level - 1)] if st.level > 1 else anchor
                        base_ = ".".join(anchor + ([st.module] if st.module else []))
                    todo.append(base_)
                    todo += [f"{base_}.{a.name}" for a in st.names if f"{base_}.{a.name}" in prog.modules]
    return seen


def check_submodule_attributes(ctx, rule, using):
    """`pkg.sub.X` where `sub` is a sub-module of `pkg` only works if somebody has imported pkg.sub before: the attribute is put on the
    package by the import system, not by the package's own code."""
    prog = ctx.prog
    ctx.rule(rule, "a sub-module reached as an attribute of its package (`fieldtypes.net.ipaddress`) has been imported by module-level code that certainly ran before: "
                   "it is in the module-level import closure of flow.record/__init__ and of the module that uses it - an import inside a function does not count")
    n = 0
    for mq in using:
        m = prog.module(mq)
        ctx.use(m)
        closure = eager_import_closure(prog, ["flow.record", mq])
        binds = {}
        for name, recs in m.symbols.items():
            for r in recs:
                if r[0] == "import" and r[1] in prog.modules:
                    binds[name] = r[1]
                elif r[0] == "from" and f"{r[1]}.{r[2]}" in prog.modules:
                    binds[name] = f"{r[1]}.{r[2]}"
        seen_sites = set()
        for a in ast.walk(m.tree):
            if not isinstance(a, ast.Attribute):
                continue
            chain = dotted(a)
            if not chain:
                continue
            parts = chain.split(".")
            if parts[0] not in binds:
                continue
            cur = binds[parts[0]]
            for attr in parts[1:]:
                sub = f"{cur}.{attr}"
                if sub not in prog.modules:
                    break
                if attr in prog.modules[cur].symbols and any(r[0] != "import" for r in prog.modules[cur].symbols[attr]):
                    cur = sub
                    continue  # the package binds the name itself (from . import sub / an assignment)
                if (sub, a.lineno) not in seen_sites:
                    seen_sites.add((sub, a.lineno))
                    n += 1
                    ctx.check(sub in closure, rule, f"{mq.split('.')[-1]}:{sub}", f"`{chain}` reads the sub-module {sub} as an attribute of its package, but no module-level import that "
                              f"certainly ran before ({mq} and what flow.record/__init__ pulls in) imports it: in a process where nothing else has imported it yet the access raises "
                              "AttributeError and the value cannot be written", a, f"{sub} imported at module level on the way", key=f"{rule}:{mq.split('.')[-1]}:{sub}:not-imported-eagerly")
                cur = sub
    ctx.floor(rule, "package-attribute accesses to sub-modules in the JSON packer / adapter", n, 1)


def expand_at(cfg, e, node_id, aliases):
    """`e` with every local that has exactly one plain assignment reaching CFG node `node_id` replaced by the assigned expression (locals
    assigned once in the whole function are expanded through `aliases` as before)."""
    import copy as _copy
    repl = {}
    for nm in [x for x in ast.walk(e) if isinstance(x, ast.Name) and isinstance(x.ctx, ast.Load) and x.id not in aliases]:
        defs_ = cfg.reaching_defs(nm.id).get(node_id, set())
        if len(defs_) == 1:
            dn_ = cfg.nodes[next(iter(defs_))].ast
            if isinstance(dn_, ast.Assign) and len(dn_.targets) == 1 and norm(dn_.targets[0]) == nm.id:
                repl[nm.id] = dn_.value
    if repl:
        class _R(ast.NodeTransformer):
            def visit_Name(self, n):
                return _copy_ast(repl[n.id]) if isinstance(n.ctx, ast.Load) and n.id in repl else n
        e = _R().visit(_copy_ast(e))
    return expand_aliases(e, aliases)


def json_line_writers(ctx):
    """The methods of JsonfileWriter that put a line on the file: the private `_write` where it exists, otherwise (the helper folded into
    its two callers) every method that calls self.fp.write. At least one must exist."""
    prog = ctx.prog
    cls = ctx.anchor_cls("flow.record.adapter.jsonfile.JsonfileWriter")
    meths = prog.methods_of(cls)
    if "_write" in meths:
        ctx.loc(meths["_write"])
        return [meths["_write"]]
    out = [m for m in meths.values() if any(isinstance(c.func, ast.Attribute) and c.func.attr == "write" and norm(c.func.value) == "self.fp" for c in calls_in(m))]
    if not out:
        raise AnalysisError("JsonfileWriter: no method writes a line to self.fp")
    for m in out:
        ctx.loc(m)
    return out

def run(ctx):
    from ..core import isinstance_alternatives

    prog = ctx.prog
    jm = prog.module("flow.record.jsonpacker")
    jf = prog.module("flow.record.adapter.jsonfile")
    ctx.use(jm, jf)
    ctx.trust("json.dumps without indent emits no newline; json.dumps(default=...) calls the hook for every object it cannot encode, at any depth")
    pack_obj = ctx.anchor_func("flow.record.jsonpacker.JsonRecordPacker.pack_obj")
    unpack_obj = ctx.anchor_func("flow.record.jsonpacker.JsonRecordPacker.unpack_obj")
    obj = func_params(pack_obj)[1]

    # ------------------------------------------------------------------ encoder table
    enc = []  # (class qualname, form, node)
    for st in walk_no_nested(pack_obj):
        alts = isinstance_alternatives(st.test, obj) if isinstance(st, ast.If) else None
        if alts is not None:
            classes = []
            for x in alts:
                r = prog.resolve_expr(jm, x)
                classes.append(getattr(r, "qualname", None) or getattr(r, "name", None) or norm(x))
            rets = [r for r in ast.walk(st) if isinstance(r, ast.Return) and r.value is not None]
            form = "other"
            for r in rets:
                v = r.value
                if isinstance(v, ast.Name):
                    vid = v.id
                    for a in ast.walk(st):
                        if isinstance(a, ast.Assign) and norm(a.targets[0]) == vid:
                            v = a.value
                if isinstance(v, ast.Dict) or (isinstance(v, ast.Call) and call_name(v) == "dict"):
                    form = "dict"
                elif isinstance(v, ast.Call) and call_name(v) == "str":
                    form = "str"
                elif isinstance(v, ast.Call) and isinstance(v.func, ast.Attribute) and v.func.attr == "isoformat":
                    form = "isoformat"
                elif isinstance(v, ast.Call) and isinstance(v.func, ast.Attribute) and v.func.attr == "decode" and "b64encode" in norm(v):
                    form = "base64"
            for c in classes:
                enc.append((c, form, st))
    ctx.floor("R14.1", "encoder branches of JsonRecordPacker.pack_obj", len(enc), 8)

    # ------------------------------------------------------------------ R14.1
    ctx.rule("R14.1", "for each JSON form that the field type's constructor does not accept as-is, unpack_obj inverts it for the scalar and the list form of the type")
    from ..core import expand_aliases, single_assign_aliases
    from ..logic import atoms as _atoms, formula as _formula, reachable_assuming

    ucfg = CFG(unpack_obj)
    ual = single_assign_aliases(unpack_obj)
    # the per-field loop of the decoder: for <type_var>, <name_var> in <descriptor>.get_field_tuples()
    dloop = next((n for n in ast.walk(unpack_obj) if isinstance(n, ast.For) and "get_field_tuples" in norm(n.iter) and isinstance(n.target, ast.Tuple)
                  and len(n.target.elts) == 2), None)

    def decoder_inverse(ft: str):
        """How does the decoder treat a NON-None value of a field of type `ft`?  Returns 'scalar', 'elementwise' or None."""
        if dloop is None:
            return None
        tvar = norm(dloop.target.elts[0])

        def valuation(atom):
            try:
                e = ast.parse(atom, mode="eval").body
            except SyntaxError:
                return None
            if isinstance(e, ast.Compare) and len(e.ops) == 1:
                l, r = e.left, e.comparators[0]
                if isinstance(e.ops[0], ast.Eq):
                    for a, b in ((l, r), (r, l)):
                        if norm(a) == tvar:
                            try:
                                return prog.fold(jm, b) == ft
                            except NotConst:
                                return None
                if isinstance(e.ops[0], ast.In) and norm(l) == tvar:
                    try:
                        return ft in prog.fold(jm, r)
                    except (NotConst, TypeError):
                        return None
                if isinstance(e.ops[0], ast.Is) and isinstance(r, ast.Constant) and r.value is None:
                    return False  # a set (non-None) value
            return None

        first = ucfg.node_of(dloop.body[0])
        from ..logic import with_flags

        reach = reachable_assuming(ucfg, first.id, with_flags(unpack_obj, valuation))
        kinds = set()
        for nd in ucfg.stmt_nodes():
            if nd.id not in reach or not isinstance(nd.ast, ast.Assign):
                continue
            t = nd.ast.targets[0]
            if not (isinstance(t, ast.Subscript) and not isinstance(t.slice, ast.Constant)):
                continue
            v = nd.ast.value
            # value built elsewhere (list accumulated in a loop)?
            srcs = [v]
            if isinstance(v, ast.Name):
                srcs = [a.value for a in ast.walk(dloop) if isinstance(a, ast.Assign) and norm(a.targets[0]) == v.id] + \
                       [c.args[0] for c in ast.walk(dloop) if isinstance(c, ast.Call) and isinstance(c.func, ast.Attribute) and c.func.attr in ("append", "extend")
                        and norm(c.func.value) == v.id and c.args]
            for src in srcs:
                for c in ast.walk(src):
                    if isinstance(c, ast.Call) and "b64decode" in norm(c.func) and c.args:
                        arg = expand_aliases(c.args[0], ual)
                        if isinstance(arg, ast.Name):
                            # the value fetched once into a local (assigned in each type branch): the definition that reaches this statement
                            defs_ = ucfg.reaching_defs(arg.id).get(nd.id, set())
                            if len(defs_) == 1:
                                dn_ = ucfg.nodes[next(iter(defs_))].ast
                                if isinstance(dn_, ast.Assign) and len(dn_.targets) == 1 and norm(dn_.targets[0]) == arg.id:
                                    arg = expand_aliases(dn_.value, ual)
                        whole = isinstance(arg, ast.Subscript) and norm(arg) == norm(t)
                        kinds.add("scalar" if whole else "elementwise")
        if "scalar" in kinds and "elementwise" not in kinds:
            return "scalar"
        if "elementwise" in kinds and "scalar" not in kinds:
            return "elementwise"
        return "+".join(sorted(kinds)) or None

    for c, form, node in enc:
        short = c.replace("flow.record.fieldtypes.", "").replace("flow.record.base.", "")
        if c in ("flow.record.base.Record", "flow.record.base.RecordDescriptor"):
            continue
        construct = f"pack_obj:{short}->{form}"
        if c == "builtins.bytes":
            cls = prog.cls("flow.record.fieldtypes.bytes")
            accepted, rejects = ctor_accepts(prog, cls)
            needs_inverse = rejects and "str" not in accepted
            if not needs_inverse:
                ctx.ok("R14.1", construct, "constructor accepts the text form", node)
                continue
            for ft, want in (("bytes", "scalar"), ("bytes[]", "elementwise")):
                got = decoder_inverse(ft)
                ctx.check(got == want, "R14.1", f"unpack_obj:inverse:{ft}", f"the encoder base64-encodes every bytes value (also inside {ft}) but for a set field of type {ft} "
                          f"the decoder applies {got or 'no'} base64 decoding (needs {want}): reading such a record fails or yields text", unpack_obj,
                          f"{ft}: {want} base64 inverse", key=f"R14.1:unpack_obj:no-inverse:{ft}")
            continue
        cls = prog.all_classes().get(c)
        if cls is None:
            if form in ("isoformat",):
                ctx.ok("R14.1", construct, "ISO text is accepted by the timestamp constructor (string path)", node)
            continue
        accepted, rejects = ctor_accepts(prog, cls)
        need = "dict" if form == "dict" else "str"
        if need in accepted or (need == "str" and not rejects and form in ("str", "isoformat")):
            ctx.ok("R14.1", construct, f"constructor dispatches on {need}", node)
        else:
            # no inverse possible through the constructor: must exist in the decoder, else the type is outside JSON support
            has_inv = decoder_inverse(short.split(".")[-1]) is not None
            if has_inv:
                ctx.ok("R14.1", construct, "decoder inverts it", node)
            else:
                ctx.info("R14.1", f"{short} is written as a JSON {form} that neither its constructor nor the decoder turns back into a {short} "
                         "(the property's supported list does not include this type)", node)

    # ------------------------------------------------------------------ R14.2 None discipline
    ctx.rule("R14.2", "per-field conversions in the decoder and per-field normalisations in the encoder are dominated by a fact excluding None")
    n_sites = 0
    for fn, container in ((unpack_obj, None), (pack_obj, None)):
        cfg = CFG(fn)
        for st in ast.walk(fn):
            if isinstance(st, ast.Assign) and len(st.targets) == 1 and isinstance(st.targets[0], ast.Subscript) and isinstance(st.value, (ast.Call, ast.ListComp, ast.Name)):
                tgt = st.targets[0]
                tgt_text = norm(tgt)
                fal0 = single_assign_aliases(fn)
                vx = expand_aliases(st.value, fal0)
                vx2 = expand_at(cfg, st.value, cfg.node_of(st).id, fal0)
                if not any(norm(n) == tgt_text for v_ in (vx, vx2) for n in ast.walk(v_) if isinstance(n, ast.Subscript)):
                    # a list accumulated from the slot's elements also converts the slot
                    if not (isinstance(st.value, ast.Name) and any(norm(x) == tgt_text or (isinstance(x, ast.Name) and x.id in fal0 and norm(fal0[x.id]) == tgt_text)
                                                                    for l in ast.walk(fn) if isinstance(l, ast.For) for x in [l.iter])):
                        continue  # not a conversion of the same slot
                if isinstance(tgt.slice, ast.Constant):
                    continue
                n_sites += 1
                node = cfg.node_of(st)
                facts = [(t, p) for t, p, _ in cfg.facts_at(node.id)]
                fal = single_assign_aliases(fn)
                same = {tgt_text} | {k for k, v in fal.items() if norm(v) == tgt_text} | \
                    {x.id for x in ast.walk(st.value) if isinstance(x, ast.Name) and norm(expand_at(cfg, x, node.id, fal)) == tgt_text}
                ok = any(none_excluded(facts, x) for x in same)
                ctx.check(ok, "R14.2", f"{fn.name}:{norm(st)[:60]}", f"`{norm(st)[:80]}` runs for an unset (None) field: " +
                          ("null is decoded with a conversion that raises / invents a value" if fn is unpack_obj else "None is written as a non-null JSON value and reads back as a set field"),
                          st, f"guarded: {tgt_text} is not None / isinstance(...)", key=f"R14.2:{fn.name}:none-unguarded:{norm(st.value)[:40]}")
    ctx.floor("R14.2", "per-field conversion sites in the JSON packer", n_sites, 3)

    # ------------------------------------------------------------------ R14.3 line discipline
    ctx.rule("R14.3", "writer: fp.write(packer.pack(obj) + '\\n'); dumps without newline separators; descriptor lines only from the handler registered under "
                      "`descriptors`; type markers only under pack_descriptors")
    for wr in json_line_writers(ctx):
        writes = [c for c in calls_in(wr) if isinstance(c.func, ast.Attribute) and c.func.attr == "write" and norm(c.func.value) == "self.fp"]
        ok = False
        if len(writes) == 1 and isinstance(writes[0].args[0], ast.BinOp) and isinstance(writes[0].args[0].op, ast.Add):
            a = writes[0].args[0]
            try:
                ok = prog.fold(jf, a.right) == "\n"
            except NotConst:
                ok = False
            src = a.left
            if isinstance(src, ast.Name):
                for st in walk_no_nested(wr):
                    if isinstance(st, ast.Assign) and norm(st.targets[0]) == src.id:
                        src = st.value
            ok = ok and isinstance(src, ast.Call) and norm(src.func) == "self.packer.pack" and [norm(x) for x in src.args] == func_params(wr)[1:2]
        ctx.check(ok, "R14.3", f"JsonfileWriter.{wr.name}:line", "a record is not written as exactly packer.pack(obj) followed by one newline", wr, "fp.write(pack(obj) + '\\n')",
                  key=f"R14.3:JsonfileWriter.{wr.name}:line")
    pk = ctx.anchor_func("flow.record.jsonpacker.JsonRecordPacker.pack")
    dumps = [c for c in calls_in(pk) if getattr(prog.resolve_expr(jm, c.func), "name", "") == "json.dumps"]
    ok = len(dumps) == 1 and get_kw(dumps[0], "separators") is None and norm(get_kw(dumps[0], "indent") or ast.Constant(None)) in ("self.indent", "None") \
        and norm(get_kw(dumps[0], "default")) == "self.pack_obj"
    ctx.check(ok, "R14.3", "JsonRecordPacker.pack:dumps", "json.dumps is called with unexpected separators/indent/default", pk, "json.dumps(obj, default=self.pack_obj, indent=self.indent)")
    # markers only under pack_descriptors
    marks = [n for n in ast.walk(pack_obj) if isinstance(n, ast.Subscript) and isinstance(n.ctx, ast.Store) and isinstance(n.slice, ast.Constant)
             and n.slice.value in ("_type", "_recorddescriptor")]
    ctx.floor("R14.3", "type-marker stores in pack_obj", len(marks), 2)
    for mk in marks:
        conds = enclosing_conditions_expanded(mk, pack_obj)
        ctx.check(("self.pack_descriptors", True) in conds, "R14.3", f"pack_obj:marker:{mk.slice.value}", f"`{mk.slice.value}` is added under {conds}: with descriptors disabled the "
                  "lines would carry keys that are not fields of the record", mk, "only under `if self.pack_descriptors`", key=f"R14.3:pack_obj:marker-unconditional:{mk.slice.value}")
    wi = ctx.anchor_func("flow.record.adapter.jsonfile.JsonfileWriter.__init__")
    adds = [c for c in calls_in(wi) if norm(c.func).endswith("on_descriptor.add_handler")]
    hok = False
    if len(adds) == 1:
        wcfg_i = CFG(wi)
        an = wcfg_i.node_of(adds[0])
        # only when enabled: `self.descriptors` holds wherever the handler is added ...
        only_when = logic.implies(logic.facts_as_premises(wcfg_i.facts_at(an.id)), logic.parse("self.descriptors"))
        # ... and always when enabled: with descriptors on, the constructor cannot finish without passing the registration
        always_when = wcfg_i.exit not in logic.reachable_assuming(wcfg_i, wcfg_i.entry, lambda a: True if a == "self.descriptors" else None, avoid=lambda n: n.id == an.id)
        hok = only_when and always_when
    ctx.check(hok, "R14.3", "JsonfileWriter.__init__:handler",
              "the descriptor handler is not registered exactly when descriptors are enabled", wi, "registered under `if self.descriptors`")
    packer_new = [c for c in calls_in(wi) if isinstance(prog.resolve_expr(jf, c.func), DefRef) and prog.resolve_expr(jf, c.func).qualname.endswith("JsonRecordPacker")]
    ind = get_kw(packer_new[0], "indent") if packer_new else None
    if ind is not None:
        from ..core import expand_aliases, single_assign_aliases
        ind = expand_aliases(ind, single_assign_aliases(wi))
    # the indent handed to the packer is the caller's option, at most converted from text: built from `indent` and int()/isinstance()/str only
    ind_names = {n.id for n in ast.walk(ind) if isinstance(n, ast.Name)} if ind is not None else set()
    # locals computed from the option alone (a copy that is converted in a branch) stand for it
    from_indent = {"indent"}
    grew = True
    while grew:
        grew = False
        for st0 in walk_no_nested(wi):
            if isinstance(st0, ast.Assign) and len(st0.targets) == 1 and isinstance(st0.targets[0], ast.Name) and st0.targets[0].id not in from_indent:
                defs0 = [a for a in walk_no_nested(wi) if isinstance(a, ast.Assign) and len(a.targets) == 1 and isinstance(a.targets[0], ast.Name) and a.targets[0].id == st0.targets[0].id]
                if all({n.id for n in ast.walk(a.value) if isinstance(n, ast.Name)} <= from_indent | {st0.targets[0].id, "int", "isinstance", "str"} and
                       not any(isinstance(n, ast.Constant) and isinstance(n.value, int) and not isinstance(n.value, bool) for n in ast.walk(a.value)) for a in defs0) \
                        and any({n.id for n in ast.walk(a.value) if isinstance(n, ast.Name)} & from_indent for a in defs0):
                    from_indent.add(st0.targets[0].id)
                    grew = True
    ind_names = {"indent" if n in from_indent else n for n in ind_names}
    ok = bool(packer_new) and norm(get_kw(packer_new[0], "pack_descriptors") or ast.Constant(None)) == "self.descriptors" and "indent" in ind_names and ind_names <= {"indent", "int", "isinstance", "str"} \
        and not any(isinstance(n, ast.Constant) and isinstance(n.value, int) and not isinstance(n.value, bool) for n in ast.walk(ind))
    ctx.check(ok, "R14.3", "JsonfileWriter.__init__:packer-options", "the packer is not configured from the writer's descriptors/indent options", wi,
              "JsonRecordPacker(indent=indent, pack_descriptors=self.descriptors)")

    # ------------------------------------------------------------------ R14.4 boolean normalisation
    ctx.rule("R14.4", "fields declared `boolean` are converted with bool() in the encoder (JSON true/false), driven by the descriptor's field tuples")
    from ..logic import facts_as_premises, implies, parse

    pcfg = CFG(pack_obj)
    from ..core import element_positions

    loops = [n for n in ast.walk(pack_obj) if isinstance(n, ast.For) and "get_field_tuples" in norm(n.iter)]
    ok = False
    for l in loops:
        pos = element_positions(l)
        tvars = [k for k, v in pos.items() if v == 0]
        item = l.target.id if isinstance(l.target, ast.Name) else None
        goals = [f"{t} == 'boolean'" for t in tvars] + ([f"{item}[0] == 'boolean'"] if item else [])
        for a in ast.walk(l):
            if isinstance(a, ast.Assign) and isinstance(a.value, ast.Call) and call_name(a.value) == "bool" and isinstance(a.targets[0], ast.Subscript):
                prem = facts_as_premises(pcfg.facts_at(pcfg.node_of(a).id))
                ok = any(implies(prem, parse(g)) for g in goals)
    ctx.check(ok, "R14.4", "pack_obj:boolean", "boolean fields are not normalised to bool", pack_obj, "bool(serial[field]) for boolean fields")

    # ------------------------------------------------------------------ R14.5 fallback derives from the current line
    ctx.rule("R14.5", "JsonfileReader: the descriptor used for a plain JSON line is built in the same iteration from that line's own keys and values")
    it = ctx.anchor_func("flow.record.adapter.jsonfile.JsonfileReader.__iter__")
    cfg = CFG(it)
    loop = next((n for n in walk_no_nested(it) if isinstance(n, ast.For)), None)
    if loop is None:
        raise AnalysisError("R14.5: line loop not found")
    line_var = norm(loop.target)
    def _is_desc_ctor(e):
        return isinstance(e, ast.Call) and getattr(prog.resolve_expr(jf, e.func), "qualname", "") == "flow.record.base.RecordDescriptor"

    ctor_calls = [c for c in calls_in(it) if any(isinstance(k, ast.keyword) and k.arg is None for k in c.keywords)
                  and ((isinstance(c.func, ast.Name) and not isinstance(prog.resolve_expr(jf, c.func), (DefRef, Ref))) or _is_desc_ctor(c.func))]
    ctx.floor("R14.5", "fallback record constructions in JsonfileReader.__iter__", len(ctor_calls), 1)
    for c in ctor_calls:
        if isinstance(c.func, ast.Name):
            dvar = c.func.id
            rdefs = cfg.reaching_defs(dvar)[cfg.node_of(c).id]
            defs = [cfg.nodes[i].ast for i in rdefs if cfg.nodes[i].ast is not None]
        else:
            # RecordDescriptor(...)(**line): the descriptor expression itself, as if assigned on the spot
            dvar = "<descriptor>"
            syn = ast.Assign(targets=[ast.Name(id=dvar, ctx=ast.Store())], value=c.func)
            syn._inline_desc = True
            defs = [syn]
        def derived_from_line(expr, depth=0):
            if depth > 6:
                return False
            for n in ast.walk(expr):
                if isinstance(n, ast.Attribute) and dotted(n) and dotted(n).startswith("self.") and not dotted(n).startswith("self.selector"):
                    return False
            names = {n.id for n in ast.walk(expr) if isinstance(n, ast.Name) and isinstance(n.ctx, ast.Load)}
            ok = True
            for nm in names:
                if nm == line_var or prog.resolve_global(jf, nm) is not None or nm in ("key", "val", "k", "v"):
                    continue
                srcs = [st for st in ast.walk(loop) if isinstance(st, ast.Assign) and any(norm(t) == nm for t in st.targets)]
                # values put into a list that is filled in place, and loop variables bound inside the line loop
                srcs += [ast.Assign(targets=[], value=cc.args[0]) for cc in ast.walk(loop) if isinstance(cc, ast.Call) and isinstance(cc.func, ast.Attribute)
                         and cc.func.attr in ("append", "add", "extend") and norm(cc.func.value) == nm and cc.args]
                inner = [f2 for f2 in ast.walk(loop) if isinstance(f2, ast.For) and f2 is not loop and nm in {x.id for x in ast.walk(f2.target) if isinstance(x, ast.Name)}]
                if inner:
                    srcs += [ast.Assign(targets=[], value=f2.iter) for f2 in inner]
                comp_bound = any(isinstance(g, ast.comprehension) and nm in {x.id for x in ast.walk(g.target) if isinstance(x, ast.Name)} for g in ast.walk(expr))
                if comp_bound:
                    continue
                if not srcs:
                    return False
                ok &= all(derived_from_line(s.value, depth + 1) for s in srcs)
            return ok
        good = bool(defs) and all(isinstance(d, ast.Assign) and isinstance(d.value, ast.Call) and
                                  getattr(prog.resolve_expr(jf, d.value.func), "qualname", "") == "flow.record.base.RecordDescriptor" and
                                  (getattr(d, "_inline_desc", False) or any(d in list(ast.walk(s0)) for s0 in loop.body)) and derived_from_line(d.value) for d in defs)
        ctx.check(good, "R14.5", f"JsonfileReader.__iter__:{dvar}", f"the descriptor for a plain JSON line is defined by {[norm(d)[:60] for d in defs]}: it does not derive from the "
                  "current line alone (e.g. a cache keyed by the key names), so the field types of an earlier line coerce later values", c,
                  "descriptor built from the current line", key="R14.5:JsonfileReader.__iter__:descriptor-not-from-line")
    state = [n for n in ast.walk(it) if isinstance(n, (ast.Attribute, ast.Subscript)) and isinstance(n.ctx, ast.Store) and (dotted(n) or dotted(getattr(n, "value", None)) or "").startswith("self.")]
    ctx.check(not state, "R14.5", "JsonfileReader.__iter__:stateless", f"iteration stores reader state ({norm(state[0]) if state else ''})", it, "no state carried between lines")

    # ------------------------------------------------------------------ R14.6 generated code and falsy values
    from .c05 import check_generated_value_tests
    check_generated_value_tests(ctx, "R14.6")

    # ------------------------------------------------------------------ R14.8 sub-modules used as package attributes are imported eagerly
    check_submodule_attributes(ctx, "R14.8", ["flow.record.jsonpacker", "flow.record.adapter.jsonfile"])

    # ------------------------------------------------------------------ R14.7 (sibling rule) what the JSON packer serialises was validated
    ctx.import_rule("C05", "R5.4", "R14.7", "the JSON form of a digest is its hex attributes: a rejected assignment must leave them unchanged, or the line carries a value the reader refuses")

