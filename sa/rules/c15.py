"""C15 - Record composition follows the documented precedence rules."""
from __future__ import annotations

import ast

from ..cfg import CFG, stored_paths
from .. import logic
from ..core import (expand_aliases, single_assign_aliases, AnalysisError, DefRef, NotConst, Ref, call_name, calls_in, dotted, enclosing_conditions, func_params, get_kw, norm,
                    qualname_of, walk_no_nested)

PROPERTY = "C15"
EXPLANATION = (
    "Decides: (R15.1) the composition functions do not modify their inputs - no attribute/item store into, and no mutating "
    "method call on, a parameter or a value read from one; (R15.2) reaching definitions - every read of a FIELD VALUE from an "
    "input record (getattr(rec, name), rec._asdict()) is reached only by the parameter's own definition, never by a composed "
    "record assigned in an earlier loop iteration (a composed record shadows fields under first-wins precedence); (R15.3) "
    "precedence coherence in extend_record by symbolic sequence evaluation: without replace the value maps are given to "
    "ChainMap in the order (record, *others); with replace in exactly the reverse order; the descriptors are merged in the "
    "original order under the same flag; (R15.4) merge_record_descriptors keeps the first type unless replace, and a grouped "
    "record lets the first member win; (R15.5) the per-timestamp expansion builds (ts=value of the field, ts_description=its "
    "name) in the field order of the timestamp descriptor and puts it first. NOT decided: resulting field order arithmetic, "
    "merged types, projection results - value level."
    " Also decided (rules added after the fifth blind round): (R15.6) RecordDescriptor.__eq__ answers True only when name and field tuples are equal - the merge and projection caches are keyed by it."
    " Rules added after the sixth blind round: (R15.7) GroupedRecord._asdict/_replace read every value from the owning member and do not merge member dicts (plain attribute access: known finding F15c); (R15.8 = R5.9) generated constructor code never truth-tests a generic field value."
    " Rules added after the seventh blind round: (R15.9) GroupedRecord._replace builds the new group from fresh copies of the members, never from the members of the receiver."
)
RULE_SUMMARY = "instances: (function, parameter) effect pairs, field reads with their reaching definitions, symbolic sequences per flag value, guards"

MUTATORS = {"append", "extend", "insert", "pop", "popitem", "remove", "clear", "update", "setdefault", "sort", "reverse", "add", "discard", "move_to_end",
            "__setitem__", "__delitem__", "__setattr__"}
COMPOSERS = [
    "flow.record.base.merge_record_descriptors", "flow.record.base.extend_record", "flow.record.base.iter_timestamped_records",
    "flow.record.base.GroupedRecord.__init__", "flow.record.base.Record._replace", "flow.record.base.GroupedRecord._replace",
    "flow.record.base.RecordDescriptor.init_from_dict", "flow.record.base.RecordDescriptor.init_from_record", "flow.record.base.RecordDescriptor.extend",
    "flow.record.stream.RecordFieldRewriter.rewrite", "flow.record.stream.RecordFieldRewriter.record_descriptor_for_fields",
]


# ---------------------------------------------------------------------- symbolic sequences (R15.3)
def seq_rev(s):
    return [(k, n, (not r) if k == "star" else r) for k, n, r in reversed(s)]


class SeqEval:
    """Evaluate order-relevant expressions to a sequence of atoms ('one', name, False) / ('star', name, reversed?)."""

    def __init__(self, fn, flag, flag_value):
        self.fn, self.flag, self.flag_value = fn, flag, flag_value
        self.env = {}

    def truth(self, test):
        t = norm(test)
        if t == self.flag:
            return self.flag_value
        if t == f"not {self.flag}":
            return not self.flag_value
        return None

    def run(self, stmts):
        for st in stmts:
            if isinstance(st, ast.Assign):
                v = self.expr(st.value)
                for t in st.targets:
                    if isinstance(t, ast.Name):
                        if v is not None:
                            self.env[t.id] = v
                        else:
                            self.env.pop(t.id, None)
                    elif isinstance(t, (ast.Tuple, ast.List)) and v is not None:
                        # a, *b = seq
                        star = [i for i, e in enumerate(t.elts) if isinstance(e, ast.Starred)]
                        if len(star) == 1 and all(k == "one" for k, _, _ in v[: star[0]]) and len(v) >= len(t.elts) - 1:
                            i = star[0]
                            tail = len(t.elts) - i - 1
                            for j, e in enumerate(t.elts[:i]):
                                if isinstance(e, ast.Name):
                                    self.env[e.id] = [v[j]]
                            self.env[t.elts[i].value.id] = v[i: len(v) - tail]
                            for j, e in enumerate(t.elts[i + 1:]):
                                if isinstance(e, ast.Name):
                                    self.env[e.id] = [v[len(v) - tail + j]]
            elif isinstance(st, ast.If):
                tv = self.truth(st.test)
                if tv is True:
                    self.run(st.body)
                elif tv is False:
                    self.run(st.orelse)
                else:
                    # a branch on something else must not touch tracked sequences
                    touched = {t.id for s0 in st.body + st.orelse for n in ast.walk(s0) if isinstance(n, ast.Assign) for t in n.targets if isinstance(t, ast.Name)}
                    if touched & set(self.env):
                        raise AnalysisError(f"R15.3: order-relevant variable assigned under `{norm(st.test)}` - not modelled")
            elif isinstance(st, ast.Expr) and isinstance(st.value, ast.Call) and isinstance(st.value.func, ast.Attribute) and isinstance(st.value.func.value, ast.Name) \
                    and st.value.func.value.id in self.env:
                # in-place operations on a tracked sequence
                nm_, op = st.value.func.value.id, st.value.func.attr
                if op == "reverse" and not st.value.args:
                    self.env[nm_] = seq_rev(self.env[nm_])
                elif op in ("sort", "insert", "pop", "remove", "extend", "append", "clear"):
                    raise AnalysisError(f"R15.3: in-place {op}() on an order-relevant sequence - not modelled")
            elif isinstance(st, (ast.Return, ast.Expr)):
                pass

    def expr(self, e):
        if isinstance(e, ast.Name):
            return self.env.get(e.id, [("one", e.id, False)] if e.id in func_params(self.fn) and not self._is_seq_param(e.id) else
                                ([("star", e.id, False)] if e.id in func_params(self.fn) else None))
        if isinstance(e, (ast.Tuple, ast.List)):
            out = []
            for x in e.elts:
                if isinstance(x, ast.Starred):
                    s = self.expr(x.value)
                    if s is None:
                        return None
                    out += s
                else:
                    s = self.expr(x)
                    if s is None or len(s) != 1:
                        return None
                    out += s
            return out
        if isinstance(e, ast.Subscript) and isinstance(e.slice, ast.Slice):
            s = self.expr(e.value)
            if s is None:
                return None
            sl = e.slice
            if sl.lower is None and sl.upper is None and sl.step is None:
                return s
            if sl.lower is None and sl.upper is None and norm(sl.step) == "-1":
                return seq_rev(s)
            raise AnalysisError(f"R15.3: slice {norm(e)} of an order-relevant sequence - not modelled")
        if isinstance(e, ast.Call):
            cn = call_name(e)
            if cn in ("tuple", "list") and len(e.args) == 1:
                return self.expr(e.args[0])
            if cn == "reversed" and len(e.args) == 1:
                s = self.expr(e.args[0])
                return None if s is None else seq_rev(s)
            if cn == "sorted":
                raise AnalysisError("R15.3: sorted() on an order-relevant sequence")
            if cn == "map" and len(e.args) == 2:
                return self.expr(e.args[1])
            return None
        if isinstance(e, (ast.GeneratorExp, ast.ListComp)) and len(e.generators) == 1 and not e.generators[0].ifs:
            return self.expr(e.generators[0].iter)
        if isinstance(e, ast.IfExp):
            tv = self.truth(e.test)
            if tv is True:
                return self.expr(e.body)
            if tv is False:
                return self.expr(e.orelse)
            return None
        if isinstance(e, ast.BinOp) and isinstance(e.op, ast.Add):
            a, b = self.expr(e.left), self.expr(e.right)
            return None if a is None or b is None else a + b
        return None

    def _is_seq_param(self, name):
        a = self.fn.args
        for p in a.args + a.kwonlyargs:
            if p.arg == name and p.annotation is not None and any(k in norm(p.annotation) for k in ("list", "List", "Sequence", "tuple", "Iterable")):
                return True
        return name.endswith("s") and name not in ("cls",)


def fmt_seq(s):
    return "(" + ", ".join((n if k == "one" else ("*reversed(" + n + ")" if r else "*" + n)) for k, n, r in s) + ")" if s is not None else "?"


def check_grouped_values(ctx, rule: str) -> None:
    prog = ctx.prog
    ctx.rule(rule, "GroupedRecord keeps its own bookkeeping in instance attributes (name, records, descriptors, flat_fields): attribute lookup on the group finds "
                      "those before __getattr__ is asked, so a member field of the same name is shadowed. _asdict() and _replace() - what every flat writer and "
                      "the composition functions use - therefore read each value from the owning member (fieldname_to_record[k]), not through getattr(self, k)")
    gcls = prog.cls("flow.record.base.GroupedRecord")
    ginit = prog.methods_of(gcls)["__init__"]
    own_attrs = sorted({t.attr for st in walk_no_nested(ginit) if isinstance(st, ast.Assign) for t in st.targets
                        if isinstance(t, ast.Attribute) and norm(t.value) == "self" and not t.attr.startswith("_")})
    ctx.floor(rule, "public bookkeeping attributes of GroupedRecord", len(own_attrs), 2)
    # plain attribute access cannot be repaired the same way: these names are the class's public API. A bookkeeping attribute whose name is a
    # valid field name shadows a member field of that name (recorded as a known finding; it disappears when the attributes become private)
    if rule == "R15.7":
        ctx.check(not own_attrs, rule, "GroupedRecord:attribute-shadowing", f"the group's own attributes {own_attrs} are valid field names: `g.<name>` returns the group's "
                  "attribute, not the member's field of that name", ginit, "bookkeeping attributes start with an underscore", key="R15.7:GroupedRecord:attribute-shadowing" if rule == "R15.7" else f"{rule}:GroupedRecord:attribute-shadowing")
    for mname in ("_asdict", "_replace"):
        gm = prog.methods_of(gcls).get(mname)
        if gm is None:
            continue
        me7 = func_params(gm)[0]
        shadowed = [c for c in calls_in(gm, nested=True) if call_name(c) == "getattr" and len(c.args) >= 2 and norm(c.args[0]) == me7 and not isinstance(c.args[1], ast.Constant)]
        ctx.check(not shadowed, rule, f"GroupedRecord.{mname}:value-source", f"`{norm(shadowed[0]) if shadowed else ''}` reads field values through attribute lookup on the group: for a member field "
                  f"named {own_attrs} it returns the group's own attribute (the group name, the member list) instead of the member's value", shadowed[0] if shadowed else gm,
                  "getattr(self.fieldname_to_record[k], k)", key=f"{rule}:GroupedRecord.{mname}:reads-through-group-attributes")

    # first member wins in the flat view as well: _asdict takes every value from the owner recorded in fieldname_to_record (filled first-come in
    # __init__) - it does not merge the members' own dicts, where a later member would overwrite an earlier one
    gad = prog.methods_of(gcls).get("_asdict")
    if gad is not None:
        merges = [c for c in calls_in(gad, nested=True) if isinstance(c.func, ast.Attribute) and c.func.attr in ("update", "_asdict") and norm(c.func.value) != func_params(gad)[0]]
        owner_reads = [c for c in calls_in(gad, nested=True) if call_name(c) == "getattr" and c.args and "fieldname_to_record" in norm(expand_aliases_(c.args[0], gad))]
        ctx.check(not merges, rule, "GroupedRecord._asdict:first-member-wins", f"_asdict builds the flat view by `{norm(merges[0])[:50] if merges else 'something other than owner lookups'}`: "
                  "merging the members' dicts in order lets the LAST member's value (and metadata) win, the documented precedence is the first", merges[0] if merges else gad,
                  "values come from fieldname_to_record[k]", key=f"{rule}:GroupedRecord._asdict:not-first-wins")


def expand_aliases_(e, fn):
    from ..core import expand_aliases, single_assign_aliases
    return expand_aliases(e, single_assign_aliases(fn))


def check_descriptor_equality(ctx, rule: str) -> None:
    prog = ctx.prog
    ctx.rule(rule, "the merge and projection caches are keyed by RecordDescriptor objects: RecordDescriptor.__eq__ answers True only when the complete "
                      "definitions (name and field tuples) are equal - never on the strength of the 32-bit identifier hash, which distinct definitions can share")
    from .. import logic as _lg

    deq = ctx.anchor_func("flow.record.base.RecordDescriptor.__eq__")
    me, other = func_params(deq)[:2]
    full_forms = [f"{me}.get_field_tuples() == {other}.get_field_tuples()", f"{me}._field_tuples == {other}._field_tuples", f"{me}.fields == {other}.fields",
                  f"{me}._pack() == {other}._pack()", f"{me}.get_all_fields() == {other}.get_all_fields()"]
    dcfg = CFG(deq)
    n_ret = 0
    for rn in [n for n in dcfg.stmt_nodes() if isinstance(n.ast, ast.Return) and n.ast.value is not None]:
        v = rn.ast.value
        if isinstance(v, ast.Constant) and v.value is False or norm(v) == "NotImplemented":
            continue
        n_ret += 1
        prem = _lg.facts_as_premises(dcfg.facts_at(rn.id)) + ([] if isinstance(v, ast.Constant) else [(v, True)])
        by_def = any(_lg.implies(prem, _lg.parse(t)) for t in full_forms) and any(_lg.implies(prem, _lg.parse(t)) for t in (f"{me}.name == {other}.name", f"{me}._pack() == {other}._pack()"))
        ctx.check(by_def, rule, f"RecordDescriptor.__eq__:return {norm(v)[:40]}", f"`{norm(v)[:80]}` can be True without the names and the field tuples having been compared: two "
                  "definitions whose identifier hashes collide are taken for the same descriptor and the second one is served the first one's cached merge / projection", rn.ast,
                  "True only if name and field tuples are equal", key=f"{rule}:RecordDescriptor.__eq__:not-by-definition")
    ctx.floor(rule, "affirmative returns of RecordDescriptor.__eq__", n_ret, 1)


def run(ctx):
    prog = ctx.prog
    base = prog.module("flow.record.base")
    ctx.use(base, prog.module("flow.record.stream"))
    ctx.trust("collections.ChainMap gives the first mapping priority; Record._asdict() returns a fresh OrderedDict")

    # ------------------------------------------------------------------ R15.1 inputs are not modified
    ctx.rule("R15.1", "composition functions never store into, delete from, or call a mutating method on a parameter or a value obtained from one")
    n_params = 0
    for q in COMPOSERS:
        fn = ctx.anchor_func(q)
        params = func_params(fn)
        is_method = isinstance(getattr(fn, "_parent", None), ast.ClassDef)
        inputs = set(params[1:] if is_method else params)
        if fn.args.kwarg:
            inputs.discard(fn.args.kwarg.arg)  # **kwds is a fresh dict owned by the callee
        # aliases: loop variables over an input, names assigned from an input attribute
        alias = set(inputs)
        fresh = set()
        for st in walk_no_nested(fn):
            if isinstance(st, ast.Assign) and isinstance(st.targets[0], ast.Name):
                v = st.value
                if isinstance(v, (ast.Dict, ast.List, ast.Set, ast.DictComp, ast.ListComp, ast.Tuple, ast.Constant)) or (
                        isinstance(v, ast.Call) and (call_name(v) or "").split(".")[-1] in ("list", "dict", "tuple", "set", "OrderedDict", "copy", "_asdict", "ChainMap")):
                    fresh.add(st.targets[0].id)
                    alias.discard(st.targets[0].id)
        for st in walk_no_nested(fn):
            if isinstance(st, (ast.For, ast.comprehension)) and any(isinstance(n, ast.Name) and n.id in alias for n in ast.walk(st.iter)):
                for t in ast.walk(st.target):
                    if isinstance(t, ast.Name) and t.id not in fresh:
                        alias.add(t.id)
        short = q.replace("flow.record.", "")
        for p in sorted(inputs):
            n_params += 1
        for n in ast.walk(fn):
            bad = None
            if isinstance(n, (ast.Attribute, ast.Subscript)) and isinstance(n.ctx, (ast.Store, ast.Del)):
                root = n.value
                while isinstance(root, (ast.Attribute, ast.Subscript)):
                    root = root.value
                if isinstance(root, ast.Name) and root.id in alias and root.id not in fresh:
                    # re-binding a parameter name to a fresh value earlier makes it not an input any more: check reaching defs
                    cfg = CFG(fn)
                    node = cfg.node_of(n)
                    rd = cfg.reaching_defs(root.id)[node.id] if node is not None else {cfg.entry}
                    if cfg.entry in rd or root.id not in params:
                        bad = f"stores into {norm(n)}"
            elif isinstance(n, ast.Call) and isinstance(n.func, ast.Attribute) and n.func.attr in MUTATORS:
                root = n.func.value
                while isinstance(root, (ast.Attribute, ast.Subscript)):
                    root = root.value
                if isinstance(root, ast.Name) and root.id in alias and root.id not in fresh and not (isinstance(n.func.value, ast.Name) and n.func.value.id in fresh):
                    cfg = CFG(fn)
                    node = cfg.node_of(n)
                    rd = cfg.reaching_defs(root.id)[node.id] if node is not None else {cfg.entry}
                    if (cfg.entry in rd or root.id not in params) and not _is_self_state(n.func.value, params, is_method):
                        bad = f"calls {norm(n.func)}()"
            elif isinstance(n, ast.Call) and call_name(n) in ("setattr", "delattr") and n.args and isinstance(n.args[0], ast.Name) and n.args[0].id in alias:
                bad = f"{call_name(n)}({n.args[0].id}, ...)"
            if bad:
                ctx.fail("R15.1", f"{short}:{bad}", f"{short} {bad}: an input record/descriptor/list is modified by the composition", n, key=f"R15.1:{short}:{bad}")
        ctx.ok("R15.1", f"{short}:inputs-unmodified", f"inputs {sorted(inputs)} (and loop aliases) are only read", fn)
    ctx.floor("R15.1", "(function, input parameter) pairs", n_params, 15)

    # ------------------------------------------------------------------ R15.2 reaching definitions of field reads
    ctx.rule("R15.2", "a field value is read from an input record only where the parameter's own definition is the sole reaching definition of that name")
    n_reads = 0
    for q in ("flow.record.base.iter_timestamped_records", "flow.record.base.extend_record", "flow.record.base.GroupedRecord._replace",
              "flow.record.base.Record._replace", "flow.record.stream.RecordFieldRewriter.rewrite"):
        fn = ctx.anchor_func(q)
        cfg = CFG(fn)
        params = func_params(fn)
        short = q.replace("flow.record.", "")
        # names that hold an ORIGINAL input: parameters and plain copies `x = param`
        for c in calls_in(fn):
            target = None
            if call_name(c) == "getattr" and len(c.args) >= 2 and isinstance(c.args[0], ast.Name):
                target = c.args[0].id
            elif isinstance(c.func, ast.Attribute) and c.func.attr in ("_asdict", "_packdict") and isinstance(c.func.value, ast.Name):
                target = c.func.value.id
            if target is None or target == "self" or target not in _record_names(fn, params):
                continue
            n_reads += 1
            node = cfg.header_node_for_expr(c) or cfg.node_of(c)
            rd = cfg.reaching_defs(target)[node.id]
            composed = []
            for i in rd:
                a = cfg.nodes[i].ast
                if i == cfg.entry:
                    continue
                if isinstance(a, ast.Assign) and isinstance(a.value, ast.Name) and (a.value.id in params):
                    continue  # alias of an original input
                if cfg.nodes[i].kind == "for" or isinstance(a, (ast.For,)):
                    continue  # loop variable over inputs
                if isinstance(a, ast.Assign) and isinstance(a.value, ast.Call):
                    composed.append(a)
            ctx.check(not composed, "R15.2", f"{short}:{norm(c)[:50]}",
                      f"the field read `{norm(c)}` can see `{norm(composed[0])[:70] if composed else ''}` from an earlier iteration: the composed record's own "
                      "fields shadow the original's (first wins), so the value read is not the original record's", c,
                      f"`{target}` is only ever the original input here", key=f"R15.2:{short}:field-read-from-composed:{target}")
    ctx.floor("R15.2", "field reads on input records", n_reads, 3)

    # ------------------------------------------------------------------ R15.3 symbolic order under the replace flag
    ctx.rule("R15.3", "extend_record: ChainMap receives (record, *others) without replace and exactly the reverse with replace; descriptors are merged in original order with the same flag")
    er = ctx.anchor_func("flow.record.base.extend_record")
    p = func_params(er)
    p_rec, p_others, p_flag = p[0], p[1], p[2]
    cm = [c for c in calls_in(er) if (call_name(c) or "").endswith("ChainMap")]
    if len(cm) != 1 or not (len(cm[0].args) == 1 and isinstance(cm[0].args[0], ast.Starred)):
        raise AnalysisError("R15.3: ChainMap(*maps) not found in extend_record")
    base_seq = [("one", p_rec, False), ("star", p_others, False)]
    results = {}
    for fv in (False, True):
        se = SeqEval(er, p_flag, fv)
        se.env[p_rec] = [("one", p_rec, False)]
        se.env[p_others] = [("star", p_others, False)]
        se.run(er.body)
        results[fv] = se.expr(cm[0].args[0].value)
        mrd = [c for c in calls_in(er) if isinstance(prog.resolve_expr(base, c.func), DefRef) and prog.resolve_expr(base, c.func).qualname.endswith("merge_record_descriptors")]
        dseq = se.expr(mrd[0].args[0]) if mrd else None
        ctx.check(dseq == base_seq, "R15.3", f"extend_record:descriptor-order[replace={fv}]", f"descriptors are merged in order {fmt_seq(dseq)}", er, f"{fmt_seq(dseq)}")
        if mrd:
            ctx.check(len(mrd[0].args) >= 2 and norm(mrd[0].args[1]) == p_flag, "R15.3", f"extend_record:merge-flag[replace={fv}]", "the descriptor merge does not receive the same replace flag",
                      mrd[0], "merge_record_descriptors(descriptors, replace, name)")
    ctx.check(results[False] == base_seq, "R15.3", "extend_record:value-order[replace=False]",
              f"without replace the value maps are consulted in order {fmt_seq(results[False])}; first-wins needs {fmt_seq(base_seq)}", er, fmt_seq(results[False]),
              key="R15.3:extend_record:order-no-replace")
    ctx.check(results[True] == seq_rev(base_seq), "R15.3", "extend_record:value-order[replace=True]",
              f"with replace the value maps are consulted in order {fmt_seq(results[True])}; last-wins (consistent with the merged field types, which take the LAST "
              f"record's type) needs the exact reverse {fmt_seq(seq_rev(base_seq))}", er, fmt_seq(results[True]), key="R15.3:extend_record:order-replace")
    ctx.sample({"rule": "R15.3", "replace=False": fmt_seq(results[False]), "replace=True": fmt_seq(results[True])})
    ret = [r for r in walk_no_nested(er) if isinstance(r, ast.Return)]
    ctx.check(len(ret) == 1 and cm[0] in list(ast.walk(ret[0])) and "init_from_dict" in norm(ret[0].value), "R15.3", "extend_record:result", "the result is not built from the ChainMap of the value maps",
              er, "ExtendedRecord.init_from_dict(ChainMap(*kv_maps))")

    # ------------------------------------------------------------------ R15.4 first wins in merges and groups
    ctx.rule("R15.4", "merge_record_descriptors skips a field already present unless replace; GroupedRecord keeps the first member that has a field name")
    mr = ctx.anchor_func("flow.record.base.merge_record_descriptors")
    mcfg = CFG(mr)
    stores = [n for n in ast.walk(mr) if isinstance(n, ast.Subscript) and isinstance(n.ctx, ast.Store)]
    ctx.floor("R15.4", "field-map stores in merge_record_descriptors", len(stores), 1)
    for s0 in stores:
        node = mcfg.node_of(s0)
        facts = {(t, pol) for t, pol, _ in mcfg.facts_at(node.id)}
        key = norm(s0.slice)
        cont = norm(s0.value)
        flag4 = func_params(mr)[1] if len(func_params(mr)) > 1 else "replace"
        skip = logic.implies(logic.facts_as_premises(mcfg.facts_at(node.id)), logic.parse(f"{flag4} or {key} not in {cont}"))
        ctx.check(skip, "R15.4", "merge_record_descriptors:first-wins", f"a later descriptor overwrites the type of `{key}` even without replace (facts: {sorted(facts)})", s0,
                  f"store guarded by not(not replace and {key} in {cont})", key="R15.4:merge_record_descriptors:overwrites")
    # every descriptor of the argument takes part, repeats included (with replace a repeated descriptor re-asserts its types): no skip of a
    # whole descriptor that depends on what the loop has seen before
    dparam = func_params(mr)[0]
    for lp in [n for n in walk_no_nested(mr) if isinstance(n, ast.For) and norm(n.iter) == dparam]:
        carried = set()
        for n in ast.walk(lp):
            if isinstance(n, ast.Call) and isinstance(n.func, ast.Attribute) and isinstance(n.func.value, ast.Name) and n.func.attr in ("add", "append", "update", "extend", "setdefault", "insert"):
                carried.add(n.func.value.id)
            if isinstance(n, (ast.Assign, ast.AugAssign)):
                for t in (n.targets if isinstance(n, ast.Assign) else [n.target]):
                    root = t
                    while isinstance(root, (ast.Subscript, ast.Attribute)):
                        root = root.value
                    if isinstance(root, ast.Name):
                        carried.add(root.id)
        for jump in [n for n in ast.walk(lp) if isinstance(n, (ast.Continue, ast.Break))]:
            own = getattr(jump, "_parent", None)
            while own is not None and not isinstance(own, (ast.For, ast.While)):
                own = getattr(own, "_parent", None)
            if own is not lp:
                continue
            conds = enclosing_conditions(jump, lp)
            names = {x.id for t, _ in conds for x in ast.walk(ast.parse(t, mode="eval")) if isinstance(x, ast.Name)}
            dep = sorted(names & carried)
            ctx.check(not dep, "R15.4", f"merge_record_descriptors:skips-descriptor@{conds[0][0][:40] if conds else ''}", f"a whole descriptor is skipped depending on {dep}, which the loop itself "
                      "fills: a descriptor that appears again later in the argument no longer re-asserts its field types under replace=True (the value still comes from the last record)", jump,
                      "every descriptor is merged", key="R15.4:merge_record_descriptors:state-dependent-skip")
    rv = [r for r in walk_no_nested(mr) if isinstance(r, ast.Return)]
    fmap = norm(stores[0].value) if stores else "field_map"
    mal = single_assign_aliases(mr)
    res_ok = False
    if len(rv) == 1 and isinstance(rv[0].value, ast.Call) and len(rv[0].value.args) >= 2:
        pairs = expand_aliases(rv[0].value.args[1], mal)
        if isinstance(pairs, ast.Call) and call_name(pairs) in ("list", "tuple") and len(pairs.args) == 1:
            pairs = pairs.args[0]
        if isinstance(pairs, ast.Call) and call_name(pairs) == "zip" and [norm(a) for a in pairs.args] == [f"{fmap}.values()", f"{fmap}.keys()"]:
            res_ok = True
        if isinstance(pairs, (ast.ListComp, ast.GeneratorExp)) and len(pairs.generators) == 1 and not pairs.generators[0].ifs and norm(pairs.generators[0].iter) == f"{fmap}.items()" \
                and isinstance(pairs.generators[0].target, ast.Tuple) and len(pairs.generators[0].target.elts) == 2 and isinstance(pairs.elt, ast.Tuple) \
                and [norm(x) for x in pairs.elt.elts] == [norm(x) for x in reversed(pairs.generators[0].target.elts)]:
            res_ok = True
    ctx.check(res_ok, "R15.4", "merge_record_descriptors:result",
              "the merged descriptor is not built from (type, name) pairs in insertion order", mr, "RecordDescriptor(name, zip(types, names))")
    nparam = func_params(mr)[2] if len(func_params(mr)) > 2 else "name"
    nm = [st for st in walk_no_nested(mr) if isinstance(st, ast.Assign) and norm(st.targets[0]) == nparam]
    name_ok = False
    if len(nm) == 1 and norm(nm[0].value) == f"{dparam}[0].name":
        prem_n = logic.facts_as_premises(mcfg.facts_at(mcfg.node_of(nm[0]).id))
        # the default applies exactly when no name was given (and there is a first descriptor to take it from)
        name_ok = logic.implies(prem_n, logic.parse(f"{nparam} is None"))
        only = {a for e0, _ in prem_n for a in logic.atoms(logic.formula(e0))}
        name_ok = name_ok and only <= {f"{nparam} is None", dparam, f"len({dparam})"}
    ctx.check(name_ok, "R15.4", "merge_record_descriptors:name",
              "the merged name is not the first descriptor's unless given", mr, "name defaults to descriptors[0].name")
    gi = ctx.anchor_func("flow.record.base.GroupedRecord.__init__")
    gcfg = CFG(gi)
    gstores = [n for n in ast.walk(gi) if isinstance(n, ast.Subscript) and isinstance(n.ctx, ast.Store) and "fieldname_to_record" in norm(n.value)]
    ctx.floor("R15.4", "fieldname_to_record stores", len(gstores), 1)
    for s0 in gstores:
        facts = {(t, pol) for t, pol, _ in gcfg.facts_at(gcfg.node_of(s0).id)}
        k = norm(s0.slice)
        ok = any(t == f"{k} in self.fieldname_to_record" and pol is False for t, pol in facts) or any(t == f"{k} not in self.fieldname_to_record" and pol for t, pol in facts)
        ctx.check(ok, "R15.4", "GroupedRecord.__init__:first-member-wins", "a later member overwrites the field of an earlier one", s0, f"store only when {k} is not yet mapped",
                  key="R15.4:GroupedRecord.__init__:overwrites")

    # the declared-fields mapping of a descriptor is never extended in place: "all fields" is a COPY plus the reserved fields
    gaf = ctx.anchor_func("flow.record.base.RecordDescriptor.get_all_fields")
    from ..core import dict_bindings as _db

    n_st = 0
    for st in walk_no_nested(gaf):
        if isinstance(st, ast.Assign) and any(norm(t) == "self._all_fields" for t in st.targets) and not (isinstance(st.value, ast.Constant) and st.value.value is None):
            n_st += 1
            bases_, _b, copied_ = _db(gaf, st.value)
            in_place = [c for c in calls_in(gaf) if isinstance(c.func, ast.Attribute) and c.func.attr in ("update", "setdefault", "__setitem__") and norm(c.func.value) in ("self.fields", "self._fields")]
            ctx.check(copied_ and not in_place, "R15.4", "RecordDescriptor.get_all_fields:copy", f"`{norm(st)[:70]}`: the mapping that receives the reserved fields is the descriptor's own "
                      "declared-fields mapping, not a copy - afterwards desc.fields lists the metadata fields too (the timestamp expansion then yields a record for _generated, "
                      "projections by field name break)", st, "self.fields.copy() + update(required fields)", key="R15.4:get_all_fields:mutates-declared-fields")
    ctx.floor("R15.4", "assignments of the all-fields cache", n_st, 1)

    # ------------------------------------------------------------------ R15.5 timestamp expansion
    ctx.rule("R15.5", "iter_timestamped_records: TimestampRecord(<value of the field>, <name of the field>) matches the descriptor's field order (ts, ts_description); the "
                      "timestamp record goes first; the original name is kept; one record per datetime field; a record without datetime fields is yielded unchanged")
    its = ctx.anchor_func("flow.record.base.iter_timestamped_records")
    tsd = prog.resolve_global(base, "TimestampRecord")
    fields = None
    if isinstance(tsd, tuple) and isinstance(tsd[1], ast.Call) and len(tsd[1].args) == 2:
        try:
            fields = prog.fold(base, tsd[1].args[1])
        except NotConst:
            fields = None
    ctx.check(fields == [("datetime", "ts"), ("string", "ts_description")], "R15.5", "TimestampRecord:fields", f"TimestampRecord fields are {fields}", None, "(datetime ts, string ts_description)")
    loop = next((n for n in walk_no_nested(its) if isinstance(n, ast.For)), None)
    if loop is None:
        raise AnalysisError("R15.5: loop over datetime fields not found")
    fv = norm(loop.target)
    tcalls = [c for c in ast.walk(loop) if isinstance(c, ast.Call) and norm(c.func) == "TimestampRecord"]
    ok = False
    if len(tcalls) == 1 and fields:
        order = [n for _, n in fields]
        bound = dict(zip(order, tcalls[0].args))
        for k in tcalls[0].keywords:
            if k.arg in order and k.arg not in bound:
                bound[k.arg] = k.value
        a_ts, a_desc = bound.get("ts"), bound.get("ts_description")
        ial5 = single_assign_aliases(loop)
        a_ts = expand_aliases(a_ts, ial5) if a_ts is not None else None
        a_desc = expand_aliases(a_desc, ial5) if a_desc is not None else None
        ok = len(bound) == 2 and len(tcalls[0].args) + len(tcalls[0].keywords) == 2 and isinstance(a_ts, ast.Call) and call_name(a_ts) == "getattr" and len(a_ts.args) == 2 \
            and norm(a_ts.args[1]) == f"{fv}.name" and norm(a_desc) == f"{fv}.name"
    ctx.check(ok, "R15.5", "iter_timestamped_records:ts-record", "the timestamp record is not TimestampRecord(getattr(<record>, field.name), field.name)", loop,
              "ts = value of the field, ts_description = its name", key="R15.5:iter_timestamped_records:ts-record")
    ecalls = [c for c in ast.walk(loop) if isinstance(c, ast.Call) and getattr(prog.resolve_expr(base, c.func), "qualname", "").endswith("extend_record")]
    ok = len(ecalls) == 1 and isinstance(ecalls[0].args[1], ast.List) and len(ecalls[0].args[1].elts) == 1 and get_kw(ecalls[0], "replace") is None and get_kw(ecalls[0], "name") is not None
    first_is_ts = ok and (ecalls[0].args[0] is tcalls[0] or any(isinstance(st, ast.Assign) and norm(st.targets[0]) == norm(ecalls[0].args[0]) and st.value is tcalls[0]
                                                                for st in ast.walk(loop))) if tcalls else False
    ctx.check(ok and first_is_ts, "R15.5", "iter_timestamped_records:composition", "the expansion is not extend_record(ts_record, [record], name=<original name>)", loop,
              "timestamp fields first, original fields kept (first wins, no replace)", key="R15.5:iter_timestamped_records:composition")
    ctx.check("getfields" in norm(loop.iter) or any(isinstance(st, ast.Assign) and norm(st.targets[0]) == norm(loop.iter) and "getfields('datetime')" in norm(st.value) for st in walk_no_nested(its)),
              "R15.5", "iter_timestamped_records:fields", "the loop does not run over the record's datetime fields", loop, "for field in record._desc.getfields('datetime')")
    ys = [y for y in ast.walk(its) if isinstance(y, ast.Yield)]
    in_loop = [y for y in ys if y in list(ast.walk(loop))]
    # the record is passed through unchanged only when it has no datetime field
    icfg5 = CFG(its)
    ial = single_assign_aliases(its)
    dtf = norm(expand_aliases(loop.iter, ial))
    for y in [y for y in ys if y not in in_loop]:
        nd = icfg5.header_node_for_expr(y) or icfg5.node_of(y)
        prem = [(expand_aliases(e0, ial), p0) for e0, p0 in logic.facts_as_premises(icfg5.facts_at(nd.id))]
        okp = logic.implies(prem, logic.parse(f"not {dtf}")) or logic.implies(prem, logic.parse(f"len({dtf}) == 0"))
        ctx.check(okp, "R15.5", "iter_timestamped_records:passthrough-only-without-timestamps",
                  f"the record is yielded unchanged under {sorted(norm(e0) + ('' if p0 else ' is false') for e0, p0 in prem)}, which does not imply that it has no datetime fields: "
                  "a record with timestamp fields is then not expanded", y, "unchanged only when there are no datetime fields", key="R15.5:iter_timestamped_records:passthrough-condition")
    ctx.check(len(in_loop) == 1 and not [n for n in ast.walk(loop) if isinstance(n, (ast.Break, ast.Continue, ast.Return))], "R15.5", "iter_timestamped_records:one-per-field",
              "not exactly one record is yielded per datetime field", loop, "one yield per iteration, no early exit")

    check_grouped_values(ctx, "R15.7")

    check_descriptor_equality(ctx, "R15.6")

    # ------------------------------------------------------------------ R15.8 composition results are built by keyword
    # (extend_record, the timestamp expansion and the rewriter go through init_from_dict -> recordType(**values))
    from .c05 import check_generated_value_tests
    check_generated_value_tests(ctx, "R15.8")

    # ------------------------------------------------------------------ R15.9 a replace-style copy of a grouped record shares no member with the original
    ctx.rule("R15.9", "GroupedRecord._replace builds EVERY member of the copy through its class constructor: a member handed over as it is would be shared, and "
                      "GroupedRecord.__setattr__ forwards assignments to the owning member - an assignment on the copy would then change the original")
    grp9 = prog.methods_of(prog.cls("flow.record.base.GroupedRecord")).get("_replace")
    if grp9 is None:
        raise AnalysisError("R15.9: GroupedRecord._replace not found")
    loopvars9 = {x.id for n in ast.walk(grp9) if isinstance(n, (ast.For, ast.comprehension)) and "records" in norm(n.iter) for x in ast.walk(n.target) if isinstance(x, ast.Name)}
    shared9 = []
    n_app9 = 0
    for c9 in calls_in(grp9, nested=True):
        if isinstance(c9.func, ast.Attribute) and c9.func.attr == "append" and len(c9.args) == 1:
            n_app9 += 1
            if isinstance(c9.args[0], ast.Name) and c9.args[0].id in loopvars9:
                shared9.append(c9)
    for n in ast.walk(grp9):
        if isinstance(n, (ast.ListComp, ast.GeneratorExp)):
            n_app9 += 1
            if isinstance(n.elt, ast.Name) and n.elt.id in loopvars9:
                shared9.append(n)
            if isinstance(n.elt, ast.IfExp) and any(isinstance(b, ast.Name) and b.id in loopvars9 for b in (n.elt.body, n.elt.orelse)):
                shared9.append(n)
    ctx.floor("R15.9", "member constructions in GroupedRecord._replace", n_app9, 1)
    ctx.check(not shared9, "R15.9", "GroupedRecord._replace:fresh-members", f"`{norm(shared9[0])[:60] if shared9 else ''}` puts a member of the original into the copy unchanged: the two grouped "
              "records then share it", shared9[0] if shared9 else grp9, "every member is rebuilt with record.__class__(...)", key="R15.9:GroupedRecord._replace:shares-members")



def _is_self_state(expr, params, is_method) -> bool:
    root = expr
    while isinstance(root, (ast.Attribute, ast.Subscript)):
        root = root.value
    return is_method and isinstance(root, ast.Name) and root.id == params[0]


def _record_names(fn, params):
    """Names that denote records in the function: parameters named like records and loop variables over record lists."""
    out = {p for p in params if p in ("record", "rec", "r", "other", "self") or p.endswith("record")}
    for n in ast.walk(fn):
        if isinstance(n, (ast.For, ast.comprehension)) and isinstance(n.target, ast.Name) and ("records" in norm(n.iter)):
            out.add(n.target.id)
    return out
