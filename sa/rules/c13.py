"""C13 - Timestamps are timezone-aware and keep their instant everywhere."""
from __future__ import annotations

import ast

from ..cfg import CFG
from ..core import (AnalysisError, DefRef, NotConst, Ref, call_name, calls_in, dotted, enclosing_function, func_params, get_kw,
                    norm, qualname_of, walk_no_nested, expand_aliases, single_assign_aliases)
from .c05 import check_naive_utc
from .packer_common import pack_branches, unpack_branches

PROPERTY = "C13"
EXPLANATION = (
    "Decides: (R13.1) naive-means-UTC dominates every return of the timestamp constructor; (R13.2) the display-timezone "
    "setting is confined to printing - the functions that transitively read DISPLAY_TZINFO / call flow_record_tz are exactly "
    "the timestamp's __str__/__repr__ (and module initialisation), and no serialiser turns a value that may be a timestamp "
    "into text with str()/repr()/format()/an f-string (each such conversion is dominated by the fact that the value is not a "
    "timestamp); (R13.3) the binary encoder packs UTC/naive values as the 7 constructor components in order and every other "
    "value as its ISO text, under a condition that tests tzinfo; (R13.4) SQLite and JSON store isoformat() under a timestamp "
    "test that precedes the generic fallback, the Avro schema declares timestamp-micros and the Avro reader rebuilds the "
    "value with integer microsecond arithmetic from a UTC-aware epoch; (R13.5) no serialiser goes through a float epoch "
    "(datetime.timestamp()), which cannot represent microseconds outside roughly years 1700-2240. NOT decided: instant/offset "
    "equality for all years, folds and gaps; fastavro's and fromisoformat's behaviour."
    " Rules added after the sixth blind round: (R13.6 = R18.5 of C18) both places that declare SQLite columns map the field type the same way."
)
RULE_SUMMARY = "instances: returns, readers of the display setting, text conversions in serialisers, encoder branches, storage-format rows"

SERIALISERS = [
    ("flow.record.packer.RecordPacker.pack_obj", True),
    ("flow.record.jsonpacker.JsonRecordPacker.pack_obj", True),
    ("flow.record.adapter.sqlite.db_insert_record", True),
    ("flow.record.adapter.avro.AvroWriter.write", True),
    ("flow.record.base.Record._pack", True),
    ("flow.record.base.Record._packdict", True),
    ("flow.record.base.Record.__eq__", True),
    ("flow.record.base.Record.__hash__", True),
]
TEXT_CALLS = {"str", "repr", "format", "ascii"}


def is_datetime_test(prog, module, e) -> bool:
    """isinstance(x, <datetime class or tuple containing it>)"""
    if not (isinstance(e, ast.Call) and call_name(e) == "isinstance" and len(e.args) == 2):
        return False
    t = e.args[1]
    for x in (t.elts if isinstance(t, ast.Tuple) else [t]):
        r = prog.resolve_expr(module, x)
        if isinstance(r, Ref) and r.name == "datetime.datetime":
            return True
        if isinstance(r, DefRef) and r.qualname == "flow.record.fieldtypes.datetime":
            return True
    return False


def run(ctx):
    prog = ctx.prog
    ftm = prog.module("flow.record.fieldtypes")
    ctx.use(ftm)
    ctx.trust("datetime.isoformat()/fromisoformat() and timetuple()[:6]+microsecond are lossless for aware datetimes; float seconds are not (53-bit mantissa)")

    ctx.rule("R13.1", "every value returned by the timestamp constructor passed the naive->UTC normalisation")
    check_naive_utc(ctx, "R13.1")

    # ------------------------------------------------------------------ R13.2 display setting confined
    ctx.rule("R13.2", "functions that (transitively, through resolved calls and str()/repr() of self) read the display time zone are only the timestamp's "
                      "__str__/__repr__; serialisers never render a possible timestamp with str()/repr()/format()/f-string")
    readers = set()
    frt = prog.func("flow.record.fieldtypes.flow_record_tz")
    for m in prog.modules.values():
        for fn in [f for f in ast.walk(m.tree) if isinstance(f, (ast.FunctionDef, ast.AsyncFunctionDef))]:
            for n in walk_no_nested(fn):
                if isinstance(n, ast.Name) and n.id == "DISPLAY_TZINFO" and isinstance(n.ctx, ast.Load):
                    r = prog.resolve_global(m, "DISPLAY_TZINFO")
                    if r is not None:
                        readers.add(qualname_of(fn))
                if isinstance(n, ast.Attribute) and n.attr == "DISPLAY_TZINFO":
                    readers.add(qualname_of(fn))
                if isinstance(n, ast.Call):
                    r = prog.resolve_expr(m, n.func)
                    if isinstance(r, DefRef) and r.node is frt:
                        readers.add(qualname_of(fn))
    # closure: methods of the same class that call str(self)/repr(self)/self.__str__()
    dtc = ctx.anchor_cls("flow.record.fieldtypes.datetime")
    changed = True
    while changed:
        changed = False
        for fn in prog.methods_of(dtc).values():
            q = qualname_of(fn)
            if q in readers:
                continue
            for c in calls_in(fn):
                if call_name(c) in ("str", "repr", "format") and c.args and norm(c.args[0]) == "self":
                    target = "__str__" if call_name(c) != "repr" else "__repr__"
                    if f"flow.record.fieldtypes.datetime.{target}" in readers:
                        readers.add(q)
                        changed = True
                if isinstance(c.func, ast.Attribute) and norm(c.func.value) == "self" and f"flow.record.fieldtypes.datetime.{c.func.attr}" in readers:
                    readers.add(q)
                    changed = True
    allowed = {"flow.record.fieldtypes.datetime.__str__", "flow.record.fieldtypes.datetime.__repr__", "flow.record.fieldtypes.datetime.__format__"}
    ctx.floor("R13.2", "functions reading the display time zone", len(readers), 1)
    for q in sorted(readers):
        ctx.check(q in allowed, "R13.2", f"display-tz-reader:{q.replace('flow.record.', '')}", f"{q} depends on the display time zone (FLOW_RECORD_TZ): it is not a printing method, "
                  "so stored / compared / written values would change with the setting", prog.find(q), "printing method", key=f"R13.2:display-tz-reader:{q}")
    for bad in ("__eq__", "__hash__", "_pack", "__lt__", "__reduce__"):
        m = prog.methods_of(dtc).get(bad)
        if m is not None:
            ctx.check(qualname_of(m) not in readers, "R13.2", f"datetime.{bad}:independent", f"datetime.{bad} reads the display setting", m, "independent of the display setting")
    # text conversions of possible timestamps in serialisers
    n_conv = 0
    for q, armed in SERIALISERS:
        fn = ctx.anchor_func(q)
        m = fn._module
        cfg = CFG(fn)
        short = q.replace("flow.record.", "")
        value_vars = set(func_params(fn)[1:]) | {t.id for n in walk_no_nested(fn) if isinstance(n, (ast.For, ast.comprehension)) for t in ast.walk(n.target) if isinstance(t, ast.Name)} | \
            {t.id for n in walk_no_nested(fn) if isinstance(n, ast.Assign) for t in n.targets if isinstance(t, ast.Name)}
        for n in walk_no_nested(fn):
            conv_arg = None
            how = None
            if isinstance(n, ast.Call) and call_name(n) in TEXT_CALLS and n.args and isinstance(n.args[0], (ast.Name, ast.Subscript)):
                conv_arg, how = n.args[0], f"{call_name(n)}()"
            elif isinstance(n, ast.FormattedValue) and isinstance(n.value, (ast.Name, ast.Subscript)) and n.format_spec is None:
                conv_arg, how = n.value, "f-string"
            elif isinstance(n, ast.Call) and isinstance(n.func, ast.Attribute) and n.func.attr == "format" and isinstance(n.func.value, ast.Constant):
                for a in n.args:
                    if isinstance(a, ast.Name) and a.id in value_vars:
                        conv_arg, how = a, "str.format"
            if conv_arg is None:
                continue
            root = conv_arg
            while isinstance(root, ast.Subscript):
                root = root.value
            if not (isinstance(root, ast.Name) and root.id in value_vars):
                continue
            # inside a raise / log message the text is not stored
            par = n
            in_msg = False
            while par is not None and par is not fn:
                if isinstance(par, ast.Raise) or (isinstance(par, ast.Call) and (dotted(par.func) or "").split(".")[0] in ("log", "logger", "logging", "warnings")):
                    in_msg = True
                par = getattr(par, "_parent", None)
            if in_msg:
                continue
            n_conv += 1
            node = cfg.header_node_for_expr(n) or cfg.node_of(n)
            from ..core import expr_conditions

            facts = [(t, p) for t, p, _ in cfg.facts_at(node.id)] + [(norm(e0), p0) for e0, p0 in expr_conditions(n)]
            vname = norm(conv_arg)
            not_dt = False
            for t, p in facts:
                try:
                    e = ast.parse(t, mode="eval").body
                except SyntaxError:
                    continue
                # decompose negations / disjunctions that are known false
                if isinstance(e, ast.UnaryOp) and isinstance(e.op, ast.Not):
                    e, p = e.operand, not p
                if isinstance(e, ast.BoolOp) and isinstance(e.op, ast.Or) and p is False:
                    for sub in e.values:
                        if is_datetime_test(prog, m, sub) and norm(sub.args[0]) == vname:
                            not_dt = True
                    continue
                if p is False and is_datetime_test(prog, m, e) and norm(e.args[0]) == vname:
                    not_dt = True
                if p is True and isinstance(e, ast.Call) and call_name(e) == "isinstance" and norm(e.args[0]) == vname and not is_datetime_test(prog, m, e) \
                        and not _may_include_datetime(prog, m, e):
                    not_dt = True
            ctx.check(not_dt, "R13.2", f"{short}:{how} of {vname}", f"{how} of `{vname}` is reachable for a timestamp value: its text is the DISPLAY form "
                      "(converted to FLOW_RECORD_TZ, offset lost), so what is stored depends on the display setting", n, f"`{vname}` is known not to be a timestamp here",
                      key=f"R13.2:{short}:text-of-possible-timestamp:{vname}")
    ctx.floor("R13.2", "text conversions of field values inside serialisers", n_conv, 2)

    # ------------------------------------------------------------------ R13.3 binary encoder
    ctx.rule("R13.3", "pack_obj: tzinfo None/UTC -> (*timetuple()[:6], microsecond); otherwise (isoformat(),); decoder: datetime(*value)")
    pack_obj = prog.func("flow.record.packer.RecordPacker.pack_obj")
    pm = pack_obj._module
    ctx.use(pm)
    dtb = [b for b in pack_branches(prog, pack_obj) if b.guard_cls == "datetime.datetime"]
    if not dtb:
        raise AnalysisError("R13.3: datetime branch of pack_obj not found")
    obj = func_params(pack_obj)[1]
    cfg = CFG(pack_obj)
    forms = {}
    pal = single_assign_aliases(pack_obj)
    from .. import logic

    for st, sub, payload in dtb[0].subtype_exprs:
        prem = [(expand_aliases(e0, pal), p0) for e0, p0 in logic.facts_as_premises(cfg.facts_at(cfg.node_of(st).id))]
        prem += [(expand_aliases(e0, pal), p0) for e0, p0 in dtb[0].extra_conds.get(id(payload), [])]
        prem = [(e0, p0) for e0, p0 in prem if "tzinfo" in norm(e0)]
        if isinstance(payload, ast.Tuple):
            elts = [norm(expand_aliases(e.value if isinstance(e, ast.Starred) else e, pal)) for e in payload.elts]
            forms[tuple(elts)] = (prem, st)
    utc_form = (f"{obj}.timetuple()[:6]", f"{obj}.microsecond")
    iso_form = (f"{obj}.isoformat()",)
    ctx.check(set(forms) == {utc_form, iso_form}, "R13.3", "pack_obj:datetime:forms", f"timestamp payload forms are {sorted(forms)}; the format has the 7 components "
              "(*timetuple()[:6], microsecond) for UTC and (isoformat(),) otherwise - any other form (epoch float, truncated offset) loses precision or the offset",
              dtb[0].if_node, "7 components for UTC / ISO text otherwise", key="R13.3:pack_obj:datetime:forms")
    tz = f"{obj}.tzinfo"
    utc_names = [g for g in ("UTC", "timezone.utc") if (lambda r: isinstance(r, Ref) and r.name == "datetime.timezone.utc")(_try_fold(prog, pm, g))]
    if utc_form in forms:
        prem, st = forms[utc_form]
        goal = logic.parse(" or ".join([f"{tz} is None"] + [f"{tz} == {u}" for u in utc_names] + [f"{tz} is {u}" for u in utc_names]))
        ok = bool(utc_names) and logic.implies(prem, goal)
        ctx.check(ok, "R13.3", "pack_obj:datetime:utc-condition",
                  f"the component form is used under {sorted(norm(e0) + '=' + str(p0) for e0, p0 in prem)}: a non-UTC value packed as components loses its offset", st,
                  "component form only when tzinfo is None or == UTC")
    if iso_form in forms:
        prem, st = forms[iso_form]
        ctx.check(logic.implies(prem, logic.parse(f"{tz} is not None")), "R13.3", "pack_obj:datetime:iso-condition", "ISO form is not the else-branch of the UTC test", st,
                  "ISO text for every other tzinfo")
    unpack_obj = prog.func("flow.record.packer.RecordPacker.unpack_obj")
    _, ubs = unpack_branches(prog, unpack_obj)
    dub = [u for u in ubs if u.role == "datetime"]
    ok = bool(dub) and any(isinstance(c, ast.Call) and len(c.args) == 1 and isinstance(c.args[0], ast.Starred) and not c.keywords and
                           isinstance(prog.resolve_expr(pm, c.func), DefRef) and prog.resolve_expr(pm, c.func).qualname == "flow.record.fieldtypes.datetime"
                           for c in ast.walk(dub[0].if_node))
    ctx.check(ok, "R13.3", "unpack_obj:datetime:constructor", "the decoder does not rebuild the value with fieldtypes.datetime(*value)", unpack_obj, "fieldtypes.datetime(*value)")

    # ------------------------------------------------------------------ R13.4 other storage formats
    ctx.rule("R13.4", "JSON and SQLite: isoformat() under a timestamp test that precedes the generic conversion; Avro: logical type timestamp-micros, reader adds "
                      "timedelta(microseconds=int) to a UTC-aware epoch")
    jp = ctx.anchor_func("flow.record.jsonpacker.JsonRecordPacker.pack_obj")
    jobj = func_params(jp)[1]
    jok = False
    for st in walk_no_nested(jp):
        if isinstance(st, ast.If) and is_datetime_test(prog, jp._module, st.test) and norm(st.test.args[0]) == jobj:
            rets = [r for r in ast.walk(st) if isinstance(r, ast.Return)]
            vals = {norm(r.value) for r in rets}
            assigns = {norm(a.value) for a in ast.walk(st) if isinstance(a, ast.Assign)}
            jok = any(_is_lossless_isoformat(x, jobj) for r in rets for x in [r.value]) or any(
                _is_lossless_isoformat(a.value, jobj) for a in ast.walk(st) if isinstance(a, ast.Assign))
    ctx.check(jok, "R13.4", "JsonRecordPacker.pack_obj:datetime", "JSON does not store timestamps as isoformat()", jp, "obj.isoformat()", key="R13.4:json:datetime-form")
    dbi = ctx.anchor_func("flow.record.adapter.sqlite.db_insert_record")
    sok = False
    from ..core import expr_conditions as _ec

    dcfg2 = CFG(dbi)
    for c in calls_in(dbi, nested=True):
        if isinstance(c.func, ast.Attribute) and c.func.attr == "isoformat" and isinstance(c.func.value, ast.Name) and _is_lossless_isoformat(c, c.func.value.id):
            v = c.func.value.id
            nd = dcfg2.header_node_for_expr(c) or dcfg2.node_of(c)
            conds = [(t, p) for t, p, _ in dcfg2.facts_at(nd.id)] + [(norm(e0), p0) for e0, p0 in _ec(c)]
            for t, p in conds:
                try:
                    e = ast.parse(t, mode="eval").body
                except SyntaxError:
                    continue
                if p and is_datetime_test(prog, dbi._module, e) and norm(e.args[0]) == v:
                    sok = True
    ctx.check(sok, "R13.4", "sqlite.db_insert_record:datetime", "SQLite does not store timestamps as isoformat() under an isinstance(value, datetime) test", dbi, "value.isoformat()",
              key="R13.4:sqlite:datetime-form")
    dts = ctx.anchor_func("flow.record.adapter.avro.descriptor_to_schema")
    avm = dts._module
    lt = [n for n in ast.walk(dts) if isinstance(n, ast.Dict) and any(isinstance(k, ast.Constant) and k.value == "logicalType" for k in n.keys)]
    lok = False
    for d in lt:
        dd = {}
        for k, v in zip(d.keys, d.values):
            if isinstance(k, ast.Constant):
                try:
                    dd[k.value] = prog.fold(avm, v)
                except NotConst:
                    dd[k.value] = None
        lok |= dd.get("logicalType") == "timestamp-micros" and dd.get("type") == "long"
    ctx.check(lok, "R13.4", "avro.descriptor_to_schema:datetime", "datetime fields are not declared long/timestamp-micros", dts, "{'type': 'long', 'logicalType': 'timestamp-micros'}")
    ep = prog.resolve_global(avm, "EPOCH")
    eok = False
    if isinstance(ep, tuple) and isinstance(ep[1], ast.Call):
        c = ep[1]
        tz = get_kw(c, "tzinfo")
        try:
            tzv = prog.fold(avm, tz) if tz is not None else None
        except NotConst:
            tzv = None
        eok = [getattr(a, "value", None) for a in c.args[:3]] == [1970, 1, 1] and isinstance(tzv, Ref) and tzv.name == "datetime.timezone.utc"
    ctx.check(eok, "R13.4", "avro.EPOCH", "the Avro reader's epoch is not 1970-01-01 UTC (aware)", None, "datetime(1970, 1, 1, tzinfo=timezone.utc)")
    ari = ctx.anchor_func("flow.record.adapter.avro.AvroReader.__iter__")
    conv = [n for n in ast.walk(ari) if isinstance(n, ast.BinOp) and isinstance(n.op, ast.Add) and norm(n.left) == "EPOCH"]
    cok = bool(conv) and all(isinstance(n.right, ast.Call) and call_name(n.right) in ("timedelta", "datetime.timedelta") and get_kw(n.right, "microseconds") is not None
                             and not any(isinstance(x, ast.BinOp) and isinstance(x.op, ast.Div) for x in ast.walk(n.right)) for n in conv)
    ctx.check(cok, "R13.4", "avro.AvroReader.__iter__:conversion", "timestamps are not rebuilt as EPOCH + timedelta(microseconds=<int>)", ari, "EPOCH + timedelta(microseconds=value)")

    # ------------------------------------------------------------------ R13.5 no float epoch in serialisers
    ctx.rule("R13.5", "no serialiser converts a timestamp through datetime.timestamp() (float seconds): a double holds microseconds exactly only for |t| < 2^33 s")
    scanned = 0
    for modname in ("flow.record.packer", "flow.record.jsonpacker", "flow.record.adapter.sqlite", "flow.record.adapter.avro", "flow.record.adapter.csvfile",
                    "flow.record.adapter.jsonfile", "flow.record.adapter.stream", "flow.record.stream"):
        m = prog.module(modname)
        ctx.use(m)
        for c in calls_in(m.tree, nested=True):
            scanned += 1
            if isinstance(c.func, ast.Attribute) and c.func.attr in ("timestamp", "total_seconds") and not c.args:
                fn = enclosing_function(c)
                ctx.fail("R13.5", f"{modname.replace('flow.record.', '')}:{qualname_of(fn).split('.')[-1] if fn else ''}:timestamp()",
                         f"`{norm(c)}` turns a timestamp into float seconds on the storage path: microseconds are lost outside ~1700-2240 and year-9999 values overflow on read",
                         c, key=f"R13.5:{modname}:float-epoch")
    ctx.ok("R13.5", "serialisers:no-float-epoch", f"{scanned} call sites scanned in the serialiser modules", None)
    ctx.floor("R13.5", "call sites scanned", scanned, 100)

    # ------------------------------------------------------------------ R13.6 (sibling rule) a timestamp column has the timestamp type wherever it is declared
    ctx.import_rule("C18", "R18.5", "R13.6", "the SQLite reader turns TIMESTAMPTZ columns back into datetime: both places that declare columns (CREATE and ALTER) map the field type the same way")



def _try_fold(prog, module, text):
    try:
        return prog.fold(module, ast.parse(text, mode="eval").body)
    except (NotConst, AnalysisError, KeyError):
        return None


def _may_include_datetime(prog, module, isinstance_call) -> bool:
    """isinstance(x, (int, float, ...)) - could a datetime satisfy it? Only if a listed class is datetime/object/date."""
    t = isinstance_call.args[1]
    for x in (t.elts if isinstance(t, ast.Tuple) else [t]):
        r = prog.resolve_expr(module, x)
        name = getattr(r, "name", None) or getattr(r, "qualname", "")
        if name in ("builtins.object", "datetime.date", "datetime.datetime", "flow.record.base.FieldType"):
            return True
    return False


def _is_lossless_isoformat(e, recv: str) -> bool:
    """recv.isoformat() with at most a separator argument; a timespec other than auto/microseconds drops precision."""
    if not (isinstance(e, ast.Call) and isinstance(e.func, ast.Attribute) and e.func.attr == "isoformat" and norm(e.func.value) == recv):
        return False
    if len(e.args) > 1:
        return False
    for k in e.keywords:
        if k.arg == "timespec" and not (isinstance(k.value, ast.Constant) and k.value.value in ("auto", "microseconds")):
            return False
        if k.arg not in ("sep", "timespec"):
            return False
    return True
