"""C06 - Descriptor names are validated; untrusted definitions cannot inject code."""
from __future__ import annotations

import ast
import re

from .. import logic
from ..cfg import CFG
from ..core import (AnalysisError, DefRef, NotConst, Ref, RegexConst, call_name, calls_in, dotted, enclosing_function,
                    func_params, norm, qualname_of, walk_no_nested, expand_aliases, single_assign_aliases)
from ..prov import Interp, Map, Obj, S, Seq, Tup
from ..regexlang import Lang, inclusion_counterexample, product_states
from .. import regexlang

PROPERTY = "C06"
EXPLANATION = (
    "Decides, for every input string at once, the structural clauses of C06: (R6.1) the language admitted by each name-"
    "validation regex AS USED (method + anchors, Unicode classes) is included in the ASCII identifier grammars - exact "
    "automaton inclusion with a shortest counter-example; (R6.2) in is_valid_field_name every 'return True' is guarded by "
    "the underscore rejection and the regex test; (R6.3) every fragment of the text handed to exec() in "
    "_generate_record_class derives only from literals, validated field names and the validated record name, and never "
    "from a field TYPE name (provenance evaluation of the string building code, validation statements must dominate exec); "
    "(R6.4) in fieldtype() the whitelist test dominates import_module/getattr whose arguments derive from the tested name; "
    "(R6.5) the set of exec/eval/compile/import sites equals the reviewed inventory and record classes are only created "
    "through RecordDescriptor.__init__. NOT decided: behaviour of CPython's re/str.format beyond the model, the content "
    "of error messages, resource use for very long names."
    " Also decided (rules added after the fifth blind round): (R6.4) every return of fieldtype() has passed a whitelist test of the requested name on every path and the function does not call itself (one list level); the WHITELIST_TREE walk is decided by facts and reachability; (R6.5) the JSON decoder's descriptor branch returns only validated constructions."
    " Rules added after the sixth blind round: (R6.7) declared field names are pairwise distinct (known finding F06b); (R6.8) parse_def runs only when fields is None."
)
RULE_SUMMARY = (
    "rule instances are enumerated from the source (regex uses, return statements, template slots, dangerous call sites);"
    " an instance is non-trivial when a path, automaton or provenance set had to be computed for it"
)

REF_FIELD = r"_?[A-Za-z][A-Za-z0-9_]*"
REF_TYPE = r"[A-Za-z][A-Za-z0-9_]*(/[A-Za-z][A-Za-z0-9_]*)*"
IDENT_CHARS = re.compile(r"[A-Za-z0-9_]*\Z")
NAME_ALPHABET = set("abcdefghijklmnopqrstuvwxyzABCDEFGHIJKLMNOPQRSTUVWXYZ0123456789_/")
DOTTED_NAME = re.compile(r"[A-Za-z_][A-Za-z0-9_]*(\.[A-Za-z_][A-Za-z0-9_]*)*\Z")

# reviewed inventory of dynamic-code / dynamic-import sites: (enclosing function, callee) -> required literal prefix of the argument
# text (None: the argument is decided by another rule).  Keyed by function and argument form, not by count: the same call
# appearing twice (a helper used from two branches) is the same reviewed site; a site elsewhere, or with another form, is new.
SITE_INVENTORY = {
    ("flow.record.base._generate_record_class", "exec"): None,  # the record class template (R6.3)
    ("flow.record.base.RecordAdapter", "importlib.import_module"): ("flow.record.adapter.",),  # adapter by scheme
    ("flow.record.base.fieldtype", "importlib.import_module"): ("flow.record.fieldtypes",),  # behind the whitelist test (R6.4)
    ("flow.record.selector.Selector.__init__", "compile"): None,  # PyCF_ONLY_AST, checked below
    ("flow.record.selector.CompiledSelector.__init__", "compile"): None,  # documented unsafe engine
    ("flow.record.selector.CompiledSelector.match", "eval"): None,
    ("flow.record.stream.RecordFieldRewriter.__init__", "compile"): None,  # rdump -E, operator supplied
    ("flow.record.stream.RecordFieldRewriter.rewrite", "exec"): None,
    ("flow.record.tools.rdump.list_adapters", "import_module"): ("flow.record.adapter.",),  # over package contents
    ("flow.record.adapter", "__import__"): ("pkgutil",),  # constant
}
DANGEROUS = {"exec", "eval", "compile", "__import__", "importlib.import_module", "import_module", "importlib.__import__",
             "builtins.exec", "builtins.eval", "builtins.compile", "runpy.run_path", "runpy.run_module", "os.system",
             "subprocess.Popen", "subprocess.run", "subprocess.call", "subprocess.check_output", "pickle.loads",
             "pickle.load", "marshal.loads"}


def regex_uses(ctx, fn):
    """(call node, RegexConst, method, arg) for calls <compiled regex>.<match|fullmatch|search>(arg) in fn."""
    prog = ctx.prog
    out = []
    for c in calls_in(fn):
        if isinstance(c.func, ast.Attribute) and c.func.attr in ("match", "fullmatch", "search", "findall", "sub", "split"):
            try:
                v = prog.fold(fn._module, c.func.value)
            except NotConst:
                continue
            if isinstance(v, RegexConst):
                out.append((c, v, c.func.attr, c.args[0] if c.args else None))
        elif call_name(c) in ("re.match", "re.fullmatch", "re.search") and len(c.args) >= 2:
            try:
                pat = prog.fold(fn._module, c.args[0])
                fl = prog.fold(fn._module, c.args[2]) if len(c.args) > 2 else 0
            except NotConst:
                continue
            out.append((c, RegexConst(pat, fl), call_name(c).split(".")[1], c.args[1]))
    return out


def check_regex(ctx, rule, construct, rx: RegexConst, method, ref_pattern, node):
    if method not in ("match", "fullmatch", "search"):
        raise AnalysisError(f"{rule}: validation through .{method}() is not modelled")
    flags = rx.flags
    if isinstance(flags, Ref):
        flags = getattr(re, flags.name.split(".")[-1])
    elif not isinstance(flags, int):
        try:
            flags = int(flags)
        except Exception:
            raise AnalysisError(f"{rule}: cannot fold regex flags {flags!r}")
    lang = Lang(rx.pattern, flags, method)
    ref = Lang(ref_pattern, 0, "fullmatch")
    cex = inclusion_counterexample(lang, ref)
    n = product_states(lang, ref)
    ctx.sample({"rule": rule, "pattern": rx.pattern, "used_as": method, "reference": ref_pattern,
                "product_states": n, "counterexample": cex})
    ctx.check(cex is None, rule, construct,
              f"pattern {rx.pattern!r} used with .{method}() admits {cex!r}, which is outside {ref_pattern!r}",
              node, f"L({rx.pattern!r}.{method}) is included in L({ref_pattern}) [{n} product states]",
              key=f"{rule}:{construct}:admits-non-identifier")
    # the reverse inclusion is informational (a validation that became stricter breaks nothing of C06)
    rev = inclusion_counterexample(ref, lang)
    if rev is not None:
        ctx.info(rule, f"{construct}: the pattern rejects {rev!r}, which the identifier grammar allows (stricter than documented)", node)
    return lang


def match_truth(e, regex_texts):
    """A match object is never falsy: `RE.match(x) is not None` and `RE.match(x)` are the same test."""
    from ..core import copy_ast

    class T(ast.NodeTransformer):
        def visit_Compare(self, node):
            self.generic_visit(node)
            if len(node.ops) == 1 and isinstance(node.comparators[0], ast.Constant) and node.comparators[0].value is None and norm(node.left) in regex_texts:
                if isinstance(node.ops[0], ast.IsNot):
                    return node.left
                if isinstance(node.ops[0], ast.Is):
                    return ast.UnaryOp(op=ast.Not(), operand=node.left)
            return node

    return T().visit(copy_ast(e))


def all_paths_raise(cfg: CFG, stmts) -> bool:
    """Does the statement list always end in raise (no fall-through, no return)?"""
    if not stmts:
        return False
    last = stmts[-1]
    if isinstance(last, ast.Raise):
        return True
    if isinstance(last, ast.If) and last.orelse:
        return all_paths_raise(cfg, last.body) and all_paths_raise(cfg, last.orelse)
    return False


def run(ctx):
    prog = ctx.prog
    base = prog.module("flow.record.base")
    ctx.use(base)
    ctx.trust("re._parser.parse as the reference parser of the pattern; the automaton model of re.match/fullmatch/search, "
              "$, \\Z, \\w, \\d was cross-checked against the re engine on %d probe cases at start-up" % regexlang.selftest())
    ctx.trust("str.format / f-string composition does not introduce characters that are in none of its operands")

    # ------------------------------------------------------------------ R6.1 + R6.2
    ctx.rule("R6.1", "language of each validation regex as used is included in the ASCII identifier grammar (field: "
                     f"{REF_FIELD}; type name: {REF_TYPE})")
    ctx.rule("R6.2", "every `return True` of is_valid_field_name for a non-reserved name is dominated by the leading-"
                     "underscore rejection and by the regex test")
    ivf = ctx.anchor_func("flow.record.base.is_valid_field_name")
    params = func_params(ivf)
    name_param = params[0]
    uses = [u for u in regex_uses(ctx, ivf) if u[3] is not None and dotted(u[3]) == name_param]
    ctx.floor("R6.1", "regex tests on the field name in is_valid_field_name", len(uses), 1)
    field_langs = []
    for call, rx, method, arg in uses:
        field_langs.append(check_regex(ctx, "R6.1", "is_valid_field_name:field-name-pattern", rx, method, REF_FIELD, call))

    cfg = CFG(ivf)
    reserved_text = None
    rets = [n for n in cfg.stmt_nodes() if isinstance(n.ast, ast.Return)]
    ctx.floor("R6.2", "return statements in is_valid_field_name", len(rets), 2)
    regex_texts = {norm(call) for call, *_ in uses}
    from .. import logic
    from ..core import copy_ast

    ial = single_assign_aliases(ivf)

    class _MatchTruth(ast.NodeTransformer):
        """A match object is never falsy: `RE.match(x) is not None` and `RE.match(x)` are the same test."""
        def visit_Compare(self, node):
            self.generic_visit(node)
            if len(node.ops) == 1 and isinstance(node.comparators[0], ast.Constant) and node.comparators[0].value is None and norm(node.left) in regex_texts:
                if isinstance(node.ops[0], ast.IsNot):
                    return node.left
                if isinstance(node.ops[0], ast.Is):
                    return ast.UnaryOp(op=ast.Not(), operand=node.left)
            return node

    def prep(e):
        return _MatchTruth().visit(expand_aliases(e, ial))

    res_tests = [n for n in ast.walk(ivf) if isinstance(n, ast.Compare) and len(n.ops) == 1 and isinstance(n.ops[0], (ast.In, ast.NotIn)) and norm(n.left) == name_param]
    reserved_text = None
    for n in res_tests:
        try:
            if prog.fold(base, n.comparators[0]) == prog.fold(base, ast.parse("RESERVED_FIELDS").body[0].value):
                reserved_text = norm(n.comparators[0])
        except NotConst:
            pass
    general = f"(not {name_param}.startswith('_') and ({' or '.join(sorted(regex_texts)) or 'False'}))"
    goal = logic.parse(f"{name_param} in {reserved_text} or {general}" if reserved_text else general)
    if reserved_text:
        rf = prog.fold(base, ast.parse("RESERVED_FIELDS").body[0].value)
        bad = [k for k in rf if not re.fullmatch(REF_FIELD, k)]
        ctx.check(not bad, "R6.2", "is_valid_field_name:return-True@reserved", f"reserved field names {bad} are not identifiers", ivf,
                  "reserved-name path returns True only for the constant reserved names, all identifiers")
    for rn in rets:
        val = rn.ast.value
        if val is None or (isinstance(val, ast.Constant) and not val.value):
            continue
        prem = [(prep(e0), p0) for e0, p0 in logic.facts_as_premises(cfg.facts_at(rn.id))]
        if not (isinstance(val, ast.Constant) and val.value is True):
            prem.append((prep(val), True))
        ok = logic.implies(prem, goal)
        construct = f"is_valid_field_name:return@{norm(val)[:40]}"
        ctx.check(ok, "R6.2", construct,
                  "a path returns a true value for a name that is not reserved without having passed the leading-underscore rejection and the regex test", rn.ast,
                  "true result implies: reserved, or (not name.startswith('_') and regex match)", key="R6.2:is_valid_field_name:return-True-unguarded")

    # ------------------------------------------------------------------ R6.3 provenance of the exec'd source
    ctx.rule("R6.3", "every source of the text passed to exec() in _generate_record_class is a literal, a validated field "
                     "name, or the validated record name; the validations dominate exec; no field type name flows in")
    gen = ctx.anchor_func("flow.record.base._generate_record_class")
    gparams = func_params(gen)
    if len(gparams) < 2:
        raise AnalysisError("R6.3: _generate_record_class no longer takes (name, fields)")
    p_name, p_fields = gparams[0], gparams[1]
    gcfg = CFG(gen)
    exec_calls = [c for c in calls_in(gen) if call_name(c) in ("exec", "eval")]
    ctx.floor("R6.3", "exec/eval calls in _generate_record_class", len(exec_calls), 1)

    # which tuple positions of `fields` elements are validated?  A loop over the fields parameter validates position k when NO
    # path from the loop header through the body back to the header, or out of the loop other than by raising, avoids an
    # edge on which is_valid_field_name(<element k>) is known to be true (with check_reserved left on).
    validated_pos = set()
    val_loops = []
    gal = single_assign_aliases(gen)

    def _in(node_ast, container) -> bool:
        q = node_ast
        while q is not None:
            if q is container:
                return True
            q = getattr(q, "_parent", None)
        return False

    for st in walk_no_nested(gen):
        if not (isinstance(st, ast.For) and dotted(expand_aliases(st.iter, gal)) == p_fields):
            continue
        # element positions held by names inside this loop
        pos_of = {}
        if isinstance(st.target, (ast.Tuple, ast.List)):
            for k, t in enumerate(st.target.elts):
                if isinstance(t, ast.Name):
                    pos_of[t.id] = k
        elif isinstance(st.target, ast.Name):
            for a in ast.walk(st):
                if isinstance(a, ast.Assign) and isinstance(a.value, ast.Name) and a.value.id == st.target.id and isinstance(a.targets[0], (ast.Tuple, ast.List)):
                    for k, t in enumerate(a.targets[0].elts):
                        if isinstance(t, ast.Name):
                            pos_of[t.id] = k
                if isinstance(a, ast.Assign) and isinstance(a.value, ast.Subscript) and isinstance(a.value.value, ast.Name) and a.value.value.id == st.target.id \
                        and isinstance(a.value.slice, ast.Constant) and isinstance(a.value.slice.value, int) and isinstance(a.targets[0], ast.Name):
                    pos_of[a.targets[0].id] = a.value.slice.value
        vcalls = []
        for c in [x for x in ast.walk(st) if isinstance(x, ast.Call)]:
            r = prog.resolve_expr(base, c.func)
            if isinstance(r, DefRef) and r.node is ivf and c.args and isinstance(c.args[0], ast.Name) and c.args[0].id in pos_of:
                kw = {k.arg: k.value for k in c.keywords}
                cr = kw.get("check_reserved", c.args[1] if len(c.args) > 1 else None)
                if cr is None or (isinstance(cr, ast.Constant) and cr.value is True):
                    vcalls.append(c)
        if not vcalls:
            continue
        header = gcfg.node_of(st)
        for k in sorted({pos_of[c.args[0].id] for c in vcalls}):
            texts = {norm(c) for c in vcalls if pos_of[c.args[0].id] == k}

            def blocked(u, v, cond, texts=texts):
                if cond is None:
                    return False
                return any(logic.implies([(cond[0], cond[1])], logic.parse(t)) for t in texts)

            # start inside the body: successors of the header that belong to the loop body
            starts = [v for v, _ in gcfg.succ[header.id] if gcfg.nodes[v].ast is not None and any(_in(gcfg.nodes[v].ast, b) for b in st.body)]
            escaped = []
            for s0 in starts:
                for nid in gcfg.reachable_avoiding_edges(s0, blocked):
                    nd = gcfg.nodes[nid]
                    if nid == header.id:
                        escaped.append("the next iteration")
                    elif nid == gcfg.raise_exit:
                        continue
                    elif nd.ast is None or not _in(nd.ast, st):
                        escaped.append("the code after the loop")
            # ... and the loop is left only by exhausting the fields (or raising): a break/return after a successful check skips the rest
            for s0 in starts:
                for nid in gcfg.reachable_avoiding_edges(s0, lambda u, v, cond, h=header.id: v == h):
                    nd = gcfg.nodes[nid]
                    if nid != gcfg.raise_exit and (nd.ast is None or not _in(nd.ast, st)):
                        escaped.append("the code after the loop (leaving the remaining fields unvisited)")
            if not starts:
                continue
            if escaped:
                ctx.fail("R6.3", "_generate_record_class:validation-loop",
                         f"the loop that validates field names can reach {sorted(set(escaped))[0]} without the check having succeeded (break/return/continue before the "
                         "check), so later fields reach the template unvalidated", st,
                         key="R6.3:_generate_record_class:validation-loop-early-exit")
            else:
                validated_pos.add(k)
                val_loops.append(st)
    ctx.floor("R6.3", "field-name validation loops over the fields parameter", len(val_loops) + sum(
        1 for v in ctx.violations if v["key"] == "R6.3:_generate_record_class:validation-loop-early-exit"), 1)

    # record-name validation: no path from entry to exec avoids an edge on which the type-name regex is known to match the parameter
    name_uses = [u for u in regex_uses(ctx, gen) if u[3] is not None and dotted(u[3]) == p_name]
    ctx.floor("R6.1", "regex tests on the record type name", len(name_uses), 1)
    name_val_nodes = []
    name_texts = {norm(call) for call, *_ in name_uses}
    for call, rx, method, arg in name_uses:
        check_regex(ctx, "R6.1", "_generate_record_class:type-name-pattern", rx, method, REF_TYPE, call)
        nd = gcfg.header_node_for_expr(call) or gcfg.node_of(call)
        name_val_nodes.append(nd)

    def name_blocked(u, v, cond):
        if cond is None:
            return False
        e = match_truth(cond[0], name_texts)
        return any(logic.implies([(e, cond[1])], logic.parse(t)) for t in name_texts)

    unvalidated_reach = gcfg.reachable_avoiding_edges(gcfg.entry, name_blocked)

    interp = Interp(prog, gen, {p_name: S({"recname"}), p_fields: Seq(Tup([S({"fields[0]"}), S({"fields[1]"})]))})
    interp.watch = {"exec", "eval"}
    interp.run()
    for ec in exec_calls:
        rec = interp.sinks.get(id(ec))
        if rec is None:
            raise AnalysisError("R6.3: exec call not reached by the provenance evaluation")
        _, args, kwargs = rec
        code_av = args[0] if args else kwargs.get("source")
        labels = set(code_av.labels())
        enode = gcfg.node_of(ec)
        slots = sorted(labels - {"const"})
        ctx.sample({"rule": "R6.3", "exec_at": ctx.loc(ec), "provenance_of_source": sorted(labels)})
        for lab in slots:
            construct = f"_generate_record_class:exec-source<-{lab}"
            if lab.startswith("fields["):
                pos = int(lab[7:-1])
                if pos not in validated_pos:
                    ctx.fail("R6.3", construct,
                             f"position {pos} of the (type, name) tuples flows into the exec'd source but only positions "
                             f"{sorted(validated_pos)} are validated by is_valid_field_name (a field TYPE name is attacker text)",
                             ec, key=f"R6.3:_generate_record_class:unvalidated-{lab}-in-template")
                    continue
                dom = all(gcfg.dominates(gcfg.node_of(l).id, enode.id) for l in val_loops)
                ctx.check(dom, "R6.3", construct, "the validation loop does not dominate exec", ec,
                          f"validated by is_valid_field_name in a loop that dominates exec (positions {sorted(validated_pos)})")
            elif lab == "recname":
                dom = bool(name_val_nodes) and enode.id not in unvalidated_reach
                # the value that was validated must be the parameter itself: no assignment to `name` before the test
                pre_assign = False
                for n in name_val_nodes:
                    rd = gcfg.reaching_defs(p_name)[n.id]
                    pre_assign |= rd != {gcfg.entry}
                ctx.check(dom and not pre_assign, "R6.3", construct,
                          "the record-name validation does not dominate exec" if not dom else
                          "the record name is re-assigned before it is validated", ec,
                          "validated by the type-name regex in a statement that dominates exec")
            elif lab == "xform:decode" and _decode_only_in_to_str(ctx, interp):
                ctx.ok("R6.3", construct, "bytes->str decoding happens only in utils.to_str, which returns a str argument "
                       "unchanged; validated names are str (validation applies str-only operations to them)", ec)
            else:
                ctx.fail("R6.3", construct, f"unrecognised source {lab!r} flows into the exec'd class source", ec,
                         key=f"R6.3:_generate_record_class:foreign-source:{lab}")
        # transformations applied to tainted strings on the way
        for kind, call, recv, xargs in interp.xforms:
            if not (recv.labels() - {"const"}):
                continue
            if enclosing_function(call) is not gen:
                continue
            if kind == "replace":
                ok = False
                why = ""
                try:
                    old_s = prog.fold(base, call.args[0])
                    new_s = prog.fold(base, call.args[1])
                    if isinstance(new_s, str) and isinstance(old_s, str) and old_s:
                        if IDENT_CHARS.match(new_s):
                            ok, why = True, "replacement text consists of identifier characters only"
                        elif any(ch not in NAME_ALPHABET for ch in old_s):
                            ok, why = True, "the searched text cannot occur inside a validated name, so names are left untouched"
                except (NotConst, IndexError):
                    ok = False
                ctx.check(ok, "R6.3", f"_generate_record_class:xform:replace({norm(call.args[0]) if call.args else ''})",
                          "a validated name is rewritten with a replacement that is not made of identifier characters", call, why)
            elif kind in ("startswith", "endswith", "decode"):
                continue
            else:
                raise AnalysisError(f"R6.3: transformation .{kind}() of a validated name is not modelled ({norm(call)})")
    # exec's globals: must be a fresh dict whose values are objects, keys constant or '_field_<validated name>'
    # (a type name must not become a *key* either)
    for ec in exec_calls:
        rec = interp.sinks[id(ec)]
        if len(rec[1]) > 1:
            g = rec[1][1]
            if isinstance(g, Map):
                kl = set(g.k.labels()) - {"const"}
                bad = {l for l in kl if not (l.startswith("fields[") and int(l[7:-1]) in validated_pos)
                       and not (l == "xform:decode" and _decode_only_in_to_str(ctx, interp))}
                ctx.check(not bad, "R6.3", "_generate_record_class:exec-globals-keys",
                          f"keys of the exec globals derive from {sorted(bad)}", ec,
                          f"global names derive from literals and validated field names {sorted(kl)}")

    # ------------------------------------------------------------------ R6.4 whitelist before resolution
    ctx.rule("R6.4", "in fieldtype(): `clspath in WHITELIST` holds on every path to import_module()/getattr(mod, clsname), "
                     "whose arguments derive only from the tested name; WHITELIST is a list of dotted ASCII names; "
                     "DynamicFieldtypeModule.__getattr__ walks WHITELIST_TREE and raises before constructing a child")
    ft = ctx.anchor_func("flow.record.base.fieldtype")
    fcfg = CFG(ft)
    wl_mod = prog.module("flow.record.whitelist")
    ctx.use(wl_mod)
    wl = prog.fold(wl_mod, ast.parse("WHITELIST").body[0].value)
    if not isinstance(wl, (list, tuple, frozenset)):
        raise AnalysisError("R6.4: WHITELIST does not fold to a constant sequence")
    bad = [w for w in wl if not (isinstance(w, str) and DOTTED_NAME.match(w))]
    ctx.check(not bad, "R6.4", "whitelist:entries", f"WHITELIST entries {bad} are not dotted ASCII names", None,
              f"{len(wl)} whitelist entries, all dotted ASCII names")
    ctx.floor("R6.4", "whitelist entries", len(wl), 20)
    sinks = []
    for c in calls_in(ft):
        cn = call_name(c)
        r = prog.resolve_expr(base, c.func)
        rn = r.name if isinstance(r, Ref) else None
        if rn in ("importlib.import_module", "builtins.__import__") or cn in ("getattr",) or rn == "builtins.getattr":
            sinks.append(c)
    ctx.floor("R6.4", "import_module/getattr sinks in fieldtype()", len(sinks), 2)
    fparam = func_params(ft)[0]
    # local def-use closure: names that derive only from the tested parameter and constants
    derives = {fparam}
    consts_ok = {"base_module_path"}
    changed = True
    assigns = [st for st in walk_no_nested(ft) if isinstance(st, ast.Assign)]
    while changed:
        changed = False
        for st in assigns:
            srcs = {n.id for n in ast.walk(st.value) if isinstance(n, ast.Name)}
            local_srcs = {s for s in srcs if s in {t for a in assigns for tt in a.targets for t in _target_names(tt)} or s == fparam}
            if local_srcs <= derives:
                for tt in st.targets:
                    for t in _target_names(tt):
                        if t not in derives:
                            derives.add(t)
                            changed = True
    for c in sinks:
        node = fcfg.node_of(c)
        facts = {(t, p) for t, p, _ in fcfg.facts_at(node.id)}
        guarded = [t for t, p in facts if p and t.endswith(" in WHITELIST")]
        # the import of the *base* fieldtypes module with a constant argument needs no guard
        argnames = {n.id for a in c.args for n in ast.walk(a) if isinstance(n, ast.Name)}
        const_arg = False
        if c.args:
            try:
                prog.fold(base, c.args[0] if call_name(c) != "getattr" else c.args[1], None)
                const_arg = call_name(c) != "getattr"
            except NotConst:
                const_arg = False
        local_names = {t for a in assigns for tt in a.targets for t in _target_names(tt)} | {fparam}
        tainted_args = {a for a in argnames if a in local_names}
        construct = f"fieldtype:{norm(c)}"
        if const_arg or not tainted_args:
            # constant module path (possibly via a local constant)
            if all(_is_const_local(prog, base, ft, a) for a in tainted_args):
                ctx.ok("R6.4", construct, "argument is a constant", c)
                continue
        ok_guard = any(t.split(" in ")[0] in derives for t in guarded)
        ok_args = tainted_args <= derives | {a for a in tainted_args if _is_const_local(prog, base, ft, a)} | _module_results(ft, derives)
        ctx.check(ok_guard and ok_args, "R6.4", construct,
                  ("no `<name> in WHITELIST` fact holds on every path to this call" if not ok_guard else
                   f"arguments {sorted(tainted_args - derives)} do not derive from the whitelisted name"), c,
                  f"dominated by the whitelist test ({guarded[0] if guarded else ''}); arguments derive from it",
                  key=f"R6.4:fieldtype:unguarded:{call_name(c)}")
    # every class handed out has passed the whitelist test in THIS activation: a return that is not under `<name> in WHITELIST`
    # (for instance a list type built around the result of a recursive lookup, which would accept `string[][]`) is a hole
    def _wl_edge(facts):
        return any(p and t.endswith(" in WHITELIST") and t.split(" in ")[0] in derives for t, p, _ in facts)

    for rt in [n for n in fcfg.stmt_nodes() if isinstance(n.ast, ast.Return)]:
        # path-sensitive: on EVERY path to the return some whitelist test of a derived name has succeeded (the two spellings of the
        # list / scalar split may test differently named values in different branches)
        guarded = fcfg.must_hold(rt.id, _wl_edge, lambda node: None)
        ctx.check(bool(guarded), "R6.4", f"fieldtype:return@{norm(rt.ast)[:30]}", "a field type class is returned on a path on which no `<name> in WHITELIST` test of the requested "
                  "name (with at most one list suffix removed) has succeeded", rt.ast, "every return is under the whitelist test", key="R6.4:fieldtype:unguarded-return")
    selfcalls = [c for c in calls_in(ft) if isinstance(c.func, ast.Name) and c.func.id == ft.name]
    ctx.check(not selfcalls, "R6.4", "fieldtype:no-recursion", "fieldtype() calls itself: each level strips another `[]`, so nested list types (`string[][]`) pass although the "
              "whitelist admits one list level", selfcalls[0] if selfcalls else ft, "the list suffix is removed once, in one activation", key="R6.4:fieldtype:recursive-lookup")
    # the test must be against the real whitelist constant
    r = prog.resolve_global(base, "WHITELIST")
    ctx.check(r is not None and isinstance(r, tuple) and r[2] is wl_mod, "R6.4", "fieldtype:WHITELIST-binding",
              "WHITELIST in base.py is not the constant of flow.record.whitelist", ft, "WHITELIST resolves to flow.record.whitelist.WHITELIST")

    # ------------------------------------------------------------------ R6.7 declared field names are pairwise distinct
    ctx.rule("R6.7", "a definition that declares the same field name twice is refused before the record class is generated (the class has one slot per "
                     "NAME: with a duplicate the record does not have 'exactly the declared fields', and positional values shift into the metadata slots). "
                     "Accepted spellings: `if name in seen: raise` with `seen.add(name)` in the loop over the fields, or a raise under a comparison of two len(...)")
    dup_guard = None
    for q7 in ("flow.record.base._generate_record_class", "flow.record.base.RecordDescriptor.__init__"):
        f7 = prog.func(q7)
        cfg7 = CFG(f7)
        adds = {(norm(c.func.value), norm(c.args[0])) for c in calls_in(f7) if isinstance(c.func, ast.Attribute) and c.func.attr == "add" and len(c.args) == 1}
        adds |= {(norm(n.value), norm(n.slice)) for n in ast.walk(f7) if isinstance(n, ast.Subscript) and isinstance(n.ctx, ast.Store)}
        for rn in [n for n in cfg7.stmt_nodes() if isinstance(n.ast, ast.Raise)]:
            for t, pol, _ in cfg7.facts_at(rn.id):
                m7 = re.match(r"^([A-Za-z_][\w.]*) in ([A-Za-z_][\w.]*)$", t)
                if pol and m7 and (m7.group(2), m7.group(1)) in adds:
                    dup_guard = rn.ast
                if t.count("len(") >= 2 and (("!=" in t and pol) or ("==" in t and not pol) or ("<" in t and pol) or (">" in t and pol)):
                    dup_guard = rn.ast
    ctx.check(dup_guard is not None, "R6.7", "_generate_record_class:duplicate-field-names", "no test refuses a definition that declares a field name twice: the declared field list and "
              "the generated class's slots then differ", gen, "duplicate names raise RecordDescriptorError", key="R6.7:_generate_record_class:duplicate-field-names")

    dga = ctx.anchor_func("flow.record.base.DynamicFieldtypeModule.__getattr__")
    dcfg = CFG(dga)
    rets = [n for n in dcfg.stmt_nodes() if isinstance(n.ast, ast.Return)]
    loops = [n for n in dcfg.stmt_nodes() if n.kind == "for"]
    good_loop = None
    why = "no loop over the dotted parts descends the tree"
    for ln in loops:
        lp = ln.ast
        if not (isinstance(lp.target, ast.Name) and isinstance(lp.iter, ast.Call) and isinstance(lp.iter.func, ast.Attribute) and lp.iter.func.attr == "split"):
            continue
        pv = lp.target.id
        # the descent step: T = T[part]
        desc = [st for st in ast.walk(lp) if isinstance(st, ast.Assign) and len(st.targets) == 1 and isinstance(st.targets[0], ast.Name) and isinstance(st.value, ast.Subscript)
                and norm(st.value.value) == st.targets[0].id and norm(st.value.slice) == pv]
        if len(desc) != 1:
            continue
        dnode = dcfg.node_of(desc[0])
        tvar = desc[0].targets[0].id
        guarded = logic.implies(logic.facts_as_premises(dcfg.facts_at(dnode.id)), logic.parse(f"{pv} in {tvar}"))
        body_ids = {dcfg.node_of(x).id for st in lp.body for x in ast.walk(st) if isinstance(x, ast.stmt) and dcfg.node_of(x) is not None}
        # every iteration that comes back to the loop header (or leaves the loop normally) has descended
        skips = any(s_ in body_ids and s_ != dnode.id and ln.id in dcfg.reachable(s_, avoid=lambda n: n.id == dnode.id) for s_, _ in dcfg.succ[ln.id])
        # the loop is left only through its header: no `break` hands out a partially walked path
        early = any(rn.id in dcfg.reachable(b, avoid=lambda n: n.id == ln.id) for b in body_ids for rn in rets)
        init = [dcfg.nodes[d].ast for d in dcfg.reaching_defs(tvar).get(ln.id, set()) if d not in body_ids and dcfg.nodes[d].ast is not None]
        from_tree = bool(init) and all(isinstance(a, ast.Assign) and norm(a.value) == "WHITELIST_TREE" for a in init)
        if guarded and not skips and not early and from_tree:
            good_loop = ln
            walked = norm(lp.iter.func.value)
        else:
            why = "; ".join(w for w, c in (("the descent is not guarded by `part in tree`", not guarded), ("an iteration can continue without descending", skips),
                                          ("the loop can be left early", early), ("the walk does not start from WHITELIST_TREE", not from_tree)) if c)
    # the walk may live in a helper the method asks (`if not tree_contains(path): raise`): the helper then walks as above, answers with a falsy
    # constant from inside the loop when a part is missing and with a truthy value after the loop, and the return is under the helper's answer
    helper_ok = {}
    if good_loop is None:
        for hc in calls_in(dga):
            hr = prog.resolve_expr(base, hc.func) if isinstance(hc.func, (ast.Name, ast.Attribute)) else None
            if not (isinstance(hr, DefRef) and isinstance(hr.node, ast.FunctionDef)) or len(hc.args) != 1 or hr.node is dga:
                continue
            hf = hr.node
            hcfg = CFG(hf)
            for hl in [n for n in hcfg.stmt_nodes() if n.kind == "for"]:
                lp = hl.ast
                if not (isinstance(lp.target, ast.Name) and isinstance(lp.iter, ast.Call) and isinstance(lp.iter.func, ast.Attribute) and lp.iter.func.attr == "split"
                        and norm(lp.iter.func.value) == (func_params(hf) or [None])[0]):
                    continue
                pv = lp.target.id
                desc = [st for st in ast.walk(lp) if isinstance(st, ast.Assign) and len(st.targets) == 1 and isinstance(st.targets[0], ast.Name) and isinstance(st.value, ast.Subscript)
                        and norm(st.value.value) == st.targets[0].id and norm(st.value.slice) == pv]
                if len(desc) != 1:
                    continue
                dn = hcfg.node_of(desc[0])
                tv = desc[0].targets[0].id
                g_ = logic.implies(logic.facts_as_premises(hcfg.facts_at(dn.id)), logic.parse(f"{pv} in {tv}"))
                b_ids = {hcfg.node_of(x).id for st in lp.body for x in ast.walk(st) if isinstance(x, ast.stmt) and hcfg.node_of(x) is not None}
                sk_ = any(s_ in b_ids and s_ != dn.id and hl.id in hcfg.reachable(s_, avoid=lambda n: n.id == dn.id) for s_, _ in hcfg.succ[hl.id])
                init_ = [hcfg.nodes[d].ast for d in hcfg.reaching_defs(tv).get(hl.id, set()) if d not in b_ids and hcfg.nodes[d].ast is not None]
                ft_ = bool(init_) and all(isinstance(a, ast.Assign) and norm(a.value) == "WHITELIST_TREE" for a in init_)
                in_loop = [r for r in ast.walk(lp) if isinstance(r, ast.Return)]
                after = [r for r in walk_no_nested(hf) if isinstance(r, ast.Return) and not any(r is x for x in in_loop)]
                falsy_inside = bool(in_loop) and all(isinstance(r.value, ast.Constant) and not r.value.value for r in in_loop)
                truthy_after = bool(after) and all((isinstance(r.value, ast.Constant) and r.value.value is True) or norm(r.value) == tv for r in after)
                if g_ and not sk_ and ft_ and falsy_inside and truthy_after:
                    helper_ok[norm(hc)] = (hc, norm(hc.args[0]), any(norm(r.value) == tv for r in after))
    for rn in rets:
        via_helper = False
        if good_loop is None and helper_ok:
            prem_r = logic.facts_as_premises(dcfg.facts_at(rn.id))
            for ctext, (hc, arg, returns_node) in helper_ok.items():
                if logic.implies(prem_r, logic.parse(ctext)) or logic.implies(prem_r, logic.parse(f"{ctext} is not None")):
                    via_helper = True
                    walked = arg
        ctx.check((good_loop is not None and dcfg.dominates(good_loop.id, rn.id)) or via_helper, "R6.4",
                  "DynamicFieldtypeModule.__getattr__:return", f"a child module object is returned without walking WHITELIST_TREE ({why})",
                  rn.ast, "the WHITELIST_TREE walk (raise on unknown part) dominates the return")
        if via_helper and isinstance(rn.ast.value, ast.Call) and rn.ast.value.args:
            ctx.check(norm(rn.ast.value.args[0]) == walked, "R6.4", "DynamicFieldtypeModule.__getattr__:child-path", f"the child is built for `{norm(rn.ast.value.args[0])}`, the walk validated `{walked}`",
                      rn.ast, "the child module carries exactly the path that was walked")
        if good_loop is not None and isinstance(rn.ast.value, ast.Call) and rn.ast.value.args:
            ctx.check(norm(rn.ast.value.args[0]) == walked, "R6.4", "DynamicFieldtypeModule.__getattr__:child-path", f"the child is built for `{norm(rn.ast.value.args[0])}`, the walk validated `{walked}`",
                      rn.ast, "the child module carries exactly the path that was walked")
    tree_reads = [n for n in ast.walk(dga) if isinstance(n, ast.Name) and n.id == "WHITELIST_TREE"]
    ctx.check(bool(tree_reads) or bool(helper_ok), "R6.4", "DynamicFieldtypeModule.__getattr__:tree", "WHITELIST_TREE is no longer consulted", dga,
              "walk starts from WHITELIST_TREE")

    # ------------------------------------------------------------------ R6.5 inventory of dynamic code sites
    ctx.rule("R6.5", "exec/eval/compile/import sites per module equal the reviewed inventory; _generate_record_class is "
                     "called only from RecordDescriptor.__init__; Selector compiles with PyCF_ONLY_AST")
    sites = []
    from ..strsym import text_structure
    from ..core import copy_ast

    def literal_prefix(fn, module, e):
        """Leading literal text of a string-building expression (module constants folded); None when it starts with a variable part."""
        e = copy_ast(e)
        for n in ast.walk(e):
            for fld, v in ast.iter_fields(n):
                vs = v if isinstance(v, list) else [v]
                for k, x in enumerate(vs):
                    if isinstance(x, ast.Name) and isinstance(x.ctx, ast.Load) and (fn is None or x.id not in {t.id for t in ast.walk(fn) if isinstance(t, ast.Name) and isinstance(t.ctx, ast.Store)}):
                        try:
                            val = prog.fold(module, x)
                        except NotConst:
                            continue
                        if isinstance(val, str):
                            c0 = ast.Constant(value=val)
                            if isinstance(v, list):
                                v[k] = c0
                            else:
                                setattr(n, fld, c0)
        if isinstance(e, ast.Name):
            try:
                val = prog.fold(module, e)
                if isinstance(val, str) and not (fn is not None and any(isinstance(t, ast.Name) and t.id == e.id and isinstance(t.ctx, ast.Store) for t in ast.walk(fn))):
                    e = ast.Constant(value=val)
            except NotConst:
                pass
        from ..strsym import literal_prefix as _lp

        holder = fn if fn is not None else ast.Module(body=[], type_ignores=[])
        # locals of the function that hold module constants are folded inside text_structure through their definitions
        return _lp(_fold_names(text_structure(holder, e)))

    def _fold_names(parts):
        out = []
        for p_ in parts:
            if p_[0] == "var" and p_[1].isidentifier():
                try:
                    val = prog.fold(base if True else None, ast.Name(id=p_[1], ctx=ast.Load()))
                    if isinstance(val, str):
                        out.append(("lit", val))
                        continue
                except NotConst:
                    pass
            if p_[0] == "alt":
                out.append(("alt", [_fold_names(a) for a in p_[1]]))
                continue
            out.append(p_)
        # merge adjacent literals
        merged = []
        for p_ in out:
            if merged and merged[-1][0] == "lit" and p_[0] == "lit":
                merged[-1] = ("lit", merged[-1][1] + p_[1])
            else:
                merged.append(p_)
        return merged

    for m in prog.modules.values():
        for c in calls_in(m.tree, nested=True):
            cn = call_name(c)
            if cn is None:
                continue
            r = prog.resolve_expr(m, c.func)
            full = r.name if isinstance(r, Ref) else cn
            short = full.replace("builtins.", "")
            if short in DANGEROUS or cn in DANGEROUS:
                # local shadowing (e.g. a method called compile on an object) is excluded by resolution: only Names/known modules
                if isinstance(c.func, ast.Attribute) and not isinstance(r, Ref):
                    continue
                f = enclosing_function(c)
                where = qualname_of(f) if f is not None else m.modname
                sites.append((m, c, cn))
                ctx.use(m)
                key = (where, cn)
                construct = f"{where.replace('flow.record.', '')}:{cn}"
                if key not in SITE_INVENTORY:
                    ctx.fail("R6.5", construct, f"`{norm(c)[:70]}` is a dynamic code / import site that is not in the reviewed inventory", c, key=f"R6.5:new-site:{where}:{cn}")
                    continue
                want = SITE_INVENTORY[key]
                if want is None:
                    ctx.ok("R6.5", construct, "reviewed site", c)
                    continue
                arg = c.args[0] if c.args else None
                pref = literal_prefix(f, m, arg) if arg is not None else ""
                ctx.check(any(pref.startswith(w) for w in want), "R6.5", construct, f"`{norm(c)[:70]}`: the reviewed form of this site starts with {want}, this one starts with {pref!r}", c,
                          f"argument starts with {pref!r}", key=f"R6.5:site-form:{where}:{cn}")
    ctx.floor("R6.5", "dynamic code / import call sites in the package", len(sites), 8)
    # Selector.__init__ must pass PyCF_ONLY_AST
    sel_init = ctx.anchor_func("flow.record.selector.Selector.__init__")
    for c in calls_in(sel_init):
        if call_name(c) == "compile":
            flags = next((k.value for k in c.keywords if k.arg == "flags"), c.args[3] if len(c.args) > 3 else None)
            has = flags is not None and any(dotted(n) == "ast.PyCF_ONLY_AST" for n in ast.walk(flags))
            ctx.check(has, "R6.5", "Selector.__init__:compile-flags", "the interpreted selector compiles to code, not to an AST", c,
                      "flags include ast.PyCF_ONLY_AST")
    # single caller of _generate_record_class; recordType assigned only in RecordDescriptor.__init__
    callers = set()
    for m in prog.modules.values():
        for c in calls_in(m.tree, nested=True):
            r = prog.resolve_expr(m, c.func)
            if isinstance(r, DefRef) and r.node is gen:
                f = enclosing_function(c)
                callers.add(qualname_of(f) if f is not None else m.modname)
    ctx.check(callers == {"flow.record.base.RecordDescriptor.__init__"}, "R6.5", "_generate_record_class:callers",
              f"callers are {sorted(callers)}", gen, "only RecordDescriptor.__init__ creates record classes")
    rt_stores = []
    for m in prog.modules.values():
        for n in ast.walk(m.tree):
            if isinstance(n, ast.Attribute) and n.attr == "recordType" and isinstance(n.ctx, ast.Store):
                f = enclosing_function(n)
                rt_stores.append(qualname_of(f) if f is not None else m.modname)
    ctx.check(set(rt_stores) <= {"flow.record.base.RecordDescriptor.__init__"}, "R6.5", "RecordDescriptor.recordType:stores",
              f"recordType is assigned in {sorted(set(rt_stores))}", None, "recordType is assigned only in RecordDescriptor.__init__")
    # decoders of untrusted descriptors construct them through RecordDescriptor
    for qn in ("flow.record.packer.RecordPacker.unpack_obj", "flow.record.jsonpacker.JsonRecordPacker.unpack_obj",
               "flow.record.adapter.avro.schema_to_descriptor"):
        fn = ctx.anchor_func(qn)
        reaches = False
        for c in calls_in(fn):
            r = prog.resolve_expr(fn._module, c.func)
            if isinstance(r, DefRef) and r.qualname in ("flow.record.base.RecordDescriptor", "flow.record.base.RecordDescriptor._unpack"):
                reaches = True
        ctx.check(reaches, "R6.5", f"{qn.split('flow.record.')[1]}:descriptor-construction",
                  "does not construct descriptors through RecordDescriptor", fn, "constructs descriptors through RecordDescriptor (validated)")
    # ... and the binary decoder's descriptor branch returns nothing else (a descriptor frame is untrusted input: re-using a registered
    # descriptor because a 32-bit hash over unseparated text matches skips validation)
    from .packer_common import unpack_branches

    uo6 = prog.func("flow.record.packer.RecordPacker.unpack_obj")
    _, ubs6 = unpack_branches(prog, uo6)
    for u6 in [u for u in ubs6 if u.role == "descriptor"]:
        for rt6 in [n for s0 in u6.if_node.body for n in ast.walk(s0) if isinstance(n, ast.Return) and n.value is not None]:
            r6 = prog.resolve_expr(uo6._module, rt6.value.func) if isinstance(rt6.value, ast.Call) else None
            ctx.check(isinstance(r6, DefRef) and r6.qualname in ("flow.record.base.RecordDescriptor", "flow.record.base.RecordDescriptor._unpack"), "R6.5",
                      f"packer.RecordPacker.unpack_obj:descriptor-branch:return {norm(rt6.value)[:40]}", f"a descriptor frame can be answered with `{norm(rt6.value)}` instead of a freshly "
                      "validated RecordDescriptor", rt6, "returns RecordDescriptor._unpack(name, fields)", key="R6.5:unpack_obj:descriptor-branch:unvalidated-return")
    # the JSON decoder's descriptor branch likewise: whatever is returned for a line marked as a descriptor is freshly validated
    ju6 = prog.func("flow.record.jsonpacker.JsonRecordPacker.unpack_obj")
    jcfg6 = CFG(ju6)
    n_j6 = 0
    for rn6 in [n for n in jcfg6.stmt_nodes() if isinstance(n.ast, ast.Return) and n.ast.value is not None]:
        facts6 = [(t, p) for t, p, _ in jcfg6.facts_at(rn6.id)]
        if not any(p and "recorddescriptor" in t and "==" in t for t, p in facts6):
            continue
        n_j6 += 1
        v6 = rn6.ast.value
        r6 = prog.resolve_expr(ju6._module, v6.func) if isinstance(v6, ast.Call) else None
        ctx.check(isinstance(r6, DefRef) and r6.qualname in ("flow.record.base.RecordDescriptor", "flow.record.base.RecordDescriptor._unpack"), "R6.5",
                  f"jsonpacker.JsonRecordPacker.unpack_obj:descriptor-branch:return {norm(v6)[:40]}", f"a descriptor line can be answered with `{norm(v6)}` instead of a freshly "
                  "validated RecordDescriptor (a registered descriptor whose 32-bit identifier matches is not a validation of the definition in the line)", rn6.ast,
                  "returns RecordDescriptor._unpack(*data)", key="R6.5:json-unpack_obj:descriptor-branch:unvalidated-return")
    ctx.floor("R6.5", "returns of the JSON decoder's descriptor branch", n_j6, 1)

    # ------------------------------------------------------------------ R6.8 the string-definition path is taken only without a field list
    ctx.rule("R6.8", "RecordDescriptor.__init__ parses `name` as a complete textual definition (parse_def) only when `fields is None`: an empty field list is still a "
                     "field list, and a name that then goes through parse_def is split at its first line instead of being validated as a type name")
    rdi8 = ctx.anchor_func("flow.record.base.RecordDescriptor.__init__")
    cfg8 = CFG(rdi8)
    pdefs = [c for c in calls_in(rdi8) if call_name(c) == "parse_def"]
    ctx.floor("R6.8", "parse_def calls in RecordDescriptor.__init__", len(pdefs), 1)
    fparam8 = func_params(rdi8)[2] if len(func_params(rdi8)) > 2 else "fields"
    for c8 in pdefs:
        prem8 = logic.facts_as_premises(cfg8.facts_at((cfg8.header_node_for_expr(c8) or cfg8.node_of(c8)).id))
        ctx.check(logic.implies(prem8, logic.parse(f"{fparam8} is None")), "R6.8", "RecordDescriptor.__init__:parse_def-only-without-fields",
                  f"parse_def({norm(c8.args[0]) if c8.args else ''}) can run although a field list was given (the facts there do not imply `{fparam8} is None`)", c8,
                  f"under `{fparam8} is None`", key="R6.8:RecordDescriptor.__init__:parse_def-with-field-list")



def _target_names(t):
    if isinstance(t, ast.Name):
        return [t.id]
    if isinstance(t, (ast.Tuple, ast.List)):
        out = []
        for e in t.elts:
            out += _target_names(e)
        return out
    return []


def _is_const_local(prog, module, fn, name) -> bool:
    vals = [st.value for st in walk_no_nested(fn) if isinstance(st, ast.Assign) for tt in st.targets if name in _target_names(tt)]
    if not vals:
        return False
    for v in vals:
        try:
            prog.fold(module, v)
        except NotConst:
            return False
    return True


def _module_results(fn, derives) -> set:
    """Locals assigned from import_module(<derived>) - the module object later passed to getattr."""
    out = set()
    for st in walk_no_nested(fn):
        if isinstance(st, ast.Assign) and isinstance(st.value, ast.Call) and call_name(st.value) in ("importlib.import_module", "import_module"):
            names = {n.id for a in st.value.args for n in ast.walk(a) if isinstance(n, ast.Name)}
            for tt in st.targets:
                out |= set(_target_names(tt))
    return out


def _decode_only_in_to_str(ctx, interp) -> bool:
    """All .decode() transformations seen by the provenance evaluation sit in flow.record.utils.to_str, and to_str
    returns a str argument unchanged before it reaches the decode."""
    to_str = ctx.prog.func("flow.record.utils.to_str")
    ctx.loc(to_str)
    for kind, call, recv, xargs in interp.xforms:
        if kind == "decode" and enclosing_function(call) is not to_str:
            return False
    cfg = CFG(to_str)
    p = func_params(to_str)[0]
    for n in cfg.stmt_nodes():
        if isinstance(n.ast, ast.Return) and any(isinstance(c, ast.Call) and isinstance(c.func, ast.Attribute)
                                                 and c.func.attr == "decode" for c in ast.walk(n.ast)):
            facts = {(t, pol) for t, pol, _ in cfg.facts_at(n.id)}
            # on the path to the decode, `isinstance(value, str)` must be known false
            if not any((not pol) and t == f"isinstance({p}, str)" for t, pol in facts):
                return False
    return True
