"""C11 - Compression and container format are detected transparently."""
from __future__ import annotations

import ast
import os

from ..cfg import CFG
from ..core import (AnalysisError, DefRef, NotConst, Ref, call_name, calls_in, dotted, enclosing_conditions, func_params, get_kw, norm, qualname_of,
                    walk_no_nested)

PROPERTY = "C11"
EXPLANATION = (
    "Decides: (R11.1) the codec tables agree - every codec open_path writes by extension has a sniffing branch in open_stream "
    "that opens with the SAME library (and vice versa), and each HAS_* guard is the flag set by the import of that library; "
    "(R11.2) every *_MAGIC folds to the format's real signature, is compared with a slice of exactly len(magic) bytes, no magic "
    "is a prefix of another, the peek depth covers the longest comparison; (R11.3) sniffing is reached on every read path: "
    "open_path's read branch without a recognised extension passes through open_stream, RecordAdapter passes file objects / "
    "stdin through open_stream and find_adapter_for_stream, and the object handed to the adapter is the peekable object that "
    "was sniffed (not an earlier unwrapped one); (R11.4) refusal: an undetermined adapter raises RecordAdapterNotFound before "
    "import_module, and the stream reader accepts a header only if it ENDS with the magic after reading exactly the header "
    "frame; (R11.5) the extension table names adapter modules that exist and define the Reader/Writer class the dispatcher "
    "looks up. NOT decided: that written files satisfy independent decompressors; record equality per access path."
    " Rules added after the sixth blind round: (R11.6) seek() on the read path only under seekable(); (R11.7) memoised functions do not hand out sys.stdin/stdout/stderr, os.environ or a freshly opened file."
)
RULE_SUMMARY = "instances: codec rows, magic constants and their comparisons, read-path call chains, refusal sites, extension rows"

SIGNATURES = {
    "gzip": b"\x1f\x8b", "bz2": b"BZh", "lz4": b"\x04\x22\x4d\x18", "zstd": b"\x28\xb5\x2f\xfd", "avro": b"Obj", "recordstream": b"RECORDSTREAM\n",
}
LIB_OF_PREFIX = {"gzip": "gzip", "bz2": "bz2", "lz4": "lz4", "zstandard": "zstd", "zstd": "zstd"}
EXT_CODEC = {".gz": "gzip", ".bz2": "bz2", ".lz4": "lz4", ".zstd": "zstd", ".zst": "zstd"}


def lib_of_call(prog, module, call, local_objs=None):
    """Which compression library does this opener call belong to? Follows `cctx = zstd.ZstdCompressor(); cctx.stream_writer(...)`."""
    r = prog.resolve_expr(module, call.func)
    name = getattr(r, "name", None)
    if name is not None and name.split(".")[0] not in LIB_OF_PREFIX:
        # a wrapper around the opener (io.BufferedReader(gzip.GzipFile(...))): look at the wrapped calls
        for inner in [a for a in ast.walk(call) if isinstance(a, ast.Call) and a is not call]:
            l = lib_of_call(prog, module, inner, local_objs)
            if l:
                return l
    if name is None and isinstance(call.func, ast.Attribute) and isinstance(call.func.value, ast.Name) and local_objs:
        name = local_objs.get(call.func.value.id)
    if name is None:
        return None
    root = name.split(".")[0]
    return LIB_OF_PREFIX.get(root)


def branch_libs(prog, module, stmts):
    """Compression libraries whose openers are called anywhere in the statements (assignments, returns, call chains such as
    zstd.ZstdDecompressor().stream_reader(fp), and objects held in a local first)."""
    local_objs = {}
    libs = []
    for s0 in stmts:
        for a in ast.walk(s0):
            if isinstance(a, ast.Assign) and isinstance(a.value, ast.Call) and isinstance(a.targets[0], ast.Name):
                rr = prog.resolve_expr(module, a.value.func)
                if getattr(rr, "name", None):
                    local_objs[a.targets[0].id] = rr.name
    for s0 in stmts:
        for c in ast.walk(s0):
            if not isinstance(c, ast.Call):
                continue
            l = lib_of_call(prog, module, c, local_objs)
            if l is None and isinstance(c.func, ast.Attribute) and isinstance(c.func.value, ast.Call):
                l = lib_of_call(prog, module, c.func.value, local_objs)
            if l and l not in libs:
                libs.append(l)
    return libs


def run(ctx):
    prog = ctx.prog
    base = prog.module("flow.record.base")
    ctx.use(base)
    open_stream = ctx.anchor_func("flow.record.base.open_stream")
    open_path = ctx.anchor_func("flow.record.base.open_path")
    find_adapter = ctx.anchor_func("flow.record.base.find_adapter_for_stream")
    radapter = ctx.anchor_func("flow.record.base.RecordAdapter")
    ctx.trust("file signatures: gzip 1f8b, bzip2 'BZh', LZ4 frame 04224d18, zstd 28b52ffd, Avro 'Obj', record stream 'RECORDSTREAM\\n'")

    # flags set by imports:  try: import X as Y; HAS_X = True
    flag_lib = {}
    for st in base.tree.body:
        if isinstance(st, ast.Try):
            libs = [a.name for n in st.body if isinstance(n, (ast.Import,)) for a in n.names]
            flags = [t.id for n in st.body if isinstance(n, ast.Assign) and isinstance(n.value, ast.Constant) and n.value.value is True for t in n.targets if isinstance(t, ast.Name)]
            for f in flags:
                for l in libs:
                    flag_lib[f] = LIB_OF_PREFIX.get(l.split(".")[0], l.split(".")[0])

    # ------------------------------------------------------------------ sniff table (open_stream)
    sniff = {}  # codec -> dict(magic_name, magic, slice_len, flag, lib, node)
    peek_depth = None
    for c in calls_in(open_stream):
        if isinstance(c.func, ast.Attribute) and c.func.attr == "peek" and c.args:
            peek_depth = _fold(prog, base, c.args[0])
    chain = [st for st in walk_no_nested(open_stream) if isinstance(st, ast.If)]
    for st in chain:
        # startswith form: peek_data.startswith(MAGIC) compares exactly len(MAGIC) leading bytes
        for sw in [n for n in ast.walk(st.test) if isinstance(n, ast.Call) and isinstance(n.func, ast.Attribute) and n.func.attr == "startswith" and n.args]:
            magic = _fold(prog, base, sw.args[0])
            if isinstance(magic, bytes):
                flags = [x.id for x in ast.walk(st.test) if isinstance(x, ast.Name) and x.id.startswith("HAS_")]
                bl = branch_libs(prog, base, st.body)
                lib = bl[0] if len(bl) == 1 else (tuple(bl) or None)
                codec = next((k for k, v in SIGNATURES.items() if v == magic), None)
                sniff[norm(sw.args[0])] = dict(codec=codec, magic=magic, n=len(magic), flags=flags, lib=lib, node=st)
        for cmpn in [n for n in ast.walk(st.test) if isinstance(n, ast.Compare)]:
            if not (len(cmpn.ops) == 1 and isinstance(cmpn.ops[0], ast.Eq) and isinstance(cmpn.left, ast.Subscript)):
                continue
            magic = _fold(prog, base, cmpn.comparators[0])
            if not isinstance(magic, bytes):
                continue
            sl = cmpn.left.slice
            n = _fold(prog, base, sl.upper) if isinstance(sl, ast.Slice) and sl.lower is None and sl.upper is not None else None
            flags = [x.id for x in ast.walk(st.test) if isinstance(x, ast.Name) and x.id.startswith("HAS_")]
            bl = branch_libs(prog, base, st.body)
            lib = bl[0] if len(bl) == 1 else (tuple(bl) or None)
            codec = next((k for k, v in SIGNATURES.items() if v == magic), None)
            sniff[norm(cmpn.comparators[0])] = dict(codec=codec, magic=magic, n=n, flags=flags, lib=lib, node=st)
    ctx.floor("R11.1", "sniffing branches in open_stream", len(sniff), 4)

    # ------------------------------------------------------------------ extension table (open_path)
    ext_rows = []
    for st in walk_no_nested(open_path):
        if isinstance(st, ast.If) and isinstance(st.test, ast.Call) and isinstance(st.test.func, ast.Attribute) and st.test.func.attr == "endswith":
            exts = _fold(prog, base, st.test.args[0])
            exts = list(exts) if isinstance(exts, (tuple, list)) else [exts]
            libs = set(branch_libs(prog, base, st.body))
            flags = [x.id for s0 in st.body for x in ast.walk(s0) if isinstance(x, ast.Name) and x.id.startswith("HAS_")]
            ext_rows.append(dict(exts=exts, libs=libs, flags=flags, node=st))
    ctx.floor("R11.1", "extension branches in open_path", len(ext_rows), 4)

    ctx.rule("R11.1", "codec tables agree: extension -> library (open_path) and magic -> library (open_stream) name the same library per codec; HAS_* guards belong to that library")
    written = set()
    for row in ext_rows:
        for e in row["exts"]:
            want = EXT_CODEC.get(e)
            construct = f"open_path:{e}"
            if want is None:
                ctx.fail("R11.1", construct, f"extension {e} is not a known codec extension", row["node"], key=f"R11.1:open_path:unknown-extension:{e}")
                continue
            written.add(want)
            ctx.check(row["libs"] == {want}, "R11.1", construct, f"paths ending in {e} are opened with {sorted(row['libs'])}, the extension means {want}", row["node"],
                      f"{e} -> {want}", key=f"R11.1:open_path:{e}:wrong-library")
            for f in row["flags"]:
                ctx.check(flag_lib.get(f) == want, "R11.1", f"{construct}:{f}", f"guard {f} belongs to {flag_lib.get(f)}, not to {want}", row["node"], f"{f} is set by importing {want}")
    sniffed = set()
    for name, row in sorted(sniff.items()):
        codec = row["codec"]
        construct = f"open_stream:{name}"
        if codec is None:
            continue  # reported by R11.2
        sniffed.add(codec)
        ctx.check(row["lib"] == codec, "R11.1", construct, f"data starting with the {codec} signature is opened with {row['lib']}", row["node"], f"{name} -> {codec}",
                  key=f"R11.1:open_stream:{name}:wrong-library")
        for f in row["flags"]:
            ctx.check(flag_lib.get(f) == codec, "R11.1", f"{construct}:{f}", f"guard {f} belongs to {flag_lib.get(f)}, not to {codec}", row["node"], f"{f} guards {codec}")
    ctx.check(written == sniffed, "R11.1", "codec-tables:same-codecs", f"codecs written by extension {sorted(written)} != codecs recognised from the leading bytes {sorted(sniffed)}: "
              "a file written with one of them cannot be read back from an opaque name / file object", open_stream, f"{sorted(written)} on both sides",
              key="R11.1:codec-tables:differ")

    # ------------------------------------------------------------------ R11.2 magic constants
    ctx.rule("R11.2", "each magic folds to the real signature; compared slice length == len(magic); no magic is a prefix of another; peek depth >= longest comparison")
    for name, row in sorted(sniff.items()):
        ctx.check(row["codec"] is not None, "R11.2", f"{name}:signature", f"{name} = {row['magic']!r} is not the signature of any supported codec", row["node"],
                  f"{row['magic']!r} = {row['codec']}", key=f"R11.2:{name}:wrong-signature")
        ctx.check(row["n"] == len(row["magic"]), "R11.2", f"{name}:slice-length", f"peek_data[:{row['n']}] is compared with a {len(row['magic'])}-byte magic: the test can never be true",
                  row["node"], f"slice of {row['n']} bytes", key=f"R11.2:{name}:slice-length")
    for cname, want in (("AVRO_MAGIC", SIGNATURES["avro"]), ("RECORDSTREAM_MAGIC", SIGNATURES["recordstream"])):
        v = _fold(prog, base, ast.parse(cname).body[0].value)
        ctx.check(v == want, "R11.2", f"{cname}:signature", f"{cname} = {v!r}", None, f"{v!r}", key=f"R11.2:{cname}:wrong-signature")
    magics = [row["magic"] for row in sniff.values()] + [SIGNATURES["avro"]]
    clash = [(a, b) for a in magics for b in magics if a != b and b.startswith(a)]
    ctx.check(not clash, "R11.2", "magics:prefix-free", f"{clash} - one signature is a prefix of another", None, "prefix-free")
    longest = max([row["n"] or 0 for row in sniff.values()] + [0])
    ctx.check(isinstance(peek_depth, int) and peek_depth >= longest, "R11.2", "open_stream:peek-depth", f"peeks {peek_depth} bytes, longest comparison needs {longest}", open_stream,
              f"peek({peek_depth})")
    # container detection in find_adapter_for_stream
    fa_cmps = [n for n in ast.walk(find_adapter) if isinstance(n, ast.Compare)]
    avro_ok = any(isinstance(n.ops[0], ast.Eq) and isinstance(n.left, ast.Subscript) and _fold(prog, base, n.comparators[0]) == SIGNATURES["avro"]
                  and _fold(prog, base, n.left.slice.upper) == len(SIGNATURES["avro"]) for n in fa_cmps if isinstance(getattr(n.left, "slice", None), ast.Slice))
    rs_ok = any(isinstance(n.ops[0], ast.In) and _fold(prog, base, n.left) == SIGNATURES["recordstream"] for n in fa_cmps)
    ctx.check(avro_ok and rs_ok, "R11.2", "find_adapter_for_stream:containers", "container detection does not test the Avro and record-stream signatures", find_adapter,
              "Avro: first 3 bytes; record stream: magic within the header frame")
    rets = [r for r in walk_no_nested(find_adapter) if isinstance(r, ast.Return)]
    labels = set()
    for r in rets:
        if isinstance(r.value, ast.Tuple) and len(r.value.elts) == 2:
            lab = r.value.elts[1]
            ldefs = [st.value for st in walk_no_nested(find_adapter) if isinstance(st, ast.Assign) and len(st.targets) == 1 and norm(st.targets[0]) == norm(lab)] if isinstance(lab, ast.Name) else []
            work = list(ldefs or [lab])
            while work:
                v = work.pop()
                if isinstance(v, ast.IfExp):  # 'stream' if MAGIC in head else None
                    work += [v.body, v.orelse]
                    continue
                labels.add(_fold(prog, base, v) if not (isinstance(v, ast.Constant) and v.value is None) else None)
    ctx.check(labels == {"avro", "stream", None}, "R11.2", "find_adapter_for_stream:labels", f"returns adapter labels {labels}", find_adapter, "avro / stream / None")

    # ------------------------------------------------------------------ R11.3 sniffing reached on every read path
    ctx.rule("R11.3", "read paths reach the sniffer: open_path (no recognised extension, binary read) -> open_stream; RecordAdapter(fileobj/stdin) -> open_stream -> "
                      "find_adapter_for_stream; every return of find_adapter_for_stream hands back the peekable object it sniffed")
    pcfg = CFG(open_path)
    os_calls = [c for c in calls_in(open_path) if isinstance(prog.resolve_expr(base, c.func), DefRef) and prog.resolve_expr(base, c.func).node is open_stream]
    ctx.floor("R11.3", "open_stream calls in open_path", len(os_calls), 1)
    if os_calls:
        from .. import logic

        conds = enclosing_conditions(os_calls[0], open_path)
        rets_p = [r for r in walk_no_nested(open_path) if isinstance(r, ast.Return) and r.value is not None]
        plain = [norm(r.value) for r in rets_p if isinstance(r.value, ast.Name)]
        fp_name = norm(os_calls[0].args[0]) if os_calls[0].args and isinstance(os_calls[0].args[0], ast.Name) else (plain[-1] if plain else "fp")
        mode_p = func_params(open_path)[1]
        bin_name = next((st.targets[0].id for st in walk_no_nested(open_path) if isinstance(st, ast.Assign) and isinstance(st.targets[0], ast.Name) and isinstance(st.value, ast.Compare)
                         and isinstance(st.value.ops[0], ast.In) and isinstance(st.value.left, ast.Constant) and st.value.left.value == "b" and norm(st.value.comparators[0]) == mode_p), "binary")
        out_name = "out"
        for st in walk_no_nested(open_path):
            if isinstance(st, ast.Assign) and isinstance(st.targets[0], ast.Name):
                v = st.value
                if isinstance(v, ast.Compare) and norm(v.left) == mode_p and isinstance(v.ops[0], ast.In) and "'w'" in norm(v.comparators[0]):
                    out_name = st.targets[0].id
                if isinstance(v, ast.Constant) and v.value is True and any(f"{mode_p} in" in t and "'w'" in t and p for t, p in enclosing_conditions(st, open_path)):
                    out_name = st.targets[0].id
        # a binary read that did not pick a codec by extension: fp unset, not writing, binary
        val = {fp_name: False, out_name: False, bin_name: True, f"{fp_name} is None": True, f"{mode_p} in ('w', 'wb')": False}
        # plain copies (a = b) carry the same value: give every member of a copy class the value of the class
        changed_ = True
        while changed_:
            changed_ = False
            for st in walk_no_nested(open_path):
                if isinstance(st, ast.Assign) and len(st.targets) == 1 and isinstance(st.targets[0], ast.Name) and isinstance(st.value, ast.Name):
                    a_, b_ = st.targets[0].id, st.value.id
                    if b_ in val and a_ not in val:
                        val[a_] = val[b_]
                        changed_ = True
        call_node = pcfg.node_of(os_calls[0]).id
        feasible = logic.reachable_assuming(pcfg, pcfg.entry, lambda a: val.get(a))
        # ... among the feasible paths, none may reach a return without passing the open_stream call
        seen = {pcfg.entry}
        work = [pcfg.entry]
        skipped = False
        while work:
            u = work.pop()
            if u == call_node:
                continue
            node = pcfg.nodes[u]
            if node.kind == "stmt" and isinstance(node.ast, ast.Return):
                skipped = True
            verdict = None
            if node.kind == "test" and node.ast is not None:
                f = logic.formula(node.ast.test)
                verdict = logic.evaluate3(f, {k: v for k, v in ((a, val.get(a)) for a in logic.atoms(f)) if v is not None})
            for v, cond in pcfg.succ[u]:
                if verdict in (True, False) and cond is not None and not isinstance(cond[0], str) and cond[1] != verdict:
                    continue
                if v not in seen:
                    seen.add(v)
                    work.append(v)
        ctx.check(call_node in feasible and not skipped, "R11.3", "open_path:sniff-on-read", f"open_stream is only reached under {conds}: a binary read of a path without a codec "
                  "extension may skip signature detection", os_calls[0], "every binary read that did not pick a codec by extension passes through open_stream",
                  key="R11.3:open_path:sniff-conditional")
        # its result must be what is returned
        par = getattr(os_calls[0], "_parent", None)
        assigned = (isinstance(par, ast.Assign) and norm(par.targets[0]) == fp_name) or isinstance(par, ast.Return)
        ctx.check(assigned, "R11.3", "open_path:sniff-result-used", "the (possibly decompressing) object returned by open_stream is discarded", os_calls[0], "fp = open_stream(fp, mode)")
    acfg = CFG(radapter)
    os2 = [c for c in calls_in(radapter) if isinstance(prog.resolve_expr(base, c.func), DefRef) and prog.resolve_expr(base, c.func).node is open_stream]
    fa2 = [c for c in calls_in(radapter) if isinstance(prog.resolve_expr(base, c.func), DefRef) and prog.resolve_expr(base, c.func).node is find_adapter]
    ctx.check(len(os2) == 1 and len(fa2) == 1, "R11.3", "RecordAdapter:sniff-chain", "RecordAdapter does not call open_stream and find_adapter_for_stream exactly once", radapter,
              "open_stream then find_adapter_for_stream")
    if os2 and fa2:
        ctx.check(acfg.dominates(acfg.node_of(os2[0]).id, acfg.node_of(fa2[0]).id), "R11.3", "RecordAdapter:codec-before-container", "container detection can run on the compressed bytes", fa2[0],
                  "decompression wrapper is installed before the container is sniffed")
        f_os = {(t, p) for t, p, _ in acfg.facts_at(acfg.node_of(os2[0]).id)}
        ctx.check(("fileobj is not None", True) in f_os and ("out is False", True) in f_os and len([1 for t, p in f_os if p]) <= 3, "R11.3", "RecordAdapter:fileobj-always-sniffed",
                  f"open_stream on a file object is conditional on {sorted(f_os)}", os2[0], "every reader given a file object (or stdin) sniffs the codec")
        tgt = fa2[0]._parent.targets[0] if isinstance(getattr(fa2[0], "_parent", None), ast.Assign) else None
        ctx.check(tgt is not None and isinstance(tgt, ast.Tuple) and norm(tgt.elts[0]) == norm(fa2[0].args[0]), "R11.3", "RecordAdapter:sniffed-object-used",
                  "the object returned by find_adapter_for_stream is not the one handed to the adapter", fa2[0], "cls_stream, adapter = find_adapter_for_stream(cls_stream)")
    # find_adapter_for_stream: the peekable it sniffed is what every return hands back
    fp_param = func_params(find_adapter)[0]
    peeks = [c for c in calls_in(find_adapter) if isinstance(c.func, ast.Attribute) and c.func.attr == "peek"]
    if not peeks:
        raise AnalysisError("R11.3: find_adapter_for_stream does not peek")
    peeked = norm(peeks[0].func.value)
    facfg = CFG(find_adapter)
    pk_node = (facfg.header_node_for_expr(peeks[0]) or facfg.node_of(peeks[0])).id
    peeked_src = facfg.copy_source(peeked, pk_node) if isinstance(peeks[0].func.value, ast.Name) else peeked
    for r in rets:
        first = r.value.elts[0] if isinstance(r.value, ast.Tuple) and r.value.elts else r.value
        first_src = facfg.copy_source(first.id, facfg.node_of(r).id) if isinstance(first, ast.Name) else norm(first)
        same = norm(first) == peeked or first_src == peeked_src or first_src == peeked
        # ... and the peeked object has not been re-bound between the peek and the return
        if same and isinstance(peeks[0].func.value, ast.Name) and first_src == peeked_src and norm(first) != peeked:
            same = facfg.reaching_defs(peeked_src).get(facfg.node_of(r).id, set()) == facfg.reaching_defs(peeked_src).get(pk_node, set())
        ctx.check(same, "R11.3", f"find_adapter_for_stream:return {norm(r.value)[:40]}",
                  f"returns `{norm(first)}` although the bytes were peeked from `{peeked}`: when the input had no peek() (e.g. a zstandard reader) the caller gets the raw "
                  "object back - the buffered bytes are lost or the adapter receives an object it cannot read", r, f"returns the sniffed object `{peeked}`",
                  key="R11.3:find_adapter_for_stream:returns-unsniffed-object")

    # ------------------------------------------------------------------ R11.4 refusal
    ctx.rule("R11.4", "undetermined input is refused: RecordAdapterNotFound is raised before import_module whenever no adapter was determined; the stream reader "
                      "reads exactly the header frame and requires it to END with the magic")
    imp = [c for c in calls_in(radapter) if getattr(prog.resolve_expr(base, c.func), "name", "") == "importlib.import_module"]
    if not imp:
        raise AnalysisError("R11.4: import_module not found in RecordAdapter")
    from .. import logic as _logic

    refuses = False
    if fa2 and isinstance(getattr(fa2[0], "_parent", None), ast.Assign) and isinstance(fa2[0]._parent.targets[0], ast.Tuple) and len(fa2[0]._parent.targets[0].elts) == 2:
        label = norm(fa2[0]._parent.targets[0].elts[1])
        start = acfg.node_of(fa2[0]).id
        nxt = [v for v, _ in acfg.succ[start]]
        reach = set()
        for v in nxt:
            reach |= _logic.reachable_assuming(acfg, v, lambda a, label=label: {f"{label} is None": True, label: False}.get(a))
        refuses = acfg.node_of(imp[0]).id not in reach and acfg.raise_exit in reach
    ctx.check(refuses, "R11.4", "RecordAdapter:refuses-unknown", "an unrecognised stream does not end in RecordAdapterNotFound", radapter,
              "adapter is None after sniffing -> raise RecordAdapterNotFound")
    rh = ctx.anchor_func("flow.record.stream.RecordStreamReader.readheader")
    ctx.use(rh._module)
    stream_m = rh._module
    reads = [c for c in calls_in(rh) if isinstance(c.func, ast.Attribute) and c.func.attr == "read"]
    want = 4 + 2 + len(SIGNATURES["recordstream"])
    rn = _fold(prog, stream_m, reads[0].args[0]) if reads and reads[0].args else None
    tests = [st for st in walk_no_nested(rh) if isinstance(st, ast.If) and st.body and isinstance(st.body[-1], ast.Raise)]
    strict = False
    why = "no raising header test"
    if tests:
        t = tests[0].test
        if isinstance(t, ast.UnaryOp) and isinstance(t.op, ast.Not) and isinstance(t.operand, ast.Call) and isinstance(t.operand.func, ast.Attribute) \
                and t.operand.func.attr == "endswith" and _fold(prog, stream_m, t.operand.args[0]) == SIGNATURES["recordstream"]:
            strict = True
        elif isinstance(t, ast.Compare) and isinstance(t.ops[0], ast.NotEq) and isinstance(t.left, ast.Subscript):
            strict = _fold(prog, stream_m, t.comparators[0]) == SIGNATURES["recordstream"]
        else:
            why = f"the header is accepted unless `{norm(t)}`: input that merely CONTAINS the magic near its start (shifted header, text mentioning it) is read as a record stream"
    ctx.check(strict and rn == want, "R11.4", "RecordStreamReader.readheader:strict", why if not strict else f"reads {rn} bytes, the header frame is {want}", rh,
              f"reads {want} bytes and requires header.endswith(magic)", key="R11.4:readheader:loose-header-test")
    init = ctx.anchor_func("flow.record.stream.RecordStreamReader.__init__")
    ctx.check(any(norm(c.func) == "self.readheader" for c in calls_in(init)), "R11.4", "RecordStreamReader.__init__:checks-header", "the header is not checked on construction", init,
              "readheader() in __init__")

    # ------------------------------------------------------------------ R11.5 container table
    ctx.rule("R11.5", "ext_to_adapter maps to adapter modules that exist and define <Title>Reader / <Title>Writer")
    table = None
    default = []
    for c in calls_in(radapter):
        if isinstance(c.func, ast.Attribute) and c.func.attr == "get" and len(c.args) == 2 and isinstance(c.func.value, ast.Name):
            recv = c.func.value.id
            local = [st.value for st in walk_no_nested(radapter) if isinstance(st, ast.Assign) and norm(st.targets[0]) == recv]
            t = _fold(prog, base, local[0]) if len(local) == 1 else (_fold(prog, base, c.func.value) if not local else None)
            if isinstance(t, dict) and t and all(isinstance(k, str) and k.startswith(".") for k in t):
                table = t
                default.append(c)
    if not isinstance(table, dict):
        raise AnalysisError("R11.5: ext_to_adapter not found")
    ctx.floor("R11.5", "extension -> adapter rows", len(table), 3)
    for ext, ad in sorted(table.items()):
        modname = f"flow.record.adapter.{ad}"
        m = prog.modules.get(modname)
        ok = m is not None and any(isinstance(n, ast.ClassDef) and n.name == f"{ad.title()}Reader" for n in m.tree.body) and \
            any(isinstance(n, ast.ClassDef) and n.name == f"{ad.title()}Writer" for n in m.tree.body)
        ctx.check(ok, "R11.5", f"ext_to_adapter:{ext}", f"{ext} -> {ad}: module or {ad.title()}Reader/{ad.title()}Writer missing", radapter, f"{ext} -> {modname}")
    ctx.check(bool(default) and len(default[0].args) == 2 and _fold(prog, base, default[0].args[1]) == "stream", "R11.5", "ext_to_adapter:default", "unknown extensions do not default to the stream adapter",
              radapter, "default adapter is 'stream'")

    # ------------------------------------------------------------------ R11.7 the source object is looked up when it is needed
    ctx.rule("R11.7", "a memoised function (lru_cache / cache) does not hand out process state - sys.stdin / sys.stdout / sys.stderr, os.environ, a freshly opened file: "
                      "the second reader of standard input in one process would sniff codec and container from the first one's exhausted object")
    n_memo5 = 0
    for mname5, mod5 in sorted(prog.modules.items()):
        for fn5 in [n for n in ast.walk(mod5.tree) if isinstance(n, (ast.FunctionDef, ast.AsyncFunctionDef))]:
            decos5 = [norm(d.func) if isinstance(d, ast.Call) else norm(d) for d in fn5.decorator_list]
            if not any(d.split(".")[-1] in ("lru_cache", "cache") for d in decos5):
                continue
            n_memo5 += 1
            state = [n for n in ast.walk(fn5) if (isinstance(n, ast.Attribute) and dotted(n) and dotted(n).split(".")[:2] in (["sys", "stdin"], ["sys", "stdout"], ["sys", "stderr"], ["os", "environ"]))
                     or (isinstance(n, ast.Call) and call_name(n) in ("open", "io.open", "os.fdopen"))]
            ctx.check(not state, "R11.7", f"{qualname_of(fn5).replace('flow.record.', '')}:memoised", f"{fn5.name}() is memoised and returns / reads process state (`{norm(state[0])[:40] if state else ''}`): "
                      "every later caller gets the object of the first call, whatever standard input is by then", state[0] if state else fn5, "memoised functions are pure",
                      key=f"R11.7:{qualname_of(fn5).replace('flow.record.', '')}:memoised-process-state")
    ctx.floor("R11.7", "memoised functions in the package", n_memo5, 5)

    # ------------------------------------------------------------------ R11.6 readers do not rewind what may not be seekable
    ctx.rule("R11.6", "a reader rewinds (seek) the object it was given only under a seekable() test: decompressing readers (zstd) and standard input cannot seek, and a "
                      "reader that reads a few bytes to look at them and seeks back fails for exactly those sources")
    from .. import logic  # noqa: F811
    n_seek = 0
    for mname6, mod6 in sorted(prog.modules.items()):
        if not (mname6.startswith("flow.record.adapter") or mname6 in ("flow.record.stream", "flow.record.base")):
            continue
        for fn6 in [n for n in ast.walk(mod6.tree) if isinstance(n, (ast.FunctionDef, ast.AsyncFunctionDef))]:
            # the read path: methods of the writer classes work on a file they opened for writing themselves - a target that cannot seek
            # makes them raise, which is a refusal and not a source that can no longer be read
            owner6 = getattr(fn6, "_parent", None)
            if isinstance(owner6, ast.ClassDef) and any(norm(b).split(".")[-1] == "AbstractWriter" for b in owner6.bases):
                continue
            seeks = [c for c in calls_in(fn6) if isinstance(c.func, ast.Attribute) and c.func.attr == "seek"]
            if not seeks:
                continue
            cfg6 = CFG(fn6)
            for c6 in seeks:
                n_seek += 1
                recv = norm(c6.func.value)
                prem6 = logic.facts_as_premises(cfg6.facts_at((cfg6.header_node_for_expr(c6) or cfg6.node_of(c6)).id))
                # (a read in between does not change whether the object can seek: the enclosing tests count as well as the path facts)
                encl6 = [(t, p) for t, p in enclosing_conditions(c6, fn6)]
                ctx.check(logic.implies(prem6, logic.parse(f"{recv}.seekable()")) or (f"{recv}.seekable()", True) in encl6, "R11.6", f"{qualname_of(fn6).replace('flow.record.', '')}:seek:{recv}",
                          f"`{norm(c6)}` is not under `{recv}.seekable()`: a decompressing or piped source raises here", c6, f"if {recv}.seekable(): ... {recv}.seek(...)",
                          key=f"R11.6:{qualname_of(fn6).replace('flow.record.', '')}:unguarded-seek")
    ctx.floor("R11.6", "seek() calls on the read path", n_seek, 1)



def _fold(prog, module, e):
    if e is None:
        return None
    try:
        return prog.fold(module, e)
    except NotConst:
        return None


def _always_raises(stmts) -> bool:
    if not stmts:
        return False
    last = stmts[-1]
    if isinstance(last, ast.Raise):
        return True
    if isinstance(last, ast.If) and last.orelse:
        return _always_raises(last.body) and _always_raises(last.orelse)
    return False
