"""Recognition of the frame length prefix idioms: struct.pack(fmt, n) / struct.unpack(fmt, b) and the equivalent methods of a
module-level struct.Struct(fmt) object; the variable that receives the decoded length."""
from __future__ import annotations

import ast

from ..core import NotConst, StructConst, call_name, calls_in, norm, walk_no_nested


def struct_sites(prog, fn, kind):
    """[(call, fmt, data_args)] for pack / unpack sites in fn."""
    module = fn._module
    out = []
    for c in calls_in(fn):
        cn = call_name(c)
        if cn == f"struct.{kind}" and c.args:
            try:
                fmt = prog.fold(module, c.args[0])
            except NotConst:
                continue
            out.append((c, fmt, c.args[1:]))
        elif isinstance(c.func, ast.Attribute) and c.func.attr == kind:
            try:
                base = prog.fold(module, c.func.value)
            except NotConst:
                continue
            if isinstance(base, StructConst):
                out.append((c, base.fmt, list(c.args)))
    return out


def assigned_from(fn, call):
    """Name that receives the (first element of the) value of `call`:  x = call[0] | (x,) = call | x, = call | x = call."""
    for st in walk_no_nested(fn):
        if isinstance(st, ast.Assign) and call in list(ast.walk(st.value)) and len(st.targets) == 1:
            t = st.targets[0]
            if isinstance(t, (ast.Tuple, ast.List)) and len(t.elts) == 1 and st.value is call:
                return norm(t.elts[0])
            if isinstance(t, ast.Name):
                v = st.value
                if v is call or (isinstance(v, ast.Subscript) and v.value is call and isinstance(v.slice, ast.Constant) and v.slice.value == 0):
                    return t.id
    return None
